--------------------------- MODULE MCSerdeWrap ---------------------------
(* All paths of length <= MaxDepth through the serde entry points, with every leaf kind at the end (C01), and every *)
(* path to a struct (C05).                                                                                          *)
EXTENDS SerdeWrap, Json, IOUtils
CONSTANTS MaxDepth, EmitMod
VARIABLES path, leaf, phase
vars == <<path, leaf, phase>>
EmitRes == IF "EMITRES" \in DOMAIN IOEnv THEN atoi(IOEnv.EMITRES) % EmitMod ELSE 0

(* a key is a leaf or an alias (newtype struct) of a leaf: nothing but newtype_struct may follow map_key *)
MayFollow(p, s) == InKey(p) => s = "newtype_struct"

Init == path = <<>> /\ leaf = "" /\ phase = "path"
Step == /\ phase = "path" /\ Len(path) < MaxDepth
        /\ \E s \in Steps : MayFollow(path, s) /\ path' = Append(path, s)
        /\ UNCHANGED <<leaf, phase>>
PickLeaf == /\ phase = "path"
            /\ \E l \in (IF InKey(path) THEN KeyLeaves ELSE Leaves) : leaf' = l
            /\ phase' = "leaf" /\ UNCHANGED path
PickStruct == phase = "path" /\ ~InKey(path) /\ leaf' = "struct" /\ phase' = "struct" /\ UNCHANGED path
Spec == Init /\ [][Step \/ PickLeaf \/ PickStruct]_vars

Fmts == {"json", "smile"}
(* I1 *) ModeIffKey == phase = "leaf" => SerMode(path) = (IF InKey(path) THEN "key" ELSE "value")
                                        /\ DeMode(path) = (IF InKey(path) THEN "key" ELSE "value")
(* I2 *) Spelling == phase = "leaf" => \A f \in Fmts : SpelledRight(f, path, leaf)
(* I3 *) JsonIsStandard == phase = "leaf" => StandardJson(path, leaf)
(* I4 *) RoundTrip == phase = "leaf" => \A f \in Fmts : DecodesBack(f, path, leaf)
(* U1/U3 *) StrictEverywhere == phase = "struct" => ServerRejects(path)

RECURSIVE SumSeq(_, _)
SumSeq(s, k) == IF k > Len(s) THEN 0 ELSE s[k] + SumSeq(s, k + 1)
StepCode(s) == CASE s = "some" -> 1 [] s = "newtype_struct" -> 2 [] s = "newtype_variant" -> 3 [] s = "seq_elem" -> 4
                 [] s = "tuple_elem" -> 5 [] s = "tuple_struct_field" -> 6 [] s = "tuple_variant_field" -> 7
                 [] s = "map_value" -> 8 [] s = "struct_field" -> 9 [] s = "struct_variant_field" -> 10 [] OTHER -> 11
Hash == SumSeq([i \in 1..Len(path) |-> (i * 13 + 5) * StepCode(path[i])], 1)
Emit == (phase \in {"leaf", "struct"} /\ (Len(path) <= 2 \/ Hash % EmitMod = EmitRes)) =>
          PrintT(<<"CASE", ToJson([path |-> path, leaf |-> leaf, inkey |-> InKey(path),
                                   json |-> IF phase = "leaf" THEN MechToken("json", path, leaf) ELSE Tok("", ""),
                                   smile |-> IF phase = "leaf" THEN MechToken("smile", path, leaf) ELSE Tok("", ""),
                                   pjson |-> IF phase = "leaf" THEN PropToken("json", InKey(path), leaf) ELSE Tok("", ""),
                                   psmile |-> IF phase = "leaf" THEN PropToken("smile", InKey(path), leaf) ELSE Tok("", "")])>>)
=============================================================================
