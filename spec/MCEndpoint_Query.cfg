SPECIFICATION Spec
CONSTANTS
  Args <- ArgsQuery
  MaxFaults = 2
  EndpointName = "Query"
INVARIANTS Props Emit
CHECK_DEADLOCK FALSE
