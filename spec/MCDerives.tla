--------------------------- MODULE MCDerives ---------------------------
(* All definitions of N object types with <= MaxFields fields each. *)
EXTENDS Derives, Json, IOUtils
CONSTANTS N, MaxFields, EmitMod,
          WarmInSeedOrder,   \* TRUE: the cache is warmed in an order drawn from the hash seed (regression; must break Functional)
          GenInSeedOrder     \* TRUE: the objects are generated in an order drawn from the hash seed (regression; must break Functional)
VARIABLES def, phase
vars == <<def, phase>>
EmitRes == IF "EMITRES" \in DOMAIN IOEnv THEN atoi(IOEnv.EMITRES) % EmitMod ELSE 0

FieldVals == {0, -1} \cup (1..N)
FieldSeqs == UNION {[1..k -> FieldVals] : k \in 0..MaxFields}
Init == def = <<>> /\ phase = "types"
AddType == phase = "types" /\ Len(def) < N /\ (\E fs \in FieldSeqs : def' = Append(def, fs)) /\ UNCHANGED phase
Done == phase = "types" /\ Len(def) = N /\ phase' = "done" /\ UNCHANGED def
Spec == Init /\ [][AddType \/ Done]_vars

Perms == {p \in [1..N -> 1..N] : \A a, b \in 1..N : a # b => p[a] # p[b]}
WarmOrders == IF WarmInSeedOrder THEN {[i \in 1..N |-> p[i]] : p \in Perms} ELSE {<<>>}
Sel == Selection(def, <<>>)
PlainIsValidInv == phase = "done" => \A w \in WarmOrders : PlainIsValid(def, Selection(def, w))
EduceIfDirectInv == phase = "done" => \A w \in WarmOrders : EduceIfDirect(def, Selection(def, w))
NoSpuriousEduceInv == phase = "done" => \A w \in WarmOrders : NoSpuriousEduce(def, Selection(def, w))
GenOrders == IF GenInSeedOrder THEN {[i \in 1..N |-> p[i]] : p \in Perms} ELSE {[i \in 1..N |-> i]}
Functional == phase = "done" => /\ \A w1, w2 \in WarmOrders : Selection(def, w1) = Selection(def, w2)
                                /\ \A g \in GenOrders : SelectionIn(def, g) = Sel
(* documentation of the order dependence: some definition and two IR orders of it give different selections for the same type.
   Checked as a property that MUST be violated (config `orderdep`): the provisional entry makes the memo order dependent. *)
Swap(d) == [i \in 1..N |-> LET src == IF i = 1 THEN 2 ELSE IF i = 2 THEN 1 ELSE i IN
                            [k \in 1..Len(d[src]) |-> LET f == d[src][k] IN IF f = 1 THEN 2 ELSE IF f = 2 THEN 1 ELSE f]]
SwapSel(s) == [i \in 1..N |-> IF i = 1 THEN s[2] ELSE IF i = 2 THEN s[1] ELSE s[i]]
OrderIndependent == (phase = "done" /\ N >= 2) => Selection(Swap(def), <<>>) = SwapSel(Sel)

RECURSIVE SumSeq(_, _)
SumSeq(s, k) == IF k > Len(s) THEN 0 ELSE s[k] + SumSeq(s, k + 1)
Hash == SumSeq([i \in 1..Len(def) |-> (i * 31 + 7) * SumSeq([k \in 1..Len(def[i]) |-> (k * 5 + 1) * (def[i][k] + 2)], 1) + i], 1)
Emit == (phase = "done" /\ Hash % EmitMod = EmitRes) => PrintT(<<"CASE", ToJson([def |-> def, sel |-> Sel])>>)
=============================================================================
