--------------------------- MODULE Builders ---------------------------
(***************************************************************************)
(* Extension X01 (not one of the listed properties): the staged builders,  *)
(* constructors and accessors the generator emits for objects              *)
(* (conjure-codegen/src/objects.rs + staged-builder with `update, inline`).*)
(*                                                                         *)
(* An object is a sequence of fields; a field is REQUIRED iff its type is  *)
(* not optional / list / set / map after dealiasing (Context::is_required).*)
(* Builder protocol (staged-builder's documentation):                      *)
(*   builder()            -> stage of the first required field             *)
(*   stage k: only the setter of the k-th required field (declaration      *)
(*            order) exists; it moves to stage k+1                         *)
(*   complete stage: a setter for EVERY field (`update`), push_/insert_/   *)
(*            extend_ for list / set / map fields, build()                 *)
(*   From<Object> for the complete stage (`update`)                        *)
(*   new(required fields in order) exists iff there are <= 3 of them; it   *)
(*            is called new_ when a field is named `new`                   *)
(* Property: the built object holds, per field, what the call history says:*)
(* last `set` wins, push/insert/extend accumulate on top of it, unset      *)
(* non-required fields are empty; accessors return those values; the JSON  *)
(* form follows C02.                                                       *)
(***************************************************************************)
EXTENDS Integers, Sequences, FiniteSets, TLC

Kinds == {"int", "str", "opt", "list", "set", "map", "aopt"}
Required(k) == k \in {"int", "str"}

(* abstract values: scalars are 1 or 2; collections are sequences of scalars (sets / maps interpret them) *)
Scalars == {1, 2}
Empty(k) == CASE k = "opt" -> <<>> [] k = "aopt" -> <<>> [] k = "list" -> <<>> [] k = "set" -> <<>> [] k = "map" -> <<>> [] OTHER -> <<0>>
SetValues(k) == CASE k \in {"int", "str"} -> {<<1>>, <<2>>}
                  [] k \in {"opt", "aopt"} -> {<<>>, <<1>>, <<2>>}
                  [] OTHER -> {<<>>, <<1>>, <<2, 1>>}

RequiredIdx(def) == SelectSeq([i \in 1..Len(def) |-> i], LAMBDA i : Required(def[i]))
NReq(def) == Len(RequiredIdx(def))
HasNew(def) == NReq(def) <= 3

(* set semantics: insertion order irrelevant, duplicates collapse; map: key = value = scalar, later insert overwrites *)
RECURSIVE Dedup(_)
Dedup(s) == IF s = <<>> THEN <<>> ELSE LET r == Dedup(SubSeq(s, 1, Len(s) - 1)) x == s[Len(s)] IN
                                       IF \E i \in 1..Len(r) : r[i] = x THEN r ELSE Append(r, x)
Norm(k, v) == IF k \in {"set", "map"} THEN Dedup(v) ELSE v

(* one call on the complete stage *)
Apply(def, vals, c) ==
    LET k == def[c.f] IN
    CASE c.op = "set" -> [vals EXCEPT ![c.f] = Norm(k, c.v)]
      [] c.op = "add" -> [vals EXCEPT ![c.f] = Norm(k, Append(@, c.v[1]))]      \* push_ / insert_
      [] c.op = "extend" -> [vals EXCEPT ![c.f] = Norm(k, @ \o c.v)]
      [] OTHER -> vals
=============================================================================
