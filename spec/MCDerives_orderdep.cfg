SPECIFICATION Spec
CONSTANTS
  N = 3
  MaxFields = 2
  EmitMod = 1000000
  WarmInSeedOrder = FALSE
  GenInSeedOrder = FALSE
INVARIANTS OrderIndependent
CHECK_DEADLOCK FALSE
