SPECIFICATION Spec
CONSTANTS
  AliasFuel = 9
  SerializeEmpty = FALSE
  Exhaustive = FALSE
INVARIANTS NullCoercion UnionAgrees KnownNeverUnknown ExhaustiveRejectsUnlisted Emit
CHECK_DEADLOCK FALSE
