SPECIFICATION Spec
CONSTANTS
  Mode = "token"
  MaxLen = 5
  EmitMod = 40
INVARIANTS TokenExact RidExact RidPartsJoin ComponentsExact Emit
CHECK_DEADLOCK FALSE
