SPECIFICATION Spec
CONSTANTS
  Args <- ArgsAuthCookie
  MaxFaults = 3
  EndpointName = "AuthCookie"
INVARIANTS Props Emit
CHECK_DEADLOCK FALSE
