SPECIFICATION Spec
CONSTANTS
  N = 3
  Repaired = TRUE
  MaxObjFields = 2
  MaxUnionFields = 1
  MapExprs = FALSE
  Kinds = {"enum","alias","object","union"}
  Bearer = TRUE
  Decls = {"safe","unsafe","dnl"}
  ArgMode = "perm"
  MaxArgs = 0
  EmitMod = 40
INVARIANTS Sound Complete MemoClean MemoSound Emit
CHECK_DEADLOCK FALSE
