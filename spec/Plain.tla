--------------------------- MODULE Plain ---------------------------
(***************************************************************************)
(* C12 - PLAIN text of every parameter value parses back to the same       *)
(*       value.                                                            *)
(*                                                                         *)
(* A two-action machine Print ; Parse over value CLASSES per type.  What   *)
(* the specification can fix is (a) the Conjure spellings that are         *)
(* prescribed - Infinity / -Infinity / NaN, true / false, padded standard  *)
(* Base64, hyphenated lower-case uuid, RFC 3339 shape, the enum's wire     *)
(* name, identity for rid / bearer token / string - and (b) the partition  *)
(* of each domain into classes that the replay must all hit; the numeric   *)
(* fidelity of float and calendar printing is decided by the replay only.  *)
(* Mech: conjure-object/src/plain.rs (Display for most types, the explicit *)
(* Infinity cases for f64 on both sides, Fixed::RFC3339 for datetimes,     *)
(* Base64 STANDARD for binary) and the generated alias / enum impls that   *)
(* delegate to them.                                                       *)
(***************************************************************************)
EXTENDS Integers, Sequences, FiniteSets, TLC

Types == {"string", "integer", "safelong", "double", "boolean", "uuid", "rid", "bearertoken", "binary", "datetime", "enum",
          "alias"}
ClassesOf(t) ==
    CASE t = "double" -> {"nan", "inf", "ninf", "pzero", "nzero", "integral", "fraction", "needs17", "subnormal", "huge", "tiny"}
      [] t = "integer" -> {"min", "m1", "zero", "one", "max"}
      [] t = "safelong" -> {"min", "m1", "zero", "max"}
      [] t = "boolean" -> {"true", "false"}
      [] t = "uuid" -> {"nil", "max", "random"}
      [] t = "rid" -> {"minimal", "emptyinstance", "dottedlocator"}
      [] t = "bearertoken" -> {"plain", "padded", "symbols"}
      [] t = "binary" -> {"len0", "len1", "len2", "len3", "highbytes"}
      [] t = "datetime" -> {"y0000", "y0001", "epoch", "leapday", "y9999end", "nanos1", "nanosmax", "millis"}
      [] t = "string" -> {"empty", "ascii", "reserved", "unicode", "looksnumeric", "NaNtext"}
      [] t = "enum" -> {"listed", "unknown"}
      [] OTHER -> {"ofstring", "ofdouble", "ofaliasofstring", "ofinteger", "ofuuid", "ofbinary"}

(* the prescribed spelling ("free" = any text that parses back) *)
Spelling(t, c) ==
    CASE t = "double" /\ c = "nan" -> "NaN"
      [] t = "double" /\ c = "inf" -> "Infinity"
      [] t = "double" /\ c = "ninf" -> "-Infinity"
      [] t = "boolean" -> c
      [] t = "binary" -> "base64-standard-padded"
      [] t = "uuid" -> "hyphenated-lowercase"
      [] t = "datetime" -> "rfc3339"
      [] t \in {"rid", "bearertoken", "string"} -> "identity"
      [] t = "enum" -> "wire-name"
      [] t \in {"integer", "safelong"} -> "decimal"
      [] OTHER -> "free"

(* Mech: printing then parsing.  The f64 impl special-cases the infinities on BOTH sides and relies on Display/FromStr *)
(* for everything else; st = [phase, text, value]                                                                      *)
MechPrint(t, c) == IF t = "double" /\ c \in {"inf", "ninf"} THEN [form |-> "lit", lit |-> Spelling(t, c), c |-> c]
                   ELSE IF t = "double" /\ c = "nan" THEN [form |-> "lit", lit |-> "NaN", c |-> c]   \* Rust prints NaN as "NaN"
                   ELSE [form |-> "display", lit |-> "", c |-> c]
MechParse(t, text) == IF text.form = "lit" /\ text.lit = "Infinity" THEN "inf"
                      ELSE IF text.form = "lit" /\ text.lit = "-Infinity" THEN "ninf"
                      ELSE IF text.form = "lit" /\ text.lit = "NaN" THEN "nan" ELSE text.c
RoundTrip(t, c) == MechParse(t, MechPrint(t, c)) = c
=============================================================================
