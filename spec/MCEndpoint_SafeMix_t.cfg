SPECIFICATION Spec
CONSTANTS
  Args <- ArgsSafeMix
  MaxFaults = 3
  EndpointName = "SafeMix"
INVARIANTS Props Emit
CHECK_DEADLOCK FALSE
