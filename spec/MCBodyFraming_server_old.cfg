SPECIFICATION Spec
CONSTANTS
  EndCheck = FALSE
  MaxChunks = 3
  MaxLen = 3
  Side = "server"
  EmitMod = 1
INVARIANTS AcceptIffOneDocument ErrorKind ValueOnlyFromCompleteTypedBody ChunkingIndependence Emit
CHECK_DEADLOCK FALSE
