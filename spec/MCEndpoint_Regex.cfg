SPECIFICATION Spec
CONSTANTS
  Args <- ArgsRegex
  MaxFaults = 2
  EndpointName = "Regex"
INVARIANTS Props Emit
CHECK_DEADLOCK FALSE
