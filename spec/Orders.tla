--------------------------- MODULE Orders ---------------------------
(***************************************************************************)
(* C14 - Generated types with doubles have a lawful total order, equality  *)
(*       and hash.                                                         *)
(*                                                                         *)
(* Mech: conjure-object/src/private.rs DoubleOps for f64 (OrderedFloat:    *)
(* NaN = NaN, NaN greatest, -0 = +0, canonical hash), Option (None < Some, *)
(* discriminant hashed), Vec (lexicographic over the common prefix, then   *)
(* length; length hashed first), BTreeMap (iterator comparison of          *)
(* (key, wrapped value) pairs; length hashed first), DoubleKey, and the    *)
(* derive/educe composition for objects (lexicographic by field) and       *)
(* unions (variant index, then payload).                                   *)
(* Prop: the order / equality / hash laws.                                 *)
(*                                                                         *)
(* Values: [k, s, kids]: "dbl" (s = symbol), "none", "some", "list",       *)
(* "map" (kids = <<k1, v1, ..>> in key order; keys are "str"/"dbl" leaves), *)
(* "obj" (kids = fields), "var" (s = variant index as a digit string).      *)
(***************************************************************************)
EXTENDS Integers, Sequences, FiniteSets, TLC

Val(k, s, kids) == [k |-> k, s |-> s, kids |-> kids]
Dbl(s) == Val("dbl", s, <<>>)
Str(s) == Val("str", s, <<>>)

(* rank of a double symbol under OrderedFloat; equal rank = equal *)
Rank(s) == CASE s = "ninf" -> 0 [] s = "m1.5" -> 1 [] s = "nz" -> 2 [] s = "pz" -> 2 [] s = "1.5" -> 3
             [] s = "inf" -> 4 [] s = "nan" -> 5 [] s = "nan2" -> 5 [] s = "a" -> 10 [] s = "b" -> 11 [] s = "0" -> 20
             [] s = "1" -> 21 [] s = "2" -> 22 [] OTHER -> 30
CanonSym(s) == CASE s \in {"nan", "nan2"} -> "NAN" [] s \in {"nz", "pz"} -> "ZERO" [] OTHER -> s
Sign(n) == IF n < 0 THEN -1 ELSE IF n > 0 THEN 1 ELSE 0

RECURSIVE Cmp(_, _), Eq(_, _), HashKey(_), CmpSeq(_, _, _), EqSeq(_, _, _)

(* lexicographic comparison of two sequences of values from position i (iterator comparison) *)
CmpSeq(x, y, i) ==
    IF i > Len(x) /\ i > Len(y) THEN 0
    ELSE IF i > Len(x) THEN -1
    ELSE IF i > Len(y) THEN 1
    ELSE LET c == Cmp(x[i], y[i]) IN IF c # 0 THEN c ELSE CmpSeq(x, y, i + 1)
EqSeq(x, y, i) == Len(x) = Len(y) /\ \A j \in i..Len(x) : Eq(x[j], y[j])

Cmp(a, b) ==
    CASE a.k \in {"dbl", "str"} -> Sign(Rank(a.s) - Rank(b.s))
      [] a.k \in {"none", "some"} ->
            IF a.k = "some" /\ b.k = "some" THEN Cmp(a.kids[1], b.kids[1])
            ELSE IF a.k = "some" THEN 1 ELSE IF b.k = "some" THEN -1 ELSE 0
      [] a.k = "list" -> CmpSeq(a.kids, b.kids, 1)          \* common prefix, then length
      [] a.k = "map" -> CmpSeq(a.kids, b.kids, 1)           \* pairs flattened: (k1, v1, k2, v2 ..)
      [] a.k = "obj" -> CmpSeq(a.kids, b.kids, 1)           \* derive(Ord): field by field
      [] a.k = "var" -> IF a.s # b.s THEN Sign(Rank(a.s) - Rank(b.s)) ELSE CmpSeq(a.kids, b.kids, 1)

Eq(a, b) ==
    CASE a.k \in {"dbl", "str"} -> Rank(a.s) = Rank(b.s)
      [] a.k \in {"none", "some"} -> a.k = b.k /\ (a.k = "some" => Eq(a.kids[1], b.kids[1]))
      [] a.k = "var" -> a.s = b.s /\ EqSeq(a.kids, b.kids, 1)
      [] OTHER -> EqSeq(a.kids, b.kids, 1)

(* the words fed to the hasher *)
HashSeq(xs) == LET RECURSIVE H(_) H(i) == IF i > Len(xs) THEN <<>> ELSE HashKey(xs[i]) \o H(i + 1) IN H(1)
HashKey(a) ==
    CASE a.k \in {"dbl", "str"} -> <<CanonSym(a.s)>>
      [] a.k = "none" -> <<"disc0">>
      [] a.k = "some" -> <<"disc1">> \o HashKey(a.kids[1])
      [] a.k = "list" -> <<"len", Len(a.kids)>> \o HashSeq(a.kids)
      [] a.k = "map" -> <<"len", Len(a.kids) \div 2>> \o HashSeq(a.kids)
      [] a.k = "obj" -> HashSeq(a.kids)
      [] a.k = "var" -> <<"variant", a.s>> \o HashSeq(a.kids)

---------------------------------------------------------------------------
(* Prop: the laws, for values a, b, c of one type *)
Reflexive(a) == Eq(a, a) /\ Cmp(a, a) = 0
EqIffCmp(a, b) == Eq(a, b) <=> Cmp(a, b) = 0
Antisymmetric(a, b) == Cmp(a, b) = -Cmp(b, a)
Transitive(a, b, c) == (Cmp(a, b) <= 0 /\ Cmp(b, c) <= 0) => Cmp(a, c) <= 0
TransitiveEq(a, b, c) == (Eq(a, b) /\ Eq(b, c)) => Eq(a, c)
HashConsistent(a, b) == Eq(a, b) => HashKey(a) = HashKey(b)
NanGreatest(a) == a.k = "dbl" => Cmp(Dbl("nan"), a) >= 0

---------------------------------------------------------------------------
(* Selection (context.rs is_double / has_double): which generated fields get the DoubleOps methods.           *)
(* Shapes as in WireFormat: [c, p, kids].  A field needs the methods iff its Rust type contains a bare f64,    *)
(* i.e. a double not in a set-item or map-key position (those are DoubleKey) and not behind a named type       *)
(* (aliases, objects and unions implement their own Eq/Ord/Hash).                                              *)
RECURSIVE BareDouble(_), MechIsDouble(_)
BareDouble(s) == CASE s.c = "prim" -> s.p = "double"
                   [] s.c \in {"opt", "list"} -> BareDouble(s.kids[1])
                   [] s.c = "map" -> BareDouble(s.kids[2])
                   [] s.c = "ext" -> BareDouble(s.kids[1])
                   [] OTHER -> FALSE                  \* set, ref, alias
MechIsDouble(s) == CASE s.c = "prim" -> s.p = "double"
                     [] s.c \in {"opt", "list"} -> MechIsDouble(s.kids[1])
                     [] s.c = "map" -> MechIsDouble(s.kids[2])
                     [] s.c = "ext" -> MechIsDouble(s.kids[1])
                     [] OTHER -> FALSE
=============================================================================
