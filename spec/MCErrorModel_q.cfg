SPECIFICATION Spec
CONSTANTS
  MaxSafe = 2
  MaxUnsafe = 2
  EmitMod = 7
INVARIANTS OneEntryPerScalar Partition PropagatedAllUnsafe Emit
CHECK_DEADLOCK FALSE
