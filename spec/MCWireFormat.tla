--------------------------- MODULE MCWireFormat ---------------------------
(* Bounded universe of field shapes x document classes (C02), union member sequences and enum names (C10). *)
EXTENDS WireFormat, Json
CONSTANTS Exhaustive
VARIABLES kind, shape, dc, members, ename, phase
vars == <<kind, shape, dc, members, ename, phase>>

Ref(n) == Sh("ref", n, <<>>)
Opt(x) == Sh("opt", "", <<x>>)
List(x) == Sh("list", "", <<x>>)
SetOf(x) == Sh("set", "", <<x>>)
Map(k, x) == Sh("map", "", <<k, x>>)
Alias(x) == Sh("alias", "", <<x>>)
Ext(x) == Sh("ext", "", <<x>>)

Items == {Prim("string"), Prim("integer"), Prim("double"), Prim("binary"), Ref("obj"), Ref("enum")}
Keys == {Prim("string"), Prim("integer"), Prim("double"), Prim("boolean"), Prim("uuid"), Ref("enum")}
(* the remaining key types of the data model: one value kind each *)
MoreKeys == {Prim("rid"), Prim("bearertoken"), Prim("datetime"), Prim("safelong"), Prim("binary")}
Base == {Prim(p) : p \in Prims} \cup {Ref("obj"), Ref("enum"), Ref("union")}
        \cup {Opt(x) : x \in Items \cup {Prim("any"), Ref("union"), List(Prim("string")), Prim("safelong"), Prim("uuid")}}
        \cup {List(x) : x \in Items \cup {Opt(Prim("integer")), Prim("any")}}
        \cup {SetOf(x) : x \in {Prim("string"), Prim("integer"), Prim("double"), Ref("enum")}}
        \cup {Map(k, x) : k \in Keys, x \in {Prim("string"), Prim("double"), List(Prim("integer"))}}
        \cup {Map(k, Prim("integer")) : k \in MoreKeys} \cup {SetOf(k) : k \in MoreKeys \cup {Prim("uuid"), Prim("boolean")}}
Wrapped == {Prim("string"), Prim("double"), Prim("any"), Prim("binary"), Prim("integer"), Opt(Prim("integer")),
            List(Prim("string")), SetOf(Prim("double")), Map(Prim("string"), Prim("double")), Ref("obj"), Opt(Ref("obj")), Ref("enum")}
Shapes == Base \cup {Alias(x) : x \in Wrapped} \cup {Alias(Alias(x)) : x \in Wrapped}
          \cup {Ext(x) : x \in Wrapped} \cup {Alias(Ext(x)) : x \in Wrapped}

Listed == {"circle", "name"}
MemberKeys == {"type", "circle", "name", "zzz"}
MemberSet == {[key |-> "type", val |-> v] : v \in {"circle", "name", "zzz", "yyy"}}
             \cup {[key |-> k, val |-> v] : k \in {"circle", "name", "zzz"}, v \in {"good", "bad"}}
EnumNames == {"RED", "BLUE", "GREEN", "A_1", "lower", ""}

NoShape == Prim("string")
Init == kind = "" /\ shape = NoShape /\ dc = "" /\ members = <<>> /\ ename = "" /\ phase = "pick"
PickField == phase = "pick" /\ members = <<>> /\ (\E s \in Shapes : \E d \in DocClasses : shape' = s /\ dc' = d) /\ kind' = "field"
             /\ phase' = "done" /\ UNCHANGED <<members, ename>>
AddMember == phase = "pick" /\ Len(members) < 3 /\ (\E m \in MemberSet : members' = Append(members, m))
             /\ UNCHANGED <<kind, shape, dc, ename, phase>>
PickUnion == phase = "pick" /\ kind' = "union" /\ phase' = "done" /\ UNCHANGED <<shape, dc, members, ename>>
PickEnum == phase = "pick" /\ members = <<>> /\ (\E n \in EnumNames : ename' = n) /\ kind' = "enum" /\ phase' = "done"
            /\ UNCHANGED <<shape, dc, members>>
Spec == Init /\ [][PickField \/ AddMember \/ PickUnion \/ PickEnum]_vars

(* payload "bad" only constrains listed variants; unknown payloads are opaque JSON *)
(* deliberate deviations of the modelled mechanism from wire spec 5.4 (null for `any`, null for collections);     *)
(* they are reproduced on the real code by the check and listed in known_findings.json.  NullCoercion states the  *)
(* clause and is expected to be violated; FieldAgrees covers everything else.                                     *)
NullDeviation(s, d) == d = "null" /\ (LET x == Dealias(s) IN (x.c = "prim" /\ x.p = "any") \/ x.c \in {"list", "set", "map"})
FieldAgrees == (phase = "done" /\ kind = "field" /\ ~NullDeviation(shape, dc)) => Agree(shape, dc)
NullCoercion == (phase = "done" /\ kind = "field" /\ NullDeviation(shape, dc)) => Agree(shape, dc)
UnionAgrees == (phase = "done" /\ kind = "union") =>
                   UnionMech(members, Listed, Exhaustive) = UnionRef(members, Listed, Exhaustive)
(* C10 clauses *)
KnownNeverUnknown == (phase = "done" /\ kind = "union" /\ UnionMech(members, Listed, Exhaustive) = "unknown") =>
                         \A i \in 1..Len(members) : members[i].key = "type" => members[i].val \notin Listed
ExhaustiveRejectsUnlisted == (phase = "done" /\ kind = "union" /\ Exhaustive) => UnionMech(members, Listed, Exhaustive) # "unknown"

Emit == phase = "done" =>
    PrintT(<<"CASE", ToJson(
        IF kind = "field" THEN [kind |-> "field", shape |-> shape, dc |-> dc, ref |-> RefVerdict(shape, dc),
                                mech |-> MechVerdict(shape, dc), emits |-> RefEmits(shape, dc), memits |-> MechEmits(shape, dc),
                                members |-> <<>>, ename |-> ""]
        ELSE IF kind = "union" THEN [kind |-> "union", shape |-> NoShape, dc |-> "", ref |-> UnionRef(members, Listed, Exhaustive),
                                mech |-> UnionMech(members, Listed, Exhaustive), emits |-> TRUE, memits |-> TRUE,
                                members |-> members, ename |-> ""]
        ELSE [kind |-> "enum", shape |-> NoShape, dc |-> "", ref |-> EnumRef(ename, {"RED", "BLUE"}, Exhaustive, ename \in {"RED", "BLUE", "GREEN", "A_1"}),
              mech |-> EnumRef(ename, {"RED", "BLUE"}, Exhaustive, ename \in {"RED", "BLUE", "GREEN", "A_1"}), emits |-> TRUE, memits |-> TRUE,
              members |-> <<>>, ename |-> ename])>>)
=============================================================================
