SPECIFICATION Spec
INVARIANTS Law FixedSpellings Emit
CHECK_DEADLOCK FALSE
