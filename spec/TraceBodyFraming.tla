--------------------------- MODULE TraceBodyFraming ---------------------------
(* I->S for C06 / C18.  One line per recorded execution of the real deserializer / decode helper:        *)
(*  {"ev":"server","kind","ct","cls","limit","h":[chunk byte lengths, -1 = stream error],                *)
(*   "verdict","why","events":[[step, buffered]..]}                                                       *)
(*  {"ev":"client","ret","status","ct","cls","h":[..],"verdict","events":[..]}                            *)
(* Prop verdict: observed verdict is allowed by ServerProp / ClientProp (and a "stream" error only when    *)
(* the stream raised one).  Mech verdict: observed verdict, reason and the hook's step log equal the model. *)
EXTENDS BodyFraming, Json, IOUtils

Rec == ndJsonDeserialize(IOEnv.TRACE)
VARIABLES l
TInit == l = 1

TServer == /\ l <= Len(Rec) /\ Rec[l].ev = "server" /\ l' = l + 1
           /\ LET r == Rec[l]
                  m == ServerMech(r.kind, r.ct, r.h, r.limit, r.cls)
                  p == r.verdict \in ServerProp(r.kind, r.ct, r.h, r.limit, r.cls) /\ ServerWhyOk(r.h, r.why)
                  mm == m.verdict = r.verdict /\ m.ev = r.events /\ (r.verdict = "reject" => (m.why = "stream") = (r.why = "stream"))
              IN /\ (~p => PrintT(<<"PROPFAIL", ToJson([line |-> l])>>))
                 /\ ((p /\ ~mm) => PrintT(<<"MECHFAIL", ToJson([line |-> l, model |-> [v |-> m.verdict, why |-> m.why, ev |-> m.ev]])>>))

TClient == /\ l <= Len(Rec) /\ Rec[l].ev = "client" /\ l' = l + 1
           /\ LET r == Rec[l]
                  m == ClientMech(r.ret, r.status, r.ct, r.h, r.cls)
                  p == r.verdict \in ClientProp(r.ret, r.status, r.ct, r.h, r.cls)
                  mm == m.verdict = r.verdict /\ m.ev = r.events
              IN /\ (~p => PrintT(<<"PROPFAIL", ToJson([line |-> l])>>))
                 /\ ((p /\ ~mm) => PrintT(<<"MECHFAIL", ToJson([line |-> l, model |-> [v |-> m.verdict, ev |-> m.ev]])>>))

TSpec == TInit /\ [][TServer \/ TClient]_l

TraceAccepted ==
    LET d == TLCGet("stats").diameter IN
    IF d - 1 = Len(Rec) THEN TRUE ELSE Print(<<"UNMATCHED", ToJson([line |-> d])>>, FALSE)
=============================================================================
