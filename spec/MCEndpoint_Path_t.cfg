SPECIFICATION Spec
CONSTANTS
  Args <- ArgsPath
  MaxFaults = 3
  EndpointName = "Path"
INVARIANTS Props Emit
CHECK_DEADLOCK FALSE
