--------------------------- MODULE Tokens ---------------------------
(***************************************************************************)
(* C16 - Bearer tokens and resource identifiers are validated exactly on   *)
(* every entry path.                                                       *)
(*                                                                         *)
(* Prop: the grammars of the Conjure specification, stated declaratively   *)
(*   token  one or more of A-Z a-z 0-9 - . _ ~ + / followed by any number  *)
(*          of '=' signs, anchored at both ends                            *)
(*   rid    ri.<service>.<instance>.<type>.<locator>                       *)
(*          service, type  a lower-case letter, then lower/digit/'-'       *)
(*          instance       empty, or lower/digit then lower/digit/'-'      *)
(*          locator        one or more of a-z A-Z 0-9 _ . -                *)
(* Mech: bearer_token/mod.rs (strip trailing '=', non-empty, table lookup) *)
(*       resource_identifier/mod.rs (anchored regex = the DFA below, with  *)
(*       the capture ends it stores; from_components pre-rejects '.' in    *)
(*       service/instance/type, then formats and parses).                  *)
(* Text is a sequence of bytes.                                            *)
(***************************************************************************)
EXTENDS Integers, Sequences, FiniteSets, SequencesExt, TLC

Lower(c) == c >= 97 /\ c <= 122
Upper(c) == c >= 65 /\ c <= 90
Digit(c) == c >= 48 /\ c <= 57
DOT == 46  DASH == 45  USCORE == 95  EQS == 61

---------------------------------------------------------------------------
(* bearer token *)
TokenChar(c) == Lower(c) \/ Upper(c) \/ Digit(c) \/ c \in {45, 46, 95, 126, 43, 47}
TokenOk(s) == \E k \in 1..Len(s) : (\A i \in 1..k : TokenChar(s[i])) /\ (\A i \in (k + 1)..Len(s) : s[i] = EQS)

RECURSIVE TrimEq(_)
TrimEq(s) == IF s # <<>> /\ s[Len(s)] = EQS THEN TrimEq(SubSeq(s, 1, Len(s) - 1)) ELSE s
(* VALID_CHARS: the table has a non-zero entry exactly for these bytes *)
TableHit(c) == c \in ({43, 45, 46, 47, 95, 126} \cup (48..57) \cup (65..90) \cup (97..122))
TokenMech(s) == LET t == TrimEq(s) IN t # <<>> /\ \A i \in 1..Len(t) : TableHit(t[i])

---------------------------------------------------------------------------
(* resource identifier: declarative *)
DotIdx(s) == SelectSeq([i \in 1..Len(s) |-> i], LAMBDA i : s[i] = DOT)
NameOk(x) == x # <<>> /\ Lower(x[1]) /\ \A i \in 1..Len(x) : Lower(x[i]) \/ Digit(x[i]) \/ x[i] = DASH
InstanceOk(x) == x = <<>> \/ ((Lower(x[1]) \/ Digit(x[1])) /\ \A i \in 1..Len(x) : Lower(x[i]) \/ Digit(x[i]) \/ x[i] = DASH)
LocatorOk(x) == x # <<>> /\ \A i \in 1..Len(x) : Lower(x[i]) \/ Upper(x[i]) \/ Digit(x[i]) \/ x[i] \in {USCORE, DOT, DASH}

Parts(s) == LET d == DotIdx(s) IN
            [cls |-> SubSeq(s, 1, d[1] - 1), service |-> SubSeq(s, d[1] + 1, d[2] - 1),
             instance |-> SubSeq(s, d[2] + 1, d[3] - 1), type |-> SubSeq(s, d[3] + 1, d[4] - 1),
             locator |-> SubSeq(s, d[4] + 1, Len(s))]
RidOk(s) == /\ Len(DotIdx(s)) >= 4
            /\ LET p == Parts(s) IN
               p.cls = <<114, 105>> /\ NameOk(p.service) /\ InstanceOk(p.instance) /\ NameOk(p.type) /\ LocatorOk(p.locator)

Join(sv, i, t, l) == <<114, 105, DOT>> \o sv \o <<DOT>> \o i \o <<DOT>> \o t \o <<DOT>> \o l
ComponentsOk(sv, i, t, l) == NameOk(sv) /\ InstanceOk(i) /\ NameOk(t) /\ LocatorOk(l)

(* resource identifier: the regex as a DFA; st = [q, svcEnd, instEnd, typeEnd] ; q = "dead" absorbs *)
Step(st, c, pos) ==
    LET q == st.q IN
    CASE q = "s0"    -> [st EXCEPT !.q = IF c = 114 THEN "s1" ELSE "dead"]
      [] q = "s1"    -> [st EXCEPT !.q = IF c = 105 THEN "s2" ELSE "dead"]
      [] q = "s2"    -> [st EXCEPT !.q = IF c = DOT THEN "svc0" ELSE "dead"]
      [] q = "svc0"  -> [st EXCEPT !.q = IF Lower(c) THEN "svc" ELSE "dead"]
      [] q = "svc"   -> IF Lower(c) \/ Digit(c) \/ c = DASH THEN st
                        ELSE IF c = DOT THEN [st EXCEPT !.q = "inst0", !.svcEnd = pos - 1] ELSE [st EXCEPT !.q = "dead"]
      [] q = "inst0" -> IF Lower(c) \/ Digit(c) THEN [st EXCEPT !.q = "inst"]
                        ELSE IF c = DOT THEN [st EXCEPT !.q = "typ0", !.instEnd = pos - 1] ELSE [st EXCEPT !.q = "dead"]
      [] q = "inst"  -> IF Lower(c) \/ Digit(c) \/ c = DASH THEN st
                        ELSE IF c = DOT THEN [st EXCEPT !.q = "typ0", !.instEnd = pos - 1] ELSE [st EXCEPT !.q = "dead"]
      [] q = "typ0"  -> [st EXCEPT !.q = IF Lower(c) THEN "typ" ELSE "dead"]
      [] q = "typ"   -> IF Lower(c) \/ Digit(c) \/ c = DASH THEN st
                        ELSE IF c = DOT THEN [st EXCEPT !.q = "loc0", !.typeEnd = pos - 1] ELSE [st EXCEPT !.q = "dead"]
      [] q \in {"loc0", "loc"} -> IF Lower(c) \/ Upper(c) \/ Digit(c) \/ c \in {USCORE, DOT, DASH}
                                  THEN [st EXCEPT !.q = "loc"] ELSE [st EXCEPT !.q = "dead"]
      [] OTHER -> st

RECURSIVE Run(_, _, _)
Run(st, s, i) == IF i > Len(s) THEN st ELSE Run(Step(st, s[i], i), s, i + 1)
Dfa(s) == Run([q |-> "s0", svcEnd |-> 0, instEnd |-> 0, typeEnd |-> 0], s, 1)
RidMech(s) == Dfa(s).q = "loc"
(* accessors computed from the stored capture ends (byte offsets, end exclusive in Rust = inclusive here) *)
MechParts(s) == LET d == Dfa(s) IN
                [service |-> SubSeq(s, 4, d.svcEnd), instance |-> SubSeq(s, d.svcEnd + 2, d.instEnd),
                 type |-> SubSeq(s, d.instEnd + 2, d.typeEnd), locator |-> SubSeq(s, d.typeEnd + 2, Len(s))]

HasDot(x) == \E i \in 1..Len(x) : x[i] = DOT
FromComponentsMech(sv, i, t, l) == ~(HasDot(sv) \/ HasDot(i) \/ HasDot(t)) /\ RidMech(Join(sv, i, t, l))
=============================================================================
