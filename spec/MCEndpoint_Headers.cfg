SPECIFICATION Spec
CONSTANTS
  Args <- ArgsHeaders
  MaxFaults = 2
  EndpointName = "Headers"
INVARIANTS Props Emit
CHECK_DEADLOCK FALSE
