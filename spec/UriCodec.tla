--------------------------- MODULE UriCodec ---------------------------
(***************************************************************************)
(* C07 - Parameter values cannot alter the request URI structure and       *)
(* decode back exactly.                                                    *)
(*                                                                         *)
(* Mech : conjure-http/src/private/client/uri_builder.rs (UriBuilder: buf, *)
(*        in_path, the COMPONENT escape set, upper-case %XX), http::Uri's  *)
(*        split of path / query / fragment and its 65534 byte limit, and   *)
(*        the server side of conjure-http/src/private/server.rs            *)
(*        (path_param: split on '/', percent-decode; parse_query_params:   *)
(*        form_urlencoded: split on '&', first '=', '+' -> space,          *)
(*        percent-decode).                                                 *)
(* Prop : S1 syntactic validity (RFC 3986 path-abempty [ "?" query ]),     *)
(*        S2 structure (segments, pairs, order, keys, no fragment),        *)
(*        S3 decode(encode(v)) = v, S4 build never panics.                 *)
(*                                                                         *)
(* Text is a sequence of bytes 0..255.  An op is                           *)
(*   [k |-> "lit",   key |-> bytes ("/seg/seg"), vals |-> <<>>]            *)
(*   [k |-> "path",  key |-> <<>>,  vals |-> <<v>>]                        *)
(*   [k |-> "q1" | "qopt" | "qlist" | "qset", key |-> bytes, vals |-> <<v1..vn>>] *)
(***************************************************************************)
EXTENDS Integers, Sequences, FiniteSets, SequencesExt, TLC

CONSTANT MaxUriLen   \* http::Uri rejects longer inputs (65534 in the real crate; scaled down in small models)

SLASH == 47  QMARK == 63  HASH == 35  AMP == 38  EQ == 61  PCT == 37  PLUS == 43  SPACE == 32

(* percent_encoding: CONTROLS = C0 controls and DEL; non-ASCII is always encoded *)
COMPONENT == (0..31) \cup {127}
             \cup {32, 34, 35, 60, 62}                          \* QUERY:    space " # < >
             \cup {63, 96, 123, 125}                            \* PATH:     ? ` { }
             \cup {47, 58, 59, 61, 64, 91, 92, 93, 94, 124}     \* USERINFO: / : ; = @ [ \ ] ^ |
             \cup {36, 37, 38, 43, 44}                          \* COMPONENT: $ % & + ,

HexDigit(n) == IF n < 10 THEN 48 + n ELSE 55 + n      \* upper case
EscapeByte(b) == IF b \in COMPONENT \/ b >= 128 THEN <<PCT, HexDigit(b \div 16), HexDigit(b % 16)>> ELSE <<b>>
Escape(v) == FlattenSeq([i \in 1..Len(v) |-> EscapeByte(v[i])])

---------------------------------------------------------------------------
(* Mech: client.  st = [buf, inPath] *)
B0 == [buf |-> <<>>, inPath |-> TRUE]

PushLiteral(st, lit) == [st EXCEPT !.buf = @ \o lit]
PushPath(st, v) == [st EXCEPT !.buf = @ \o <<SLASH>> \o Escape(v)]
PushQuery(st, key, v) ==
    [buf |-> st.buf \o (IF st.inPath THEN <<QMARK>> ELSE <<AMP>>) \o key \o <<EQ>> \o Escape(v),
     inPath |-> FALSE]

RECURSIVE PushQueryAll(_, _, _, _)
PushQueryAll(st, key, vals, i) ==
    IF i > Len(vals) THEN st ELSE PushQueryAll(PushQuery(st, key, vals[i]), key, vals, i + 1)

ApplyOp(st, op) ==
    CASE op.k = "lit"  -> PushLiteral(st, op.key)
      [] op.k = "path" -> PushPath(st, op.vals[1])
      [] OTHER         -> PushQueryAll(st, op.key, op.vals, 1)

RECURSIVE ApplyOps(_, _, _)
ApplyOps(st, ops, i) == IF i > Len(ops) THEN st ELSE ApplyOps(ApplyOp(st, ops[i]), ops, i + 1)

(* http::Uri::from_maybe_shared(..).unwrap(): characters the http crate rejects, and the length limit *)
UriByteOk(b) == b = 33 \/ (b >= 36 /\ b <= 59) \/ b = 61 \/ (b >= 63 /\ b <= 91) \/ b = 93 \/ b = 95
                \/ (b >= 97 /\ b <= 122) \/ b = 126 \/ b = QMARK \/ b = HASH
                \/ b = 34 \/ b = 123 \/ b = 125 \/ b = 124 \/ b = 92 \/ b = 94 \/ b = 96   \* tolerated by http
BuildPanics(buf) == Len(buf) > MaxUriLen \/ buf = <<>> \/ \E i \in 1..Len(buf) : ~UriByteOk(buf[i])

IndexOf(s, b) == IF \E i \in 1..Len(s) : s[i] = b THEN CHOOSE i \in 1..Len(s) : s[i] = b /\ \A j \in 1..(i - 1) : s[j] # b
                 ELSE 0
(* http::Uri: the fragment is dropped, the path ends at the first '?' *)
NoFragment(buf) == LET h == IndexOf(buf, HASH) IN IF h = 0 THEN buf ELSE SubSeq(buf, 1, h - 1)
UriPath(buf) == LET u == NoFragment(buf) q == IndexOf(u, QMARK) IN IF q = 0 THEN u ELSE SubSeq(u, 1, q - 1)
UriQuery(buf) == LET u == NoFragment(buf) q == IndexOf(u, QMARK) IN IF q = 0 THEN <<>> ELSE SubSeq(u, q + 1, Len(u))
HasQuery(buf) == IndexOf(NoFragment(buf), QMARK) # 0

---------------------------------------------------------------------------
(* Mech: server *)
RECURSIVE SplitOn(_, _)
SplitOn(s, b) == LET i == IndexOf(s, b) IN
                 IF i = 0 THEN <<s>> ELSE <<SubSeq(s, 1, i - 1)>> \o SplitOn(SubSeq(s, i + 1, Len(s)), b)

IsHex(c) == (c >= 48 /\ c <= 57) \/ (c >= 65 /\ c <= 70) \/ (c >= 97 /\ c <= 102)
HexVal(c) == IF c <= 57 THEN c - 48 ELSE IF c <= 70 THEN c - 55 ELSE c - 87
RECURSIVE PctDecode(_)
PctDecode(s) ==
    IF s = <<>> THEN <<>>
    ELSE IF s[1] = PCT /\ Len(s) >= 3 /\ IsHex(s[2]) /\ IsHex(s[3])
         THEN <<HexVal(s[2]) * 16 + HexVal(s[3])>> \o PctDecode(SubSeq(s, 4, Len(s)))
         ELSE <<s[1]>> \o PctDecode(Tail(s))

PlusToSpace(s) == [i \in 1..Len(s) |-> IF s[i] = PLUS THEN SPACE ELSE s[i]]

(* form_urlencoded::parse: empty pieces are skipped *)
FormPair(piece) == LET e == IndexOf(piece, EQ) IN
                   IF e = 0 THEN <<PctDecode(PlusToSpace(piece)), <<>>>>
                   ELSE <<PctDecode(PlusToSpace(SubSeq(piece, 1, e - 1))),
                          PctDecode(PlusToSpace(SubSeq(piece, e + 1, Len(piece))))>>
FormParse(q) == LET pieces == SelectSeq(SplitOn(q, AMP), LAMBDA p : p # <<>>) IN
                [i \in 1..Len(pieces) |-> FormPair(pieces[i])]

(* segments of the path after the leading '/' *)
PathSegments(path) == IF path = <<>> THEN <<>> ELSE Tail(SplitOn(path, SLASH))

---------------------------------------------------------------------------
(* Prop *)
LitSegments(lit) == Tail(SplitOn(lit, SLASH))          \* "/a/b" -> <<"a","b">>

(* what the template prescribes: the sequence of expected segments, each a literal or a parameter value *)
RECURSIVE ExpectedSegs(_, _)
ExpectedSegs(ops, i) ==
    IF i > Len(ops) THEN <<>>
    ELSE (CASE ops[i].k = "lit" -> [j \in 1..Len(LitSegments(ops[i].key)) |-> [lit |-> TRUE, v |-> LitSegments(ops[i].key)[j]]]
            [] ops[i].k = "path" -> <<[lit |-> FALSE, v |-> ops[i].vals[1]]>>
            [] OTHER -> <<>>) \o ExpectedSegs(ops, i + 1)

RECURSIVE ExpectedPairs(_, _)
ExpectedPairs(ops, i) ==
    IF i > Len(ops) THEN <<>>
    ELSE (IF ops[i].k \in {"lit", "path"} THEN <<>>
          ELSE [j \in 1..Len(ops[i].vals) |-> <<ops[i].key, ops[i].vals[j]>>]) \o ExpectedPairs(ops, i + 1)

Unreserved(b) == (b >= 65 /\ b <= 90) \/ (b >= 97 /\ b <= 122) \/ (b >= 48 /\ b <= 57) \/ b \in {45, 46, 95, 126}
SubDelim(b) == b \in {33, 36, 38, 39, 40, 41, 42, 43, 44, 59, 61}
PChar(b) == Unreserved(b) \/ SubDelim(b) \/ b \in {58, 64, PCT}
PctOk(s) == \A i \in 1..Len(s) : s[i] = PCT => (i + 2 <= Len(s) /\ IsHex(s[i + 1]) /\ IsHex(s[i + 2]))

(* S1 *)
SyntaxOk(buf) == /\ buf # <<>> /\ buf[1] = SLASH
                 /\ \A i \in 1..Len(UriPath(buf)) : PChar(UriPath(buf)[i]) \/ UriPath(buf)[i] = SLASH
                 /\ \A i \in 1..Len(UriQuery(buf)) : PChar(UriQuery(buf)[i]) \/ UriQuery(buf)[i] \in {SLASH, QMARK}
                 /\ PctOk(buf)
                 /\ IndexOf(buf, HASH) = 0
(* S2 + S3 evaluated on what the server decodes *)
StructureOk(ops, buf) ==
    LET segs == PathSegments(UriPath(buf))
        exp == ExpectedSegs(ops, 1)
        pairs == FormParse(UriQuery(buf))
        epairs == ExpectedPairs(ops, 1)
    IN /\ Len(segs) = Len(exp)
       /\ \A i \in 1..Len(exp) : PctDecode(segs[i]) = exp[i].v
       /\ Len(pairs) = Len(epairs)
       /\ \A i \in 1..Len(epairs) : pairs[i] = epairs[i]
       /\ (epairs = <<>> <=> ~HasQuery(buf))
=============================================================================
