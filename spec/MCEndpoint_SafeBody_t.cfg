SPECIFICATION Spec
CONSTANTS
  Args <- ArgsSafeBody
  MaxFaults = 3
  EndpointName = "SafeBody"
INVARIANTS Props Emit
CHECK_DEADLOCK FALSE
