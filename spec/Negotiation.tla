--------------------------- MODULE Negotiation ---------------------------
(***************************************************************************)
(* C11 - Response encoding honours Accept; request decoding honours        *)
(* Content-Type.                                                           *)
(*                                                                         *)
(* Prop : declarative reading of the property text (permitted / complete / *)
(*        optimal / tie-break), with an explicit Unspec verdict where the  *)
(*        text is silent (several equally specific ranges with different   *)
(*        qualities govern one encoding; an Accept header with no          *)
(*        parsable entry).                                                 *)
(* Mech : conjure-http/src/server/runtime.rs response_body_encoding /      *)
(*        request_body_encoding transcribed step by step: collect with     *)
(*        index, default */*, sort (specificity desc, quality desc, index  *)
(*        asc), per encoding in reverse registration order the first       *)
(*        accepting range, drop q=0, Iterator::max_by (last maximum wins). *)
(*                                                                         *)
(* Media types are pairs of small integers; 0 is the wildcard "*".         *)
(* A range is [ty, sub, np, q]: np = number of parameters other than q,    *)
(* q in 0..1000.  An encoding is [ty, sub] with ty, sub > 0.               *)
(***************************************************************************)
EXTENDS Integers, Sequences, FiniteSets, SequencesExt, TLC

Star == 0

Matches(r, e) == \/ (r.ty = Star /\ r.sub = Star)
                 \/ (r.ty = e.ty /\ r.sub = Star)
                 \/ (r.ty = e.ty /\ r.sub = e.sub)

(* (ty != *, subty != *, #params) compared lexicographically; np <= 9 *)
Specificity(r) == (IF r.ty # Star THEN 100 ELSE 0) + (IF r.sub # Star THEN 10 ELSE 0) + r.np

---------------------------------------------------------------------------
(* Prop layer *)

MatchIdx(ranges, e) == {i \in 1..Len(ranges) : Matches(ranges[i], e)}
MaxSpec(ranges, e) == LET M == MatchIdx(ranges, e) IN
                      CHOOSE s \in {Specificity(ranges[i]) : i \in M} :
                          \A i \in M : Specificity(ranges[i]) <= s
(* indices of the most specific ranges matching e *)
Governing(ranges, e) == {i \in MatchIdx(ranges, e) : Specificity(ranges[i]) = MaxSpec(ranges, e)}

(* the property text does not say which of several equally specific ranges governs *)
Ambiguous(ranges, encs) ==
    \E k \in 1..Len(encs) : MatchIdx(ranges, encs[k]) # {} /\
        \E i, j \in Governing(ranges, encs[k]) : ranges[i].q # ranges[j].q

Permitted(ranges, e) == MatchIdx(ranges, e) # {} /\ \A i \in Governing(ranges, e) : ranges[i].q > 0
QualityOf(ranges, e) == ranges[CHOOSE i \in Governing(ranges, e) : TRUE].q
FirstIdx(ranges, e) == CHOOSE i \in Governing(ranges, e) : \A j \in Governing(ranges, e) : i <= j

(* k beats m: higher quality, then governing range listed first, then registered first *)
Beats(ranges, encs, k, m) ==
    LET qk == QualityOf(ranges, encs[k]) qm == QualityOf(ranges, encs[m])
        ik == FirstIdx(ranges, encs[k]) im == FirstIdx(ranges, encs[m])
    IN qk > qm \/ (qk = qm /\ (ik < im \/ (ik = im /\ k < m)))

(* 0 = not acceptable; otherwise the index of the one encoding the property designates *)
PropChoice(ranges0, encs) ==
    LET ranges == IF ranges0 = <<>> THEN <<[ty |-> Star, sub |-> Star, np |-> 0, q |-> 1000]>> ELSE ranges0
        P == {k \in 1..Len(encs) : Permitted(ranges, encs[k])}
    IN IF P = {} THEN 0
       ELSE CHOOSE k \in P : \A m \in P \ {k} : Beats(ranges, encs, k, m)

(* Content-Type: ct = [ty, sub, np]; registered encodings with the same essence *)
PropRequest(ct, encs) == {k \in 1..Len(encs) : ct.ty # Star /\ ct.sub # Star /\
                                               encs[k].ty = ct.ty /\ encs[k].sub = ct.sub}

---------------------------------------------------------------------------
(* Mech layer *)

Indexed(ranges) == [i \in 1..Len(ranges) |-> [r |-> ranges[i], q |-> ranges[i].q, idx |-> i - 1]]

SortLess(a, b) ==
    LET sa == Specificity(a.r) sb == Specificity(b.r) IN
    sa > sb \/ (sa = sb /\ (a.q > b.q \/ (a.q = b.q /\ a.idx < b.idx)))

RECURSIVE FirstAccepting(_, _, _)
FirstAccepting(sorted, e, i) ==
    IF i > Len(sorted) THEN [found |-> FALSE, q |-> 0, idx |-> 0]
    ELSE IF Matches(sorted[i].r, e) THEN [found |-> TRUE, q |-> sorted[i].q, idx |-> sorted[i].idx]
    ELSE FirstAccepting(sorted, e, i + 1)

(* Iterator::max_by over the candidates in iteration order: a later element replaces the current *)
(* best unless it compares strictly less.  cmp = quality, then index reversed.                   *)
CandLess(a, b) == a.q < b.q \/ (a.q = b.q /\ a.idx > b.idx)

RECURSIVE MaxBy(_, _, _)
MaxBy(cands, i, best) ==
    IF i > Len(cands) THEN best
    ELSE IF best.k = 0 \/ ~CandLess(cands[i], best) THEN MaxBy(cands, i + 1, cands[i])
    ELSE MaxBy(cands, i + 1, best)

MechChoice(ranges0, encs) ==
    LET types == IF ranges0 = <<>>
                 THEN <<[r |-> [ty |-> Star, sub |-> Star, np |-> 0, q |-> 1000], q |-> 1000, idx |-> 0]>>
                 ELSE Indexed(ranges0)
        sorted == SortSeq(types, SortLess)
        n == Len(encs)
        \* .rev(): position p of the iteration is encoding n + 1 - p
        perEnc == [p \in 1..n |-> LET k == n + 1 - p
                                      f == FirstAccepting(sorted, encs[k], 1)
                                  IN [k |-> k, ok |-> f.found /\ f.q # 0, q |-> f.q, idx |-> f.idx]]
        cands == SelectSeq(perEnc, LAMBDA c : c.ok)
    IN MaxBy(cands, 1, [k |-> 0, ok |-> FALSE, q |-> 0, idx |-> 0]).k

RECURSIVE FindFirst(_, _, _)
FindFirst(ct, encs, k) ==
    IF k > Len(encs) THEN 0
    ELSE IF ct.ty # Star /\ ct.sub # Star /\ encs[k].ty = ct.ty /\ encs[k].sub = ct.sub THEN k
    ELSE FindFirst(ct, encs, k + 1)
MechRequest(ct, encs) == FindFirst(ct, encs, 1)

(* mime_quality: the q parameter as a string of digit codes, e.g. <<0, ".", 5>> is not modelled as text; *)
(* the digit-level parse is checked separately in QValue below.                                          *)
---------------------------------------------------------------------------
(* mime_quality_inner on the grammar  d [ "." d{0,3} ]  (digits as integers, dot implicit)      *)
(* lead \in {0,1}, frac = sequence of 0..3 digits.  Returns 0..1999; the property only          *)
(* quantifies over values <= 1000, i.e. lead = 1 => all fraction digits are 0.                  *)
QValueMech(lead, frac) ==
    LET w(i) == IF i = 1 THEN 100 ELSE IF i = 2 THEN 10 ELSE 1
        RECURSIVE Sum(_)
        Sum(i) == IF i > Len(frac) THEN 0 ELSE frac[i] * w(i) + Sum(i + 1)
    IN (IF lead = 1 THEN 1000 ELSE 0) + Sum(1)
(* the real number lead.frac scaled by 1000 *)
QValueProp(lead, frac) ==
    lead * 1000 + (IF Len(frac) >= 1 THEN frac[1] * 100 ELSE 0) + (IF Len(frac) >= 2 THEN frac[2] * 10 ELSE 0)
                + (IF Len(frac) >= 3 THEN frac[3] ELSE 0)
=============================================================================
