--------------------------- MODULE MCAnyValue ---------------------------
(* Bounded enumeration of static values for C13: leaves, then up to MaxDepth wrapping steps. *)
EXTENDS AnyValue, Json, IOUtils
CONSTANTS MaxDepth, EmitMod,
          ReducedLeaves   \* TRUE: a representative subset of the leaves (deeper configs)
VARIABLES v, depth, phase
vars == <<v, depth, phase>>
EmitRes == IF "EMITRES" \in DOMAIN IOEnv THEN atoi(IOEnv.EMITRES) % EmitMod ELSE 0

IntSyms == {"min", "zero", "max"}
AllLeaves == {V(k, s, <<>>) : k \in IntKinds, s \in IntSyms}
          \cup {V(k, s, <<>>) : k \in FloatKinds, s \in {"nan", "inf", "ninf", "1.5"}}
          \cup {V("bool", s, <<>>) : s \in {"true", "false"}}
          \cup {V("char", "c", <<>>), V("unit", "", <<>>), V("uuid", "uuid-text", <<>>)}
          \cup {V("str", s, <<>>) : s \in {"plain", "NaN", "b64:b3", "zero", "true"}}
          \cup {V("bytes", s, <<>>) : s \in {"empty", "b3"}}
Leaves == IF ReducedLeaves
          THEN {l \in AllLeaves : (l.k \in IntKinds => (l.k \in {"i8", "i64", "i128", "u64", "u128"} /\ l.s # "zero"))
                                  /\ (l.k \in FloatKinds => l.s \in {"nan", "1.5"}) /\ (l.k = "str" => l.s \in {"NaN", "b64:b3"})}
          ELSE AllLeaves
Variants == {"A", "B"}
PlainKeys == {l \in Leaves : l.k \notin {"unit", "bytes"}}
(* key types of the Conjure data model that are not leaves: an alias of a key type (newtype struct) and an enum (unit variant) *)
KeyLeaves == PlainKeys \cup {V("newtype_struct", "", <<k>>) : k \in {l \in PlainKeys : l.s \in {"max", "nan", "true", "NaN", "uuid-text", "c"}}}
                       \cup {V("unit_variant", n, <<>>) : n \in Variants}
Small == {V("i32", "zero", <<>>), V("str", "NaN", <<>>), V("f64", "nan", <<>>)}

(* Option<()>, Option<Option<T>> ... cannot be told apart from None in any self-describing encoding (the value's *)
(* own encoding is null): excluded, as Conjure forbids them                                                      *)
Optionable(x) == ToAny(x).t # "Null" /\ x.k # "some"

Wraps(x) ==
    (IF Optionable(x) THEN {V("some", "", <<x>>)} ELSE {})
    \cup {V("seq", "", <<x>>), V("newtype_struct", "", <<x>>), V("struct", "", <<x>>)}
    \cup {V("newtype_variant", n, <<x>>) : n \in Variants}
    \cup {V("tuple_variant", "A", <<x, s>>) : s \in Small}
    \cup {V("struct_variant", "B", <<s, x>>) : s \in Small}
    \cup {V("seq", "", <<x, s>>) : s \in Small} \cup {V("tuple", "", <<s, x>>) : s \in Small}
    \cup {V("struct", "", <<x, s>>) : s \in Small}
    \cup {V("map", "", <<k, x>>) : k \in KeyLeaves}
    \cup {V("map", "", <<V("str", "ka", <<>>), x, V("str", "kb", <<>>), s>>) : s \in Small}
Nullary == {V("none", k, <<>>) : k \in {"i32", "str", "f64", "bytes"}}
           \cup {V("unit_struct", "", <<>>), V("seq", "", <<>>), V("map", "", <<>>), V("struct", "", <<>>)}
           \cup {V("unit_variant", n, <<>>) : n \in Variants}

Init == v = V("unit", "", <<>>) /\ depth = -1 /\ phase = "build"
Leaf == phase = "build" /\ depth = -1 /\ (\E l \in Leaves \cup Nullary : v' = l) /\ depth' = 0 /\ UNCHANGED phase
Wrap == phase = "build" /\ depth >= 0 /\ depth < MaxDepth /\ (\E w \in Wraps(v) : v' = w) /\ depth' = depth + 1 /\ UNCHANGED phase
Stop == phase = "build" /\ depth >= 0 /\ phase' = "done" /\ UNCHANGED <<v, depth>>
Spec == Init /\ [][Leaf \/ Wrap \/ Stop]_vars

RoundTrip == phase = "done" => RoundTripOk(v)
SameJson == phase = "done" => SameJsonOk(v)

RECURSIVE Size(_)
Size(x) == 1 + (LET RECURSIVE S(_) S(i) == IF i > Len(x.kids) THEN 0 ELSE Size(x.kids[i]) + S(i + 1) IN S(1))
RECURSIVE Code(_)
Code(x) == (CASE x.k = "i8" -> 1 [] x.k = "u128" -> 2 [] x.k = "f64" -> 3 [] x.k = "str" -> 4 [] x.k = "some" -> 5 [] x.k = "seq" -> 6
              [] x.k = "map" -> 7 [] x.k = "struct" -> 8 [] x.k = "newtype_struct" -> 9 [] OTHER -> 10)
           + (CASE x.s = "min" -> 11 [] x.s = "max" -> 13 [] x.s = "nan" -> 17 [] x.s = "NaN" -> 19 [] OTHER -> 23)
           + 3 * (LET RECURSIVE S(_) S(i) == IF i > Len(x.kids) THEN 0 ELSE (i + 1) * Code(x.kids[i]) + S(i + 1) IN S(1))
Emit == (phase = "done" /\ (depth <= 1 \/ Code(v) % EmitMod = EmitRes)) =>
          PrintT(<<"CASE", ToJson([v |-> v, depth |-> depth, roundtrip |-> RoundTripOk(v), samejson |-> SameJsonOk(v)])>>)
=============================================================================
