--------------------------- MODULE MCEndpointAttr ---------------------------
(* every method x return class x credentials x name kind x path shape x deprecation *)
EXTENDS EndpointAttr, Json
VARIABLES def, phase
vars == <<def, phase>>

MCMethods == {"GET", "POST", "PUT", "DELETE"}
MCClasses == {"none", "string", "object", "optstring", "list", "map", "set", "binary", "optbinary", "aliasbinary", "aliasoptbinary", "aliaslist", "aliasstring"}
MCAuths == {"none", "header", "cookie"}
MCNameKinds == {"plain", "camel", "acronym"}
MCPathKinds == {"literal", "param", "params2", "regex"}

NoDef == [method |-> "", class |-> "", auth |-> "", name |-> "", path |-> "", deprecated |-> FALSE]
Init == def = NoDef /\ phase = "pick"
Pick == phase = "pick" /\ (\E d \in Defs : def' = d) /\ phase' = "done"
Spec == Init /\ [][Pick]_vars

ServerAgrees == phase = "done" => MechServer(def) = PropServer(def)
ProducesAgrees == phase = "done" => MechProduces(def.class) = PropProduces(def.class)
ClientAgrees == phase = "done" => MechClient(def) = PropClient(def)
(* the same method on both sides; deprecation only on the caller's side *)
(* the client's Endpoint extension names the endpoint and its template exactly as the server trait does *)
SidesConsistent == phase = "done" => /\ MechServer(def).method = MechClient(def).method /\ ~MechServer(def).deprecated
                                      /\ MechClient(def).ext.name = MechServer(def).name /\ MechClient(def).ext.path = MechServer(def).path
Emit == phase = "done" => PrintT(<<"CASE", ToJson([def |-> def, server |-> PropServer(def), client |-> PropClient(def), mech |-> MechProduces(def.class)])>>)
=============================================================================
