SPECIFICATION TSpec
CONSTANTS
  EndCheck = TRUE
POSTCONDITION TraceAccepted
CHECK_DEADLOCK FALSE
