SPECIFICATION Spec
CONSTANTS
  Args <- ArgsCtx
  MaxFaults = 3
  EndpointName = "Ctx"
INVARIANTS Props Emit
CHECK_DEADLOCK FALSE
