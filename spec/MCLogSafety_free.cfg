SPECIFICATION Spec
CONSTANTS
  N = 2
  Repaired = TRUE
  MaxObjFields = 1
  MaxUnionFields = 1
  MapExprs = FALSE
  ArgMode = "free"
  MaxArgs = 2
  EmitMod = 60
INVARIANTS Sound Complete MemoClean MemoSound Emit
CHECK_DEADLOCK FALSE
