SPECIFICATION Spec
CONSTANTS
  N = 2
  Repaired = TRUE
  MaxObjFields = 1
  MaxUnionFields = 1
  MapExprs = FALSE
  Kinds = {"enum","alias","object","union"}
  Bearer = TRUE
  Decls = {"safe","unsafe","dnl"}
  ArgMode = "free"
  MaxArgs = 2
  EmitMod = 60
INVARIANTS Sound Complete MemoClean MemoSound Emit
CHECK_DEADLOCK FALSE
