SPECIFICATION Spec
CONSTANTS
  StringIsCollection = TRUE
INVARIANTS ReturnEqualInv NoContentInv Emit
CHECK_DEADLOCK FALSE
