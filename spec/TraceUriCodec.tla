--------------------------- MODULE TraceUriCodec ---------------------------
(* I->S for C07: one line per recorded execution of the real UriBuilder:                         *)
(*   {"ev":"build","ops":[..byte arrays..],"uri":[..bytes of the URI the real code built..]}     *)
(* Mech: the model's ApplyOps must produce exactly the logged bytes.  Prop: S1-S3 evaluated on    *)
(* the logged bytes with the model's server-side decoding.                                        *)
EXTENDS UriCodec, Json, IOUtils

Rec == ndJsonDeserialize(IOEnv.TRACE)
VARIABLES l
TInit == l = 1

TBuild == /\ l <= Len(Rec) /\ Rec[l].ev = "build" /\ l' = l + 1
          /\ LET r == Rec[l]
                 p == SyntaxOk(r.uri) /\ StructureOk(r.ops, r.uri)
                 m == ApplyOps(B0, r.ops, 1).buf = r.uri
             IN /\ (~p => PrintT(<<"PROPFAIL", ToJson([line |-> l])>>))
                /\ ((p /\ ~m) => PrintT(<<"MECHFAIL", ToJson([line |-> l])>>))

TSpec == TInit /\ [][TBuild]_l

TraceAccepted ==
    LET d == TLCGet("stats").diameter IN
    IF d - 1 = Len(Rec) THEN TRUE ELSE Print(<<"UNMATCHED", ToJson([line |-> d])>>, FALSE)
=============================================================================
