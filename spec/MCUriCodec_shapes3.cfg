SPECIFICATION Spec
CONSTANTS
  Mode = "shapes"
  MaxUriLen = 65534
  MaxQ = 3
  EmitMod = 40
INVARIANTS NoPanic Syntax Structure Emit
CHECK_DEADLOCK FALSE
