SPECIFICATION Spec
CONSTANTS
  Args <- ArgsOptBody
  MaxFaults = 3
  EndpointName = "OptBody"
INVARIANTS Props Emit
CHECK_DEADLOCK FALSE
