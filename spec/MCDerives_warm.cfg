SPECIFICATION Spec
CONSTANTS
  N = 3
  MaxFields = 2
  EmitMod = 1000000
  WarmInSeedOrder = TRUE
  GenInSeedOrder = FALSE
INVARIANTS PlainIsValidInv EduceIfDirectInv NoSpuriousEduceInv Functional
CHECK_DEADLOCK FALSE
