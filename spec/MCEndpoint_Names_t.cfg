SPECIFICATION Spec
CONSTANTS
  Args <- ArgsNames
  MaxFaults = 3
  EndpointName = "Names"
INVARIANTS Props Emit
CHECK_DEADLOCK FALSE
