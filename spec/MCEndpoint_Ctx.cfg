SPECIFICATION Spec
CONSTANTS
  Args <- ArgsCtx
  MaxFaults = 2
  EndpointName = "Ctx"
INVARIANTS Props Emit
CHECK_DEADLOCK FALSE
