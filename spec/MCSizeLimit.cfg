SPECIFICATION Spec
CONSTANTS
  Digits <- MCDigits
  Blanks <- MCBlanks
  Units <- MCUnits
  KbIsBinary = FALSE
INVARIANTS ParseAgrees LimitAgrees Monotone Emit
CHECK_DEADLOCK FALSE
