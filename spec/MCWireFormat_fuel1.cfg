SPECIFICATION Spec
CONSTANTS
  AliasFuel = 1
  SerializeEmpty = FALSE
  Exhaustive = FALSE
INVARIANTS FieldAgrees UnionAgrees KnownNeverUnknown ExhaustiveRejectsUnlisted Emit
CHECK_DEADLOCK FALSE
