--------------------------- MODULE AnyValue ---------------------------
(***************************************************************************)
(* C13 - The dynamic `any` value is a lossless carrier of serializable     *)
(* data and of JSON.                                                       *)
(*                                                                         *)
(* Static values: [k |-> kind, s |-> symbol, kids |-> <<children>>].       *)
(*   leaves   k in IntKinds \cup {"bool","f32","f64","char","str","bytes", *)
(*            "unit","uuid"}, s names a value class                        *)
(*   "none" (s = leaf kind of the absent item), "some", "seq", "tuple",    *)
(*   "map" (kids = <<k1,v1,k2,v2..>>), "struct" (field i is named by       *)
(*   FieldName(i)), "newtype_struct", "unit_struct", and the four enum     *)
(*   forms with s = variant name.                                          *)
(* Any: [t |-> tag, s |-> symbol, kids |-> <<children>>], 19 tags as in    *)
(* conjure-object/src/any/mod.rs.                                          *)
(*                                                                         *)
(* Mech: ToAny = AnySerializer (any/ser.rs) method by method;              *)
(*       Yields(v, a) = "deserializing a into the static type of v gives   *)
(*       exactly v" following `impl Deserializer for Any` (any/de.rs):     *)
(*       deserialize_any dispatch, the f32/f64/bytes/option/enum           *)
(*       overrides, the explicit forward list, newtype handling and the    *)
(*       KeyDeserializer string parsing.                                   *)
(* Prop: RoundTrip == Yields(v, ToAny(v)); SameJson == the JSON of ToAny(v)*)
(*       equals the JSON of v (as JSON values).                            *)
(***************************************************************************)
EXTENDS Integers, Sequences, FiniteSets, TLC

CONSTANTS Forwarded,      \* hints `impl Deserializer for Any` forwards to deserialize_any
          NewtypeVisit    \* TRUE: deserialize_newtype_struct calls visit_newtype_struct

IntKinds == {"i8", "i16", "i32", "i64", "i128", "u8", "u16", "u32", "u64", "u128"}
FloatKinds == {"f32", "f64"}
LeafKinds == IntKinds \cup FloatKinds \cup {"bool", "char", "str", "bytes", "unit", "uuid"}

V(k, s, kids) == [k |-> k, s |-> s, kids |-> kids]
A(t, s, kids) == [t |-> t, s |-> s, kids |-> kids]

Upper(k) == CASE k = "i8" -> "I8" [] k = "i16" -> "I16" [] k = "i32" -> "I32" [] k = "i64" -> "I64" [] k = "i128" -> "I128"
              [] k = "u8" -> "U8" [] k = "u16" -> "U16" [] k = "u32" -> "U32" [] k = "u64" -> "U64" [] k = "u128" -> "U128"
              [] k = "f32" -> "F32" [] k = "f64" -> "F64" [] k = "bool" -> "Bool" [] OTHER -> "?"

FieldName(i) == IF i = 1 THEN "zb" ELSE IF i = 2 THEN "za" ELSE "zc"     \* declared order is not sorted order

---------------------------------------------------------------------------
(* AnySerializer *)
RECURSIVE ToAny(_)
ToAnySeq(kids) == [i \in 1..Len(kids) |-> ToAny(kids[i])]
ToAny(v) ==
    CASE v.k \in IntKinds \cup FloatKinds \cup {"bool"} -> A(Upper(v.k), v.s, <<>>)
      [] v.k = "char"  -> A("String", v.s, <<>>)                 \* serialize_char -> String
      [] v.k = "str"   -> A("String", v.s, <<>>)
      [] v.k = "uuid"  -> A("String", v.s, <<>>)                 \* human readable: hyphenated text
      [] v.k = "bytes" -> A("Bytes", v.s, <<>>)
      [] v.k \in {"unit", "none", "unit_struct"} -> A("Null", "", <<>>)
      [] v.k \in {"some", "newtype_struct"} -> ToAny(v.kids[1])  \* transparent
      [] v.k \in {"seq", "tuple"} -> A("Seq", "", ToAnySeq(v.kids))
      [] v.k = "map" -> A("Map", "", ToAnySeq(v.kids))
      [] v.k = "struct" -> A("Map", "", [i \in 1..(2 * Len(v.kids)) |->
                                IF i % 2 = 1 THEN A("String", FieldName((i + 1) \div 2), <<>>) ELSE ToAny(v.kids[i \div 2])])
      [] v.k = "unit_variant" -> A("String", v.s, <<>>)
      [] v.k = "newtype_variant" -> A("Map", "", <<A("String", v.s, <<>>), ToAny(v.kids[1])>>)
      [] v.k = "tuple_variant" -> A("Map", "", <<A("String", v.s, <<>>), A("Seq", "", ToAnySeq(v.kids))>>)
      [] v.k = "struct_variant" -> A("Map", "", <<A("String", v.s, <<>>),
                                      ToAny(V("struct", "", v.kids))>>)

---------------------------------------------------------------------------
(* impl Deserializer for Any, viewed from a static type: does deserializing `a` as the type of `v` yield `v`? *)
Hint(v) == CASE v.k \in {"none", "some"} -> "option"
             [] v.k \in {"unit_variant", "newtype_variant", "tuple_variant", "struct_variant"} -> "enum"
             [] v.k = "uuid" -> "str"
             [] OTHER -> v.k
Overridden == {"any", "f32", "f64", "bytes", "byte_buf", "option", "enum"} \cup (IF NewtypeVisit THEN {"newtype_struct"} ELSE {})
Supported(h) == h \in Overridden \/ h \in Forwarded

(* the three strings a double may be written as *)
FloatString(s) == s \in {"NaN", "Infinity", "-Infinity"}
FloatOfString(s) == CASE s = "NaN" -> "nan" [] s = "Infinity" -> "inf" [] OTHER -> "ninf"

RECURSIVE Yields(_, _), KeyYields(_, _)
AllYield(vs, as) == Len(vs) = Len(as) /\ \A i \in 1..Len(vs) : Yields(vs[i], as[i])

(* map entries are matched as sets: every expected entry is found, nothing else is present *)
EntriesYield(vkids, akids) ==
    /\ Len(vkids) = Len(akids)
    /\ \A i \in 1..(Len(vkids) \div 2) : \E j \in 1..(Len(akids) \div 2) :
           KeyYields(vkids[2 * i - 1], akids[2 * j - 1]) /\ Yields(vkids[2 * i], akids[2 * j])

(* struct from a Map with string keys: every declared field found by name *)
FieldsYield(vkids, akids) ==
    /\ Len(akids) = 2 * Len(vkids)
    /\ \A i \in 1..Len(vkids) : \E j \in 1..Len(vkids) :
           akids[2 * j - 1] = A("String", FieldName(i), <<>>) /\ Yields(vkids[i], akids[2 * j])

Yields(v, a) ==
    IF ~Supported(Hint(v)) THEN FALSE               \* serde's default method: "... is not supported"
    ELSE CASE v.k \in IntKinds \cup {"bool"} -> a.t = Upper(v.k) /\ a.s = v.s
           [] v.k \in FloatKinds ->
                 IF a.t = "String" /\ FloatString(a.s) THEN v.s = FloatOfString(a.s)
                 ELSE a.t = Upper(v.k) /\ a.s = v.s
           [] v.k \in {"char", "str", "uuid"} -> a.t = "String" /\ a.s = v.s
           [] v.k = "bytes" -> (a.t = "Bytes" /\ a.s = v.s) \/ (a.t = "String" /\ a.s = "b64:" \o v.s)
           [] v.k \in {"unit", "unit_struct"} -> a.t = "Null"
           [] v.k = "none" -> a.t = "Null"
           [] v.k = "some" -> a.t # "Null" /\ Yields(v.kids[1], a)
           [] v.k = "newtype_struct" ->
                 (* without visit_newtype_struct the derived visitor receives visit_<stored variant> and fails, *)
                 (* unless the stored form is a one-element sequence                                           *)
                 IF NewtypeVisit THEN Yields(v.kids[1], a) ELSE FALSE
           [] v.k \in {"seq", "tuple"} -> a.t = "Seq" /\ AllYield(v.kids, a.kids)
           [] v.k = "map" -> a.t = "Map" /\ EntriesYield(v.kids, a.kids)
           [] v.k = "struct" -> a.t = "Map" /\ FieldsYield(v.kids, a.kids)
           [] v.k = "unit_variant" -> a.t = "String" /\ a.s = v.s
           [] v.k = "newtype_variant" -> a.t = "Map" /\ Len(a.kids) = 2 /\ a.kids[1] = A("String", v.s, <<>>)
                                         /\ Yields(v.kids[1], a.kids[2])
           [] v.k = "tuple_variant" -> a.t = "Map" /\ Len(a.kids) = 2 /\ a.kids[1] = A("String", v.s, <<>>)
                                       /\ a.kids[2].t = "Seq" /\ AllYield(v.kids, a.kids[2].kids)
           [] v.k = "struct_variant" -> a.t = "Map" /\ Len(a.kids) = 2 /\ a.kids[1] = A("String", v.s, <<>>)
                                        /\ a.kids[2].t = "Map" /\ FieldsYield(v.kids, a.kids[2].kids)

(* KeyDeserializer: a String key is parsed for bool / integers / floats, everything else is delegated *)
KeyYields(v, a) ==
    IF v.k = "newtype_struct" /\ NewtypeVisit THEN KeyYields(v.kids[1], a)     \* an alias as key type: visit_newtype_struct(self), still a key
    ELSE IF a.t = "String" /\ v.k \in IntKinds \cup FloatKinds \cup {"bool"}
    THEN a.s = "text:" \o v.s \/ (v.k \in FloatKinds /\ FloatString(a.s) /\ v.s = FloatOfString(a.s))
    ELSE Yields(v, a)

---------------------------------------------------------------------------
(* JSON (as a value, member order insignificant) written by the Conjure JSON serializer.               *)
(* J(tag, sym, kids): "num" / "str" / "null" / "bool" / "arr" / "obj" (kids = <<k1,v1,..>>, keys are strings) *)
J(t, s, kids) == [j |-> t, s |-> s, kids |-> kids]
FloatText(s) == CASE s = "nan" -> "NaN" [] s = "inf" -> "Infinity" [] s = "ninf" -> "-Infinity" [] OTHER -> s
NonFinite(s) == s \in {"nan", "inf", "ninf"}

RECURSIVE JsonOfVal(_), JsonOfAny(_), KeyTextOfVal(_), KeyTextOfAny(_)
KeyTextOfVal(v) == CASE v.k \in FloatKinds -> FloatText(v.s)
                     [] v.k = "newtype_struct" -> KeyTextOfVal(v.kids[1])
                     [] OTHER -> v.s
JsonOfVal(v) ==
    CASE v.k \in IntKinds -> J("num", v.s, <<>>)
      [] v.k = "bool" -> J("bool", v.s, <<>>)
      [] v.k \in FloatKinds -> IF NonFinite(v.s) THEN J("str", FloatText(v.s), <<>>) ELSE J("num", v.s, <<>>)
      [] v.k \in {"char", "str", "uuid"} -> J("str", v.s, <<>>)
      [] v.k = "bytes" -> J("str", "b64:" \o v.s, <<>>)
      [] v.k \in {"unit", "none", "unit_struct"} -> J("null", "", <<>>)
      [] v.k \in {"some", "newtype_struct"} -> JsonOfVal(v.kids[1])
      [] v.k \in {"seq", "tuple"} -> J("arr", "", [i \in 1..Len(v.kids) |-> JsonOfVal(v.kids[i])])
      [] v.k = "map" -> J("obj", "", [i \in 1..Len(v.kids) |-> IF i % 2 = 1 THEN J("str", KeyTextOfVal(v.kids[i]), <<>>)
                                                                ELSE JsonOfVal(v.kids[i])])
      [] v.k = "struct" -> J("obj", "", [i \in 1..(2 * Len(v.kids)) |->
                              IF i % 2 = 1 THEN J("str", FieldName((i + 1) \div 2), <<>>) ELSE JsonOfVal(v.kids[i \div 2])])
      [] v.k = "unit_variant" -> J("str", v.s, <<>>)
      [] v.k = "newtype_variant" -> J("obj", "", <<J("str", v.s, <<>>), JsonOfVal(v.kids[1])>>)
      [] v.k = "tuple_variant" -> J("obj", "", <<J("str", v.s, <<>>), J("arr", "", [i \in 1..Len(v.kids) |-> JsonOfVal(v.kids[i])])>>)
      [] v.k = "struct_variant" -> J("obj", "", <<J("str", v.s, <<>>), JsonOfVal(V("struct", "", v.kids))>>)

KeyTextOfAny(a) == CASE a.t \in {"F32", "F64"} -> FloatText(a.s) [] OTHER -> a.s
JsonOfAny(a) ==
    CASE a.t \in {"I8", "I16", "I32", "I64", "I128", "U8", "U16", "U32", "U64", "U128"} -> J("num", a.s, <<>>)
      [] a.t = "Bool" -> J("bool", a.s, <<>>)
      [] a.t \in {"F32", "F64"} -> IF NonFinite(a.s) THEN J("str", FloatText(a.s), <<>>) ELSE J("num", a.s, <<>>)
      [] a.t \in {"Char", "String"} -> J("str", a.s, <<>>)
      [] a.t = "Bytes" -> J("str", "b64:" \o a.s, <<>>)
      [] a.t = "Null" -> J("null", "", <<>>)
      [] a.t = "Seq" -> J("arr", "", [i \in 1..Len(a.kids) |-> JsonOfAny(a.kids[i])])
      [] a.t = "Map" -> J("obj", "", [i \in 1..Len(a.kids) |-> IF i % 2 = 1 THEN J("str", KeyTextOfAny(a.kids[i]), <<>>)
                                                               ELSE JsonOfAny(a.kids[i])])

(* JSON values equal up to member order *)
RECURSIVE JsonEq(_, _)
JsonEq(x, y) ==
    /\ x.j = y.j /\ x.s = y.s /\ Len(x.kids) = Len(y.kids)
    /\ IF x.j = "obj"
       THEN \A i \in 1..(Len(x.kids) \div 2) : \E k \in 1..(Len(y.kids) \div 2) :
                x.kids[2 * i - 1] = y.kids[2 * k - 1] /\ JsonEq(x.kids[2 * i], y.kids[2 * k])
       ELSE \A i \in 1..Len(x.kids) : JsonEq(x.kids[i], y.kids[i])

(* structural equality of dynamic values; Map entries are a set (the real Any keeps them in a BTreeMap) *)
RECURSIVE AnyEq(_, _)
AnyEq(x, y) ==
    /\ x.t = y.t /\ x.s = y.s /\ Len(x.kids) = Len(y.kids)
    /\ IF x.t = "Map"
       THEN \A i \in 1..(Len(x.kids) \div 2) : \E k \in 1..(Len(y.kids) \div 2) :
                AnyEq(x.kids[2 * i - 1], y.kids[2 * k - 1]) /\ AnyEq(x.kids[2 * i], y.kids[2 * k])
       ELSE \A i \in 1..Len(x.kids) : AnyEq(x.kids[i], y.kids[i])

RoundTripOk(v) == Yields(v, ToAny(v))
SameJsonOk(v) == JsonEq(JsonOfAny(ToAny(v)), JsonOfVal(v))
=============================================================================
