SPECIFICATION Spec
CONSTANTS
  Args <- ArgsNamesMacro
  MaxFaults = 3
  EndpointName = "NamesMacro"
INVARIANTS Props Emit
CHECK_DEADLOCK FALSE
