SPECIFICATION Spec
CONSTANTS
  Args <- ArgsEcho
  MaxFaults = 2
  EndpointName = "Echo"
INVARIANTS Props Emit
CHECK_DEADLOCK FALSE
