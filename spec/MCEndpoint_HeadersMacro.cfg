SPECIFICATION Spec
CONSTANTS
  Args <- ArgsHeadersMacro
  MaxFaults = 2
  EndpointName = "HeadersMacro"
INVARIANTS Props Emit
CHECK_DEADLOCK FALSE
