SPECIFICATION Spec
CONSTANTS
  Mode = "components"
  MaxLen = 1
  EmitMod = 1
INVARIANTS TokenExact RidExact RidPartsJoin ComponentsExact Emit
CHECK_DEADLOCK FALSE
