SPECIFICATION Spec
CONSTANTS
  N = 2
  Repaired = TRUE
  MaxObjFields = 2
  MaxUnionFields = 1
  MapExprs = TRUE
  ArgMode = "perm"
  MaxArgs = 0
  EmitMod = 3
INVARIANTS Sound Complete MemoClean MemoSound Emit
CHECK_DEADLOCK FALSE
