SPECIFICATION Spec
CONSTANTS
  Args <- NoArgs
INVARIANTS NeverAltered Emit
CHECK_DEADLOCK FALSE
