SPECIFICATION Spec
INVARIANTS RequestOkInv Emit
CHECK_DEADLOCK FALSE
