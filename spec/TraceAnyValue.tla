--------------------------- MODULE TraceAnyValue ---------------------------
(* I->S for C13: {"ev":"toany","v":<abstract value>,"any":<abstract Any observed through a recording serializer>, *)
(*                "roundtrip":bool,"samejson":bool}                                                             *)
(* Mech: ToAny(v) = logged any.  Prop: roundtrip and samejson are TRUE; and Yields(v, logged any) (the model's    *)
(* reading of the logged structure) agrees with the logged round-trip verdict.                                   *)
EXTENDS AnyValue, Json, IOUtils
Rec == ndJsonDeserialize(IOEnv.TRACE)
VARIABLES l
TInit == l = 1
TToAny == /\ l <= Len(Rec) /\ Rec[l].ev = "toany" /\ l' = l + 1
          /\ LET r == Rec[l]
                 p == r.roundtrip /\ r.samejson
                 m == AnyEq(ToAny(r.v), r.any) /\ Yields(r.v, r.any) = r.roundtrip
             IN /\ (~p => PrintT(<<"PROPFAIL", ToJson([line |-> l])>>))
                /\ ((p /\ ~m) => PrintT(<<"MECHFAIL", ToJson([line |-> l, model |-> ToAny(r.v)])>>))
TSpec == TInit /\ [][TToAny]_l
TraceAccepted == LET d == TLCGet("stats").diameter IN
                 IF d - 1 = Len(Rec) THEN TRUE ELSE Print(<<"UNMATCHED", ToJson([line |-> d])>>, FALSE)
=============================================================================
