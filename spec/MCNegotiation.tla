--------------------------- MODULE MCNegotiation ---------------------------
(* Exhaustive check of Mech = Prop for C11 inside explicit bounds; emits cases for S->I replay. *)
EXTENDS Negotiation, Json, IOUtils

CONSTANTS NT, NS,        \* concrete type names 1..NT, subtype names 1..NS
          Qs,            \* q-values (x1000) used in ranges
          MaxNp,         \* ranges carry 0..MaxNp extra parameters
          MaxRanges,     \* Accept lists of 0..MaxRanges ranges (0 = no Accept header)
          MaxEncs,       \* 1..MaxEncs registered encodings (repetition allowed)
          EmitMod

VARIABLES ranges, encs, ct, phase
vars == <<ranges, encs, ct, phase>>

EmitRes == IF "EMITRES" \in DOMAIN IOEnv THEN atoi(IOEnv.EMITRES) % EmitMod ELSE 0

RangeSet == {[ty |-> t, sub |-> s, np |-> n, q |-> q] :
                t \in 0..NT, s \in 0..NS, n \in 0..MaxNp, q \in Qs} \ {r \in [ty : 0..NT, sub : 0..NS, np : 0..MaxNp, q : Qs] : r.ty = Star /\ r.sub # Star}
EncSet == [ty : 1..NT, sub : 1..NS]
(* Content-Type values: concrete, with or without parameters, and wildcard forms that must never match *)
CtSet == [ty : 0..NT, sub : 0..NS, np : 0..1]
NoCt == [ty |-> -1, sub |-> -1, np |-> 0]

Init == ranges = <<>> /\ encs = <<>> /\ ct = NoCt /\ phase = "enc"

AddEnc == /\ phase = "enc" /\ Len(encs) < MaxEncs
          /\ \E e \in EncSet : encs' = Append(encs, e)
          /\ UNCHANGED <<ranges, ct, phase>>
EncDone == /\ phase = "enc" /\ Len(encs) >= 1 /\ phase' = "range" /\ UNCHANGED <<ranges, encs, ct>>
AddRange == /\ phase = "range" /\ Len(ranges) < MaxRanges
            /\ \E r \in RangeSet : ranges' = Append(ranges, r)
            /\ UNCHANGED <<encs, ct, phase>>
(* response side: decide for the current Accept list *)
Respond == /\ phase = "range" /\ phase' = "responded" /\ UNCHANGED <<ranges, encs, ct>>
(* request side: only from the empty range list so the two dimensions are not multiplied *)
Request == /\ phase = "range" /\ ranges = <<>>
           /\ \E c \in CtSet : ct' = c
           /\ phase' = "requested" /\ UNCHANGED <<ranges, encs>>

Next == AddEnc \/ EncDone \/ AddRange \/ Respond \/ Request
Spec == Init /\ [][Next]_vars

---------------------------------------------------------------------------
Eff == IF ranges = <<>> THEN <<[ty |-> Star, sub |-> Star, np |-> 0, q |-> 1000]>> ELSE ranges
MayPermitted(k) == MatchIdx(Eff, encs[k]) # {} /\ \E i \in Governing(Eff, encs[k]) : Eff[i].q > 0

(* Mech => Prop, response side *)
ResponseAgrees ==
    phase = "responded" =>
        LET m == MechChoice(ranges, encs) IN
        IF Ambiguous(Eff, encs)
        THEN /\ (m # 0 => MayPermitted(m))
             /\ ((\E k \in 1..Len(encs) : Permitted(Eff, encs[k])) => m # 0)
        ELSE m = PropChoice(ranges, encs)

(* the three clauses of the property, stated one by one (redundant with ResponseAgrees when unambiguous) *)
ChosenIsPermitted == phase = "responded" /\ ~Ambiguous(Eff, encs) =>
        LET m == MechChoice(ranges, encs) IN m # 0 => Permitted(Eff, encs[m])
ChosenWheneverPossible == phase = "responded" /\ ~Ambiguous(Eff, encs) =>
        ((\E k \in 1..Len(encs) : Permitted(Eff, encs[k])) => MechChoice(ranges, encs) # 0)
NoBetterPermitted == phase = "responded" /\ ~Ambiguous(Eff, encs) =>
        LET m == MechChoice(ranges, encs) IN
        m # 0 => \A k \in 1..Len(encs) : Permitted(Eff, encs[k]) => QualityOf(Eff, encs[k]) <= QualityOf(Eff, encs[m])
NoAcceptMeansFirst == phase = "responded" /\ ranges = <<>> => MechChoice(ranges, encs) = 1

RequestAgrees ==
    phase = "requested" =>
        LET m == MechRequest(ct, encs) P == PropRequest(ct, encs) IN
        IF P = {} THEN m = 0 ELSE m \in P

(* q-value text: for every d[.ddd] with value <= 1 the parsed integer is the real value x 1000 *)
QValueOk == \A lead \in 0..1 : \A n \in 0..3 : \A frac \in [1..n -> 0..9] :
               QValueProp(lead, frac) <= 1000 => QValueMech(lead, frac) = QValueProp(lead, frac)
ASSUME QValueOk

---------------------------------------------------------------------------
RECURSIVE SumSeq(_, _)
SumSeq(s, k) == IF k > Len(s) THEN 0 ELSE s[k] + SumSeq(s, k + 1)
Hash == SumSeq([i \in 1..Len(ranges) |-> (i * 31 + 7) * (ranges[i].ty * 5 + ranges[i].sub * 11 + ranges[i].np * 3
                                                         + ranges[i].q)], 1)
        + SumSeq([k \in 1..Len(encs) |-> (k * 17 + 3) * (encs[k].ty * 7 + encs[k].sub)], 1)
        + ct.ty * 13 + ct.sub * 29 + ct.np

Emit ==
    /\ (phase = "responded" /\ Hash % EmitMod = EmitRes) =>
          PrintT(<<"CASE", ToJson([kind |-> "response", ranges |-> ranges, encs |-> encs,
                                   mech |-> MechChoice(ranges, encs),
                                   ambiguous |-> Ambiguous(Eff, encs),
                                   prop |-> IF Ambiguous(Eff, encs) THEN 0 ELSE PropChoice(ranges, encs),
                                   may |-> [k \in 1..Len(encs) |-> MayPermitted(k)],
                                   must |-> [k \in 1..Len(encs) |-> Permitted(Eff, encs[k])]])>>)
    /\ (phase = "requested") =>
          PrintT(<<"CASE", ToJson([kind |-> "request", ct |-> ct, encs |-> encs,
                                   mech |-> MechRequest(ct, encs),
                                   allowed |-> [k \in 1..Len(encs) |-> k \in PropRequest(ct, encs)]])>>)
=============================================================================
