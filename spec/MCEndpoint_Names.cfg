SPECIFICATION Spec
CONSTANTS
  Args <- ArgsNames
  MaxFaults = 2
  EndpointName = "Names"
INVARIANTS Props Emit
CHECK_DEADLOCK FALSE
