--------------------------- MODULE MCResponsePath ---------------------------
EXTENDS ResponsePath, Json
VARIABLES cls, val, accept, phase
vars == <<cls, val, accept, phase>>
Init == cls = "" /\ val = "" /\ accept = "" /\ phase = "pick"
Pick == phase = "pick" /\ (\E c \in Classes : \E v \in ValuesOf(c) : \E a \in {"json", "smile-first"} : cls' = c /\ val' = v /\ accept' = a) /\ phase' = "done"
Spec == Init /\ [][Pick]_vars
ReturnEqualInv == phase = "done" => ReturnEqual(cls, val, accept)
NoContentInv == phase = "done" => NoContentIsRecoverable(cls, val, accept)
Emit == phase = "done" => PrintT(<<"CASE", ToJson([cls |-> cls, val |-> val, accept |-> accept, resp |-> Respond(cls, val, accept),
                                                    result |-> Decode(cls, Respond(cls, val, accept))])>>)
=============================================================================
