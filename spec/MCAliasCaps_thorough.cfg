SPECIFICATION Spec
CONSTANTS
  MaxWrap = 5
  OptionalPlain = FALSE
INVARIANTS Transparent PlainAgrees FromIterAgrees Sound Emit
CHECK_DEADLOCK FALSE
