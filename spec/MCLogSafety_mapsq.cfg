SPECIFICATION Spec
CONSTANTS
  N = 2
  Repaired = TRUE
  MaxObjFields = 1
  MaxUnionFields = 1
  MapExprs = TRUE
  Kinds = {"enum","alias","object"}
  Bearer = FALSE
  Decls = {"safe","unsafe"}
  ArgMode = "perm"
  MaxArgs = 0
  EmitMod = 2
INVARIANTS Sound Complete MemoClean MemoSound Emit
CHECK_DEADLOCK FALSE
