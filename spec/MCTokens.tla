--------------------------- MODULE MCTokens ---------------------------
EXTENDS Tokens, Json, IOUtils
CONSTANTS Mode,        \* "token" | "rid" | "components"
          MaxLen,      \* token strings of length 0..MaxLen ; rid parts of length 0..MaxLen
          EmitMod
VARIABLES s, parts, phase
vars == <<s, parts, phase>>
EmitRes == IF "EMITRES" \in DOMAIN IOEnv THEN atoi(IOEnv.EMITRES) % EmitMod ELSE 0

(* every class boundary: a z A Z 0 9 - . _ ~ + / = newline { @ and a non-ASCII lead byte pair *)
TokenAlpha == {97, 122, 65, 90, 48, 57, 45, 46, 95, 126, 43, 47, 61, 10, 123, 64, 96, 91, 32}
PartAlpha == {97, 49, 45, 65, 46, 95, 10}
Strs(alpha, n) == UNION {[1..k -> alpha] : k \in 0..n}
RidPrefixes == {<<114, 105, DOT>>, <<114, 73, DOT>>, <<114, 105>>, <<>>, <<120, 114, 105, DOT>>}

Init == s = <<>> /\ parts = <<>> /\ phase = "build"

BuildToken == /\ Mode = "token" /\ phase = "build" /\ Len(s) < MaxLen
              /\ \E c \in TokenAlpha : s' = Append(s, c)
              /\ UNCHANGED <<parts, phase>>
StopToken == Mode = "token" /\ phase = "build" /\ phase' = "done" /\ UNCHANGED <<s, parts>>

BuildPart == /\ Mode \in {"rid", "components"} /\ phase = "build" /\ Len(parts) < 4
             /\ \E x \in Strs(PartAlpha, MaxLen) : parts' = Append(parts, x)
             /\ UNCHANGED <<s, phase>>
StopRid == /\ Mode = "rid" /\ phase = "build" /\ Len(parts) = 4
           /\ \E pre \in RidPrefixes : s' = pre \o parts[1] \o <<DOT>> \o parts[2] \o <<DOT>> \o parts[3] \o <<DOT>> \o parts[4]
           /\ phase' = "done" /\ UNCHANGED parts
StopComponents == Mode = "components" /\ phase = "build" /\ Len(parts) = 4 /\ phase' = "done" /\ UNCHANGED <<s, parts>>

Next == BuildToken \/ StopToken \/ BuildPart \/ StopRid \/ StopComponents
Spec == Init /\ [][Next]_vars

TokenExact == (phase = "done" /\ Mode = "token") => (TokenMech(s) <=> TokenOk(s))
RidExact == (phase = "done" /\ Mode = "rid") => (RidMech(s) <=> RidOk(s))
RidPartsJoin == (phase = "done" /\ Mode = "rid" /\ RidMech(s)) =>
                   LET p == MechParts(s) IN /\ Join(p.service, p.instance, p.type, p.locator) = s
                                            /\ p.service = Parts(s).service /\ p.instance = Parts(s).instance
                                            /\ p.type = Parts(s).type /\ p.locator = Parts(s).locator
ComponentsExact == (phase = "done" /\ Mode = "components") =>
                   (FromComponentsMech(parts[1], parts[2], parts[3], parts[4])
                       <=> ComponentsOk(parts[1], parts[2], parts[3], parts[4]))

RECURSIVE SumSeq(_, _)
SumSeq(q, k) == IF k > Len(q) THEN 0 ELSE q[k] + SumSeq(q, k + 1)
Hash == SumSeq([i \in 1..Len(s) |-> (i * 31 + 7) * s[i]], 1)
        + SumSeq([j \in 1..Len(parts) |-> (j * 131) * (Len(parts[j]) + SumSeq([i \in 1..Len(parts[j]) |-> (i + 3) * parts[j][i]], 1))], 1)
Emit == (phase = "done" /\ Hash % EmitMod = EmitRes) =>
          PrintT(<<"CASE", ToJson([mode |-> Mode, s |-> s, parts |-> parts,
                     prop |-> CASE Mode = "token" -> TokenOk(s) [] Mode = "rid" -> RidOk(s)
                                [] OTHER -> ComponentsOk(parts[1], parts[2], parts[3], parts[4]),
                     mech |-> CASE Mode = "token" -> TokenMech(s) [] Mode = "rid" -> RidMech(s)
                                [] OTHER -> FromComponentsMech(parts[1], parts[2], parts[3], parts[4])])>>)
=============================================================================
