--------------------------- MODULE TraceTokens ---------------------------
(* I->S for C16: {"ev":"token"|"rid","s":[bytes],"accepted":bool,"parts":[..4 byte strings..]|[]} - the verdict *)
(* all entry paths agreed on for the string, and (rid) the components the accessors returned.                    *)
EXTENDS Tokens, Json, IOUtils
Rec == ndJsonDeserialize(IOEnv.TRACE)
VARIABLES l
TInit == l = 1
TToken == /\ l <= Len(Rec) /\ Rec[l].ev = "token" /\ l' = l + 1
          /\ LET r == Rec[l] p == r.accepted = TokenOk(r.s) m == r.accepted = TokenMech(r.s)
             IN /\ (~p => PrintT(<<"PROPFAIL", ToJson([line |-> l])>>))
                /\ ((p /\ ~m) => PrintT(<<"MECHFAIL", ToJson([line |-> l])>>))
TRid == /\ l <= Len(Rec) /\ Rec[l].ev = "rid" /\ l' = l + 1
        /\ LET r == Rec[l]
               p == /\ r.accepted = RidOk(r.s)
                    /\ (r.accepted => LET q == Parts(r.s) IN r.parts = <<q.service, q.instance, q.type, q.locator>>)
               m == r.accepted = RidMech(r.s)
           IN /\ (~p => PrintT(<<"PROPFAIL", ToJson([line |-> l])>>))
              /\ ((p /\ ~m) => PrintT(<<"MECHFAIL", ToJson([line |-> l])>>))
TSpec == TInit /\ [][TToken \/ TRid]_l
TraceAccepted == LET d == TLCGet("stats").diameter IN
                 IF d - 1 = Len(Rec) THEN TRUE ELSE Print(<<"UNMATCHED", ToJson([line |-> d])>>, FALSE)
=============================================================================
