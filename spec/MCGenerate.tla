--------------------------- MODULE MCGenerate ---------------------------
(* Definitions of <= MaxItems items (types, then errors, then services) x command lines x process seeds. *)
EXTENDS Generate, Json, IOUtils
CONSTANTS MaxItems, EmitMod,
          BoolFormsUsed     \* the flag forms explored for --exhaustive / --serializeEmptyCollections
VARIABLES def, fl, phase
vars == <<def, fl, phase>>
EmitRes == IF "EMITRES" \in DOMAIN IOEnv THEN atoi(IOEnv.EMITRES) % EmitMod ELSE 0

Packages == {<<"com">>, <<"com", "p">>, <<"com", "p", "foo">>, <<"com", "try", "async">>}
NamesOf(k) == CASE k = "type" -> {"Foo", "Bar", "Type"} [] k = "error" -> {"Oops", "Mod"} [] OTHER -> {"Svc", "Async"}
StripPrefixes == {<<>>, <<"com">>, <<"com", "p">>, <<"org">>}
Items == UNION {[pkg : Packages, name : NamesOf(k), kind : {k}] : k \in {"type", "error", "service"}}
Flags == [ex : BoolFormsUsed, sec : BoolFormsUsed, strip : StripPrefixes, pname : {"none", "prod"}, pver : {"none", "1.2.3"}, cver : {"none", "0.9.0"}]
NoFlags == [ex |-> "absent", sec |-> "absent", strip |-> <<>>, pname |-> "none", pver |-> "none", cver |-> "none"]

Fresh(d, it) == \A i \in 1..Len(d) : ~(d[i].pkg = it.pkg /\ d[i].name = it.name)
InIrOrder(d, it) == IF Len(d) = 0 THEN TRUE ELSE KindRank(d[Len(d)].kind) <= KindRank(it.kind)

Init == def = <<>> /\ fl = NoFlags /\ phase = "items"
AddItem == phase = "items" /\ Len(def) < MaxItems
           /\ (\E it \in Items : Fresh(def, it) /\ InIrOrder(def, it) /\ def' = Append(def, it)) /\ UNCHANGED <<fl, phase>>
(* the tool is started: clap accepts the flag combination *)
Run == phase = "items" /\ Len(def) >= 1 /\ (\E f \in Flags : FlagsAccepted(f) /\ fl' = f) /\ phase' = "done" /\ UNCHANGED def
Spec == Init /\ [][AddItem \/ Run]_vars

IdSeed == [deps |-> BTreeDeps, items |-> [i \in 1..Len(def) |-> i]]
Seeds == [deps : DepSeeds, items : ItemSeeds(Len(def))]
(* the tree is clash-free (C03's recorded limitation is excluded: such a tree has two files with one name) *)
Valid == DistinctItems(def, fl.strip)

DeterministicInv == (phase = "done" /\ Valid) => \A s \in Seeds : Deterministic(def, CliConfig(fl), s, IdSeed) /\ Deterministic(def, LibConfig(fl), s, IdSeed)
CliEqualsLibInv == (phase = "done" /\ Valid) => \A s \in Seeds : CliEqualsLib(def, fl, s, IdSeed)
ConfinedInv == phase = "done" => Confined(def, LibConfig(fl))

RECURSIVE SumSeq(_, _)
SumSeq(s, k) == IF k > Len(s) THEN 0 ELSE s[k] + SumSeq(s, k + 1)
NameCode(n) == CASE n = "Foo" -> 1 [] n = "Bar" -> 2 [] n = "Type" -> 3 [] n = "Oops" -> 4 [] n = "Mod" -> 5 [] n = "Svc" -> 6 [] OTHER -> 7
FormCode(f) == CASE f = "absent" -> 0 [] f = "bare" -> 1 [] f = "true" -> 2 [] OTHER -> 3
Hash == SumSeq([i \in 1..Len(def) |-> (i * 29 + 1) * (NameCode(def[i].name) + 7 * Len(def[i].pkg) + (IF Len(def[i].pkg) > 1 THEN 3 ELSE 0))], 1)
        + 5 * Len(fl.strip) + 11 * FormCode(fl.ex) + 17 * FormCode(fl.sec) + (IF fl.pname = "none" THEN 0 ELSE 23) + (IF fl.cver = "none" THEN 0 ELSE 31)
Emit == (phase = "done" /\ Valid /\ Hash % EmitMod = EmitRes) =>
          LET cfg == LibConfig(fl) o == Out(def, cfg, IdSeed) IN
          PrintT(<<"CASE", ToJson([def |-> def, flags |-> fl, lib |-> cfg, files |-> o.files,
                                   mods |-> {[dir |-> d, mods |-> o.mods[d]] : d \in DOMAIN o.mods},
                                   deps |-> o.deps, endpoint_version |-> o.endpoint_version])>>)
=============================================================================
