SPECIFICATION Spec
CONSTANTS
  Args <- ArgsQuery
  MaxFaults = 3
  EndpointName = "Query"
INVARIANTS Props Emit
CHECK_DEADLOCK FALSE
