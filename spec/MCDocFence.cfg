SPECIFICATION Spec
CONSTANTS
  LineClasses = {"text", "ticks", "bare", "bareblank", "indented", "info"}
  MaxLines = 4
  MarkClosers = FALSE
INVARIANTS Pairing OpenersIgnored ClosersUntouched OthersUntouched LinesPreserved Emit
CHECK_DEADLOCK FALSE
