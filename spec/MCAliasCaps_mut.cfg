SPECIFICATION Spec
CONSTANTS
  MaxWrap = 3
  OptionalPlain = TRUE
INVARIANTS Transparent PlainAgrees FromIterAgrees Sound
CHECK_DEADLOCK FALSE
