SPECIFICATION Spec
CONSTANTS
  OptionalPlain = TRUE
INVARIANTS Transparent PlainAgrees FromIterAgrees Sound
CHECK_DEADLOCK FALSE
