SPECIFICATION Spec
CONSTANTS
  Args <- ArgsAuthCookie
  MaxFaults = 2
  EndpointName = "AuthCookie"
INVARIANTS Props Emit
CHECK_DEADLOCK FALSE
