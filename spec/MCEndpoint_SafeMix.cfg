SPECIFICATION Spec
CONSTANTS
  Args <- ArgsSafeMix
  MaxFaults = 2
  EndpointName = "SafeMix"
INVARIANTS Props Emit
CHECK_DEADLOCK FALSE
