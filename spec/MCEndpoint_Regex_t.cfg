SPECIFICATION Spec
CONSTANTS
  Args <- ArgsRegex
  MaxFaults = 3
  EndpointName = "Regex"
INVARIANTS Props Emit
CHECK_DEADLOCK FALSE
