--------------------------- MODULE MCErrorModel ---------------------------
EXTENDS ErrorModel, Json, IOUtils
CONSTANTS MaxSafe, MaxUnsafe, EmitMod
VARIABLES ps, nsafe, propagated, phase
vars == <<ps, nsafe, propagated, phase>>
EmitRes == IF "EMITRES" \in DOMAIN IOEnv THEN atoi(IOEnv.EMITRES) % EmitMod ELSE 0
ArgName(i, safe) == IF safe THEN (IF i = 1 THEN "sa" ELSE IF i = 2 THEN "sb" ELSE "sc") ELSE (IF i = 1 THEN "ua" ELSE IF i = 2 THEN "ub" ELSE "uc")

Init == ps = <<>> /\ nsafe = 0 /\ propagated = FALSE /\ phase = "safe"
AddSafe == phase = "safe" /\ nsafe < MaxSafe /\ (\E c \in Classes : ps' = Append(ps, [name |-> ArgName(nsafe + 1, TRUE), safe |-> TRUE, cls |-> c]))
           /\ nsafe' = nsafe + 1 /\ UNCHANGED <<propagated, phase>>
ToUnsafe == phase = "safe" /\ phase' = "unsafe" /\ UNCHANGED <<ps, nsafe, propagated>>
AddUnsafe == phase = "unsafe" /\ Len(ps) - nsafe < MaxUnsafe
             /\ (\E c \in Classes : ps' = Append(ps, [name |-> ArgName(Len(ps) - nsafe + 1, FALSE), safe |-> FALSE, cls |-> c]))
             /\ UNCHANGED <<nsafe, propagated, phase>>
Finish == phase = "unsafe" /\ (\E p \in BOOLEAN : propagated' = p) /\ phase' = "done" /\ UNCHANGED <<ps, nsafe>>
Spec == Init /\ [][AddSafe \/ ToUnsafe \/ AddUnsafe \/ Finish]_vars

OneEntryPerScalar == phase = "done" => MechEncoded(ps) = PropEncoded(ps)
Partition == phase = "done" => /\ MechSafe(ps, propagated) = PropSafe(ps, propagated)
                               /\ MechUnsafe(ps, propagated) = PropUnsafe(ps, propagated)
                               /\ MechSafe(ps, propagated) \cap MechUnsafe(ps, propagated) = {}
                               /\ MechSafe(ps, propagated) \cup MechUnsafe(ps, propagated) = MechEncoded(ps)
PropagatedAllUnsafe == (phase = "done" /\ propagated) => MechSafe(ps, propagated) = {}

RECURSIVE SumSeq(_, _)
SumSeq(s, k) == IF k > Len(s) THEN 0 ELSE s[k] + SumSeq(s, k + 1)
ClsCode(c) == CASE c = "string" -> 1 [] c = "int" -> 2 [] c = "safelong" -> 3 [] c = "double" -> 4 [] c = "doublenan" -> 5 [] c = "bool" -> 6
                [] c = "uuid" -> 7 [] c = "rid" -> 8 [] c = "enum" -> 9 [] c = "optpresent" -> 10 [] c = "optabsent" -> 11 [] c = "list" -> 12
                [] c = "map" -> 13 [] c = "object" -> 14 [] OTHER -> 15
Hash == SumSeq([i \in 1..Len(ps) |-> (i * 17 + 3) * ClsCode(ps[i].cls)], 1) + (IF propagated THEN 7 ELSE 0)
Emit == (phase = "done" /\ (Len(ps) <= 2 \/ Hash % EmitMod = EmitRes)) =>
          PrintT(<<"CASE", ToJson([ps |-> ps, propagated |-> propagated, encoded |-> MechEncoded(ps),
                                   safe |-> MechSafe(ps, propagated), unsafe |-> MechUnsafe(ps, propagated),
                                   psafe |-> PropSafe(ps, propagated), punsafe |-> PropUnsafe(ps, propagated)])>>)
=============================================================================
