SPECIFICATION Spec
CONSTANTS
  N = 3
  MaxFields = 2
  EmitMod = 1000000
  WarmInSeedOrder = FALSE
  GenInSeedOrder = TRUE
INVARIANTS PlainIsValidInv EduceIfDirectInv NoSpuriousEduceInv Functional
CHECK_DEADLOCK FALSE
