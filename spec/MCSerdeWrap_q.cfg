SPECIFICATION Spec
CONSTANTS
  RewrapSer = {"some","newtype_struct","newtype_variant","seq_elem","tuple_elem","tuple_struct_field","tuple_variant_field","map_value","struct_field","struct_variant_field","map_key"}
  RewrapDe = {"some","newtype_struct","newtype_variant","seq_elem","tuple_elem","tuple_struct_field","tuple_variant_field","map_value","struct_field","struct_variant_field","map_key"}
  RootWraps = TRUE
  MaxDepth = 3
  EmitMod = 1
INVARIANTS ModeIffKey Spelling JsonIsStandard RoundTrip StrictEverywhere Emit
CHECK_DEADLOCK FALSE
