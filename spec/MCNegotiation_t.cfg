SPECIFICATION Spec
CONSTANTS
  NT = 2
  NS = 2
  Qs = {0, 1, 500, 1000}
  MaxNp = 1
  MaxRanges = 3
  MaxEncs = 2
  EmitMod = 150
INVARIANTS ResponseAgrees ChosenIsPermitted ChosenWheneverPossible NoBetterPermitted NoAcceptMeansFirst RequestAgrees Emit
CHECK_DEADLOCK FALSE
