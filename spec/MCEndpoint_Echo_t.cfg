SPECIFICATION Spec
CONSTANTS
  Args <- ArgsEcho
  MaxFaults = 3
  EndpointName = "Echo"
INVARIANTS Props Emit
CHECK_DEADLOCK FALSE
