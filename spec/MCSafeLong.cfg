SPECIFICATION Spec
INVARIANTS InRange Total Agrees Emit
CHECK_DEADLOCK FALSE
