SPECIFICATION Spec
CONSTANTS
  N = 1
  Repaired = TRUE
  MaxObjFields = 2
  MaxUnionFields = 2
  MapExprs = FALSE
  Kinds = {"enum","alias","object","union"}
  Bearer = TRUE
  Decls = {"safe","unsafe","dnl"}
  ArgMode = "free"
  MaxArgs = 2
  EmitMod = 4
INVARIANTS Sound Complete MemoClean MemoSound Emit
CHECK_DEADLOCK FALSE
