SPECIFICATION Spec
CONSTANTS
  N = 1
  Repaired = TRUE
  MaxObjFields = 2
  MaxUnionFields = 2
  MapExprs = FALSE
  ArgMode = "free"
  MaxArgs = 2
  EmitMod = 1
INVARIANTS Sound Complete MemoClean MemoSound Emit
CHECK_DEADLOCK FALSE
