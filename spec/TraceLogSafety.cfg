SPECIFICATION TSpec
CONSTANTS
  Repaired = TRUE
POSTCONDITION TraceAccepted
CHECK_DEADLOCK FALSE
