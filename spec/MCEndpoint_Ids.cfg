SPECIFICATION Spec
CONSTANTS
  Args <- ArgsIds
  MaxFaults = 2
  EndpointName = "Ids"
INVARIANTS Props Emit
CHECK_DEADLOCK FALSE
