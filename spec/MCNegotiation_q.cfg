SPECIFICATION Spec
CONSTANTS
  NT = 2
  NS = 2
  Qs = {0, 500, 1000}
  MaxNp = 1
  MaxRanges = 2
  MaxEncs = 3
  EmitMod = 8
INVARIANTS ResponseAgrees ChosenIsPermitted ChosenWheneverPossible NoBetterPermitted NoAcceptMeansFirst RequestAgrees Emit
CHECK_DEADLOCK FALSE
