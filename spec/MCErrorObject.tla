--------------------------- MODULE MCErrorObject ---------------------------
(* Every constructor x every declared error type over Keys x every history of <= MaxSteps builder calls. *)
EXTENDS ErrorObject, Json, IOUtils
CONSTANTS MaxSteps, EmitMod,
          MoveSemantics    \* TRUE: with_unsafe_param also removes the key from the safe map (self-test of Independent)
VARIABLES ctor, decl, kind, causeSafe, wire, safe, unsafe, bts, hist
vars == <<ctor, decl, kind, causeSafe, wire, safe, unsafe, bts, hist>>
EmitRes == IF "EMITRES" \in DOMAIN IOEnv THEN atoi(IOEnv.EMITRES) % EmitMod ELSE 0

Init == ctor = None /\ decl = Empty /\ kind = None /\ causeSafe = FALSE /\ wire = Empty /\ safe = Empty /\ unsafe = Empty
        /\ bts = <<>> /\ hist = <<>>
Construct == ctor = None
             /\ \E c \in Ctors : \E d \in Decls :
                  /\ (c \notin ServiceCtors => d = [k \in Keys |-> "absent"])
                  /\ ctor' = c /\ decl' = d /\ kind' = KindOf(c) /\ causeSafe' = SafeCause(c)
                  /\ wire' = WireOf(c, d) /\ safe' = CtorSafe(c, d) /\ unsafe' = CtorUnsafe(c, d)
                  /\ bts' = <<"captured">>                  \* Error::new ends with .with_backtrace()
             /\ UNCHANGED hist
Live == ctor # None /\ Len(hist) < MaxSteps
WithSafe == Live /\ \E k \in Keys : \E v \in Vals :
              /\ safe' = [safe EXCEPT ![k] = v] /\ hist' = Append(hist, [op |-> "safe", k |-> k, v |-> v])
              /\ UNCHANGED <<ctor, decl, kind, causeSafe, wire, unsafe, bts>>
WithUnsafe == Live /\ \E k \in Keys : \E v \in Vals :
              /\ unsafe' = [unsafe EXCEPT ![k] = v] /\ hist' = Append(hist, [op |-> "unsafe", k |-> k, v |-> v])
              /\ safe' = IF MoveSemantics THEN [safe EXCEPT ![k] = None] ELSE safe
              /\ UNCHANGED <<ctor, decl, kind, causeSafe, wire, bts>>
WithBacktrace == Live /\ bts' = Append(bts, "captured") /\ hist' = Append(hist, [op |-> "bt", k |-> None, v |-> None])
                 /\ UNCHANGED <<ctor, decl, kind, causeSafe, wire, safe, unsafe>>
WithCustom == Live /\ \E v \in Vals : bts' = Append(bts, v) /\ hist' = Append(hist, [op |-> "custom", k |-> None, v |-> v])
              /\ UNCHANGED <<ctor, decl, kind, causeSafe, wire, safe, unsafe>>
Next == Construct \/ WithSafe \/ WithUnsafe \/ WithBacktrace \/ WithCustom
Spec == Init /\ [][Next]_vars

(* ---- properties ---- *)
KindStable == [][ctor # None => (kind' = kind /\ causeSafe' = causeSafe /\ wire' = wire /\ ctor' = ctor)]_vars
Independent == [][(\E i \in {Len(hist')} : i > Len(hist) /\ hist'[i].op = "unsafe") => safe' = safe]_vars
IndependentU == [][(\E i \in {Len(hist')} : i > Len(hist) /\ hist'[i].op = "safe") => unsafe' = unsafe]_vars
LastWriteWins == ctor # None => \A k \in Keys : /\ safe[k] = LastFor(hist, "safe", k, CtorSafe(ctor, decl)[k])
                                               /\ unsafe[k] = LastFor(hist, "unsafe", k, CtorUnsafe(ctor, decl)[k])
CtorPartition == (ctor # None /\ hist = <<>>) =>
                    /\ \A k \in Keys : (safe[k] # None) <=> (ctor \in {"service", "service_safe"} /\ decl[k] = "safe")
                    /\ \A k \in Keys : (unsafe[k] # None) <=> (ctor \in ServiceCtors /\ decl[k] # "absent" /\ safe[k] = None)
                    /\ \A k \in Keys : (wire[k] # None) <=> (ctor \in ServiceCtors /\ decl[k] # "absent")
BacktraceLog == ctor # None => bts = <<"captured">> \o BtOf(hist)

(* ---- S->I: one case per sampled history of full length; the expected projection after every call ---- *)
RECURSIVE States(_, _, _, _)
States(h, s, u, b) ==        \* projections after each prefix of h, computed by the PROPERTY layer's fold
    IF h = <<>> THEN <<>>
    ELSE LET c == Head(h)
             s2 == IF c.op = "safe" THEN [s EXCEPT ![c.k] = c.v] ELSE s
             u2 == IF c.op = "unsafe" THEN [u EXCEPT ![c.k] = c.v] ELSE u
             b2 == IF c.op = "bt" THEN Append(b, "captured") ELSE IF c.op = "custom" THEN Append(b, c.v) ELSE b
         IN <<[safe |-> {[k |-> k, v |-> s2[k]] : k \in {x \in Keys : s2[x] # None}},
               unsafe |-> {[k |-> k, v |-> u2[k]] : k \in {x \in Keys : u2[x] # None}}, bts |-> b2]>> \o States(Tail(h), s2, u2, b2)
OpCode(o) == CASE o = "safe" -> 1 [] o = "unsafe" -> 2 [] o = "bt" -> 3 [] OTHER -> 4
Ord == CHOOSE f \in [Keys \cup Vals -> 1..Cardinality(Keys \cup Vals)] : \A a, b \in Keys \cup Vals : a # b => f[a] # f[b]
Code(x) == IF x = None THEN 0 ELSE Ord[x]
RECURSIVE SumSeq(_, _)
SumSeq(s, k) == IF k > Len(s) THEN 0 ELSE s[k] + SumSeq(s, k + 1)
Hash == SumSeq([i \in 1..Len(hist) |-> (i * 7 + 3) * (OpCode(hist[i].op) + 5 * Code(hist[i].k) + 11 * Code(hist[i].v))], 1)
        + 17 * Cardinality({k \in Keys : decl[k] = "safe"}) + 29 * Cardinality({k \in Keys : decl[k] = "unsafe"}) + 31 * Len(ctor)
Emit == (ctor # None /\ Len(hist) = MaxSteps /\ Hash % EmitMod = EmitRes) =>
          PrintT(<<"CASE", ToJson([ctor |-> ctor, decl |-> {[k |-> k, d |-> decl[k]] : k \in Keys}, kind |-> kind, cause_safe |-> causeSafe,
                                   wire |-> {[k |-> k, v |-> wire[k]] : k \in {x \in Keys : wire[x] # None}},
                                   init |-> [safe |-> {[k |-> k, v |-> CtorSafe(ctor, decl)[k]] : k \in {x \in Keys : CtorSafe(ctor, decl)[x] # None}},
                                             unsafe |-> {[k |-> k, v |-> CtorUnsafe(ctor, decl)[k]] : k \in {x \in Keys : CtorUnsafe(ctor, decl)[x] # None}},
                                             bts |-> <<"captured">>],
                                   hist |-> hist,
                                   states |-> States(hist, CtorSafe(ctor, decl), CtorUnsafe(ctor, decl), <<"captured">>)])>>)
=============================================================================
