--------------------------- MODULE BodyFraming ---------------------------
(***************************************************************************)
(* C06 - Servers accept a request body only if it is exactly one complete  *)
(*       valid document.                                                   *)
(* C18 - Clients return a value only from a complete, correctly typed      *)
(*       response.                                                         *)
(*                                                                         *)
(* Mech: conjure-http/src/private/mod.rs read_body / async_read_body (the  *)
(* three code paths: no chunk, one chunk returned as is, >= 2 chunks       *)
(* copied; check_limit after the first, after the second and after every   *)
(* further chunk), conjure-http/src/server/mod.rs StdRequestDeserializer   *)
(* (encoding lookup first, then read, then deserialize, then - when        *)
(* EndCheck - end-of-input validation), server/conjure.rs                  *)
(* OptionalRequestDeserializer (no Content-Type => absent, body not read), *)
(* private/client/mod.rs decode_*_response (204 short cut, exact           *)
(* Content-Type equality, read_body without limit, client_from_slice with  *)
(* end check).                                                             *)
(*                                                                         *)
(* A history is a sequence of items: n >= 0 is a data chunk of n abstract  *)
(* length units, -1 is an error raised by the stream.  The body's content  *)
(* class says what the concatenation of all data is.                       *)
(***************************************************************************)
EXTENDS Integers, Sequences, FiniteSets, TLC

CONSTANT EndCheck   \* TRUE: StdRequestDeserializer validates end of input (repaired); FALSE: pinned tree

FAIL == -1

(* content classes of the concatenated body *)
Classes == {"empty",      \* no bytes
            "doc",        \* exactly one well-formed document of the expected type
            "docws",      \* the same surrounded by insignificant whitespace (JSON)
            "trailing",   \* a complete document of the expected type followed by further data
            "truncated",  \* a proper prefix of a document
            "malformed",  \* not a document
            "unknown",    \* a document of the expected type with an extra, undeclared field
            "wrongtype",  \* a well-formed document of another type
            "otherenc"}   \* the expected value, well-formed, but written in the OTHER registered encoding (JSON under a Smile
                          \* Content-Type and vice versa): Content-Type names the encoding, the body is not sniffed

(* Content-Type classes, relative to the registered encodings *)
CtClasses == {"exact",      \* the registered media type, verbatim
              "params",     \* the registered media type with parameters (charset=...)
              "other",      \* a well-formed media type that is not registered
              "near",       \* not registered, but sharing type and subtype stem with a registered one: a structured-syntax
                            \* suffix (application/json+xml), another top-level type (text/json), a longer subtype (json-seq)
              "wildcard",   \* */* or type/*
              "garbage",    \* not a media type
              "absent"}

SumData(h) == LET RECURSIVE S(_) S(i) == IF i > Len(h) THEN 0 ELSE (IF h[i] = FAIL THEN 0 ELSE h[i]) + S(i + 1) IN S(1)
HasFail(h) == \E i \in 1..Len(h) : h[i] = FAIL

---------------------------------------------------------------------------
(* Mech: read_body as a step function.  r = [pos, buf, chunks, out]        *)
(*   out \in {"reading", "done", "limit", "stream"}                        *)
(*   ev  = sequence of <<step, chunk_len, buf_len>> as logged by the hook  *)
Over(buf, limit) == limit >= 0 /\ buf > limit

RECURSIVE ReadMore(_, _, _, _, _)
ReadMore(h, limit, pos, buf, ev) ==
    IF pos > Len(h) THEN [out |-> "done", buf |-> buf, ev |-> ev]
    ELSE IF h[pos] = FAIL THEN [out |-> "stream", buf |-> buf, ev |-> ev]
    ELSE LET b == buf + h[pos] IN
         IF Over(b, limit) THEN [out |-> "limit", buf |-> b, ev |-> Append(ev, <<"more", b>>)]
         ELSE ReadMore(h, limit, pos + 1, b, Append(ev, <<"more", b>>))

(* ev: the successful steps <<step, buffered length>> in the order the hook logs them *)
ReadBody(h, limit) ==
    IF Len(h) = 0 THEN [out |-> "done", buf |-> 0, ev |-> <<<<"none", 0>>>>]
    ELSE IF h[1] = FAIL THEN [out |-> "stream", buf |-> 0, ev |-> <<>>]
    ELSE IF Over(h[1], limit) THEN [out |-> "limit", buf |-> h[1], ev |-> <<<<"first", h[1]>>>>]
    ELSE IF Len(h) = 1 THEN [out |-> "done", buf |-> h[1], ev |-> <<<<"first", h[1]>>, <<"single", h[1]>>>>]
    ELSE IF h[2] = FAIL THEN [out |-> "stream", buf |-> h[1], ev |-> <<<<"first", h[1]>>>>]
    ELSE LET b == h[1] + h[2] e2 == <<<<"first", h[1]>>, <<"second", b>>>> IN
         IF Over(b, limit) THEN [out |-> "limit", buf |-> b, ev |-> e2]
         ELSE ReadMore(h, limit, 3, b, e2)

(* server: [verdict, why]; verdict \in {"accept", "absent", "reject"};                 *)
(* why \in {"ok", "ctype", "limit", "stream", "deser"}                                  *)
ServerDeser(cls) ==
    CASE cls \in {"doc", "docws"} -> "ok"
      [] cls = "trailing" -> IF EndCheck THEN "deser" ELSE "ok"
      [] OTHER -> "deser"

ServerMech(kind, ct, h, limit, cls) ==
    IF kind = "optional" /\ ct = "absent" THEN [verdict |-> "absent", why |-> "ok", ev |-> <<>>]
    ELSE IF ct \notin {"exact", "params"} THEN [verdict |-> "reject", why |-> "ctype", ev |-> <<>>]
    ELSE LET r == ReadBody(h, limit) IN
         IF r.out # "done" THEN [verdict |-> "reject", why |-> r.out, ev |-> r.ev]
         ELSE IF ServerDeser(cls) = "ok" THEN [verdict |-> "accept", why |-> "ok", ev |-> r.ev]
         ELSE [verdict |-> "reject", why |-> "deser", ev |-> r.ev]

(* Prop, server side: the set of verdicts the property allows *)
ServerProp(kind, ct, h, limit, cls) ==
    IF kind = "optional" /\ ct = "absent" THEN {"absent"}
    ELSE IF /\ ct \in {"exact", "params"}
            /\ cls \in {"doc", "docws"}
            /\ ~HasFail(h)
            /\ ~Over(SumData(h), limit)
         THEN {"accept"} ELSE {"reject"}
(* which error a rejection may carry: the stream's own error only if the stream raised one *)
ServerWhyOk(h, why) == why = "stream" => HasFail(h)

---------------------------------------------------------------------------
(* client: ret \in {"unit", "value", "default", "binary", "optbinary"}; status \in {200, 204}              *)
(* ct \in {"json", "jsonparams", "octet", "other", "near", "absent"}                                       *)
(* verdict \in {"value", "empty", "stream-handle", "error"}                                                *)
ClientDeser(ret, cls) ==
    IF ret = "unit"    \* IgnoredAny: any single well-formed document
    THEN cls \in {"doc", "docws", "unknown", "wrongtype"}
    ELSE cls \in {"doc", "docws", "unknown"}      \* unknown fields are tolerated by clients

ClientMech(ret, status, ct, h, cls) ==
    IF status = 204 /\ ret \in {"unit", "default", "optbinary"} THEN [verdict |-> "empty", ev |-> <<>>]
    ELSE IF ret \in {"binary", "optbinary"}
    THEN IF ct = "octet" THEN [verdict |-> "stream-handle", ev |-> <<>>] ELSE [verdict |-> "error", ev |-> <<>>]
    ELSE IF ct # "json" THEN [verdict |-> "error", ev |-> <<>>]
    ELSE LET r == ReadBody(h, -1) IN
         IF r.out # "done" THEN [verdict |-> "error", ev |-> r.ev]
         ELSE IF ClientDeser(ret, cls) THEN [verdict |-> "value", ev |-> r.ev]
         ELSE [verdict |-> "error", ev |-> r.ev]

(* Prop, client side; "either" marks the don't-care zone (Content-Type with parameters) *)
ClientProp(ret, status, ct, h, cls) ==
    IF status = 204 /\ ret \in {"unit", "default", "optbinary"} THEN {"empty"}
    ELSE IF ret \in {"binary", "optbinary"}
    THEN IF ct = "octet" THEN {"stream-handle"} ELSE {"error"}
    ELSE IF ct = "jsonparams" /\ ~HasFail(h) /\ ClientDeser(ret, cls) THEN {"value", "error"}
    ELSE IF ct = "json" /\ ~HasFail(h) /\ ClientDeser(ret, cls) THEN {"value"}
    ELSE {"error"}
=============================================================================
