SPECIFICATION Spec
CONSTANTS
  Args <- ArgsPath
  MaxFaults = 2
  EndpointName = "Path"
INVARIANTS Props Emit
CHECK_DEADLOCK FALSE
