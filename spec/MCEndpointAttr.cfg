SPECIFICATION Spec
CONSTANTS
  Methods <- MCMethods
  Classes <- MCClasses
  Auths <- MCAuths
  NameKinds <- MCNameKinds
  PathKinds <- MCPathKinds
  IterableFirst = FALSE
INVARIANTS ServerAgrees ProducesAgrees ClientAgrees SidesConsistent Emit
CHECK_DEADLOCK FALSE
