SPECIFICATION Spec
CONSTANTS
  AliasFuel = 9
  SerializeEmpty = FALSE
  Exhaustive = FALSE
INVARIANTS FieldAgrees UnionAgrees KnownNeverUnknown ExhaustiveRejectsUnlisted Emit
CHECK_DEADLOCK FALSE
