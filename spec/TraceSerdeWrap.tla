--------------------------- MODULE TraceSerdeWrap ---------------------------
(* I->S for C01: one line per leaf of a serialized random tree.  The backend call the REAL wrapper made for the  *)
(* leaf (recording serializer placed under conjure_serde::ser::Override, hook conjure_serde::verif) is given as  *)
(* a token:  {"ev":"leaf","fmt":"json"|"smile","path":[steps],"leaf":kind,"tok":{"k":..,"t":..}}                *)
EXTENDS SerdeWrap, Json, IOUtils
Rec == ndJsonDeserialize(IOEnv.TRACE)
VARIABLES l
TInit == l = 1
TLeaf == /\ l <= Len(Rec) /\ Rec[l].ev = "leaf" /\ l' = l + 1
         /\ LET r == Rec[l]
                pt == PropToken(r.fmt, InKey(r.path), r.leaf)
                p == pt.k = "Any" \/ r.tok = pt
                m == r.tok = MechToken(r.fmt, r.path, r.leaf)
            IN /\ (~p => PrintT(<<"PROPFAIL", ToJson([line |-> l])>>))
               /\ ((p /\ ~m) => PrintT(<<"MECHFAIL", ToJson([line |-> l, model |-> MechToken(r.fmt, r.path, r.leaf)])>>))
TSpec == TInit /\ [][TLeaf]_l
TraceAccepted == LET d == TLCGet("stats").diameter IN
                 IF d - 1 = Len(Rec) THEN TRUE ELSE Print(<<"UNMATCHED", ToJson([line |-> d])>>, FALSE)
=============================================================================
