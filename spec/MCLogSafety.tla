--------------------------- MODULE MCLogSafety ---------------------------
(* Exhaustive model check of Mech => Prop for C08 inside explicit bounds.  *)
(* Inputs are chosen in actions (Define, Order) so TLC's workers share the *)
(* enumeration; one Eval action per is_safe_arg call.                      *)
EXTENDS LogSafety, Json, IOUtils

CONSTANTS N,              \* number of named types 1..N
          MaxObjFields,   \* objects have 0..MaxObjFields fields
          MaxUnionFields, \* unions have 0..MaxUnionFields members
          MapExprs,       \* include map<k,v> expressions
          Kinds,          \* kinds of type definitions enumerated (subset of enum/alias/object/union)
          Bearer,         \* include the bearertoken atom
          Decls,          \* declared safeties usable on primitive fields (subset of safe/unsafe/dnl)
          ArgMode,        \* "perm": one undeclared arg per type in order 1..N; all evaluation orders
                          \*         are covered because the set of tables is closed under renaming
                          \* "free": any sequence of 1..MaxArgs args over the full arg alphabet
                          \* Either way the generator evaluates the list twice: once for the blocking
                          \* trait, once for the async trait (servers.rs), so Eval runs 2*Len(args) times.
          MaxArgs,
          EmitMod         \* emit a CASE line for tables whose structural hash = EmitRes mod EmitMod;
                          \* EmitRes comes from the environment (VERIF_SEED), default 0

VARIABLES tab, args, st, i, marked, phase
vars == <<tab, args, st, i, marked, phase>>

Refs == 1..N
EmitRes == IF "EMITRES" \in DOMAIN IOEnv THEN atoi(IOEnv.EMITRES) % EmitMod ELSE 0
Atoms == (IF Bearer THEN {BEARER} ELSE {}) \cup {PRIM} \cup Refs
Exprs == {<<a>> : a \in Atoms}
         \cup (IF MapExprs THEN {<<k, v>> : k \in {PRIM} \cup Refs, v \in Refs} ELSE {})

(* Conjure only allows a declared safety on (wrappers of) primitives *)
FieldDefs == [decl : {"undeclared"}, ty : Exprs]
             \cup [decl : Decls, ty : {<<PRIM>>}]

FieldSeqs(n) == UNION {[1..k -> FieldDefs] : k \in 0..n}

TypeDefs == (IF "enum" \in Kinds THEN {[kind |-> "enum", fields |-> <<>>]} ELSE {})
            \cup (IF "alias" \in Kinds THEN {[kind |-> "alias", fields |-> <<f>>] : f \in FieldDefs} ELSE {})
            \cup (IF "object" \in Kinds THEN {[kind |-> "object", fields |-> fs] : fs \in FieldSeqs(MaxObjFields)} ELSE {})
            \cup (IF "union" \in Kinds THEN {[kind |-> "union", fields |-> fs] : fs \in FieldSeqs(MaxUnionFields)} ELSE {})

(* map keys must be primitives, enums or aliases of those *)
KeyOk(tb, k) == k = PRIM \/ (k \in Refs /\ (tb[k].kind = "enum"
                    \/ (tb[k].kind = "alias" /\ tb[k].fields[1].ty = <<PRIM>>)))
(* the Conjure compiler rejects alias definitions that reach themselves through aliases only *)
AliasStep(tb, S) == S \cup {r \in Refs : \E t \in S : tb[t].kind = "alias"
                                  /\ \E k \in 1..Len(tb[t].fields[1].ty) : tb[t].fields[1].ty[k] = r}
RECURSIVE AliasReach(_, _)
AliasReach(tb, S) == LET S2 == AliasStep(tb, S) IN IF S2 = S THEN S ELSE AliasReach(tb, S2)
AliasAcyclic(tb) == \A t \in Refs : tb[t].kind = "alias" =>
                       t \notin AliasReach(tb, {r \in Refs : \E k \in 1..Len(tb[t].fields[1].ty) :
                                                              tb[t].fields[1].ty[k] = r})
ValidTab(tb) == /\ \A t \in 1..N : \A j \in 1..Len(tb[t].fields) :
                      LET e == tb[t].fields[j].ty IN Len(e) = 2 => KeyOk(tb, e[1])
                /\ AliasAcyclic(tb)

ArgDefs == [decl : {"undeclared", "safe", "unsafe", "dnl"}, legacy : BOOLEAN, ty : {<<a>> : a \in Atoms}]
PermArgs == [j \in 1..N |-> [decl |-> "undeclared", legacy |-> FALSE, ty |-> <<j>>]]
ArgAt(k) == args[((k - 1) % Len(args)) + 1]

Init == /\ tab = <<>> /\ args = <<>> /\ st = S0(N) /\ i = 1 /\ marked = <<>> /\ phase = "define"

Define == /\ phase = "define" /\ Len(tab) < N
          /\ \E d \in TypeDefs : tab' = Append(tab, d)
          /\ UNCHANGED <<args, st, i, marked, phase>>

OrderPerm == /\ phase = "define" /\ Len(tab) = N /\ ValidTab(tab) /\ ArgMode = "perm"
             /\ args' = PermArgs /\ phase' = "eval"
             /\ UNCHANGED <<tab, st, i, marked>>

OrderFree == /\ phase = "define" /\ Len(tab) = N /\ ValidTab(tab) /\ ArgMode = "free"
             /\ Len(args) < MaxArgs
             /\ \E a \in ArgDefs : args' = Append(args, a)
             /\ UNCHANGED <<tab, st, i, marked, phase>>

StartFree == /\ phase = "define" /\ Len(tab) = N /\ ArgMode = "free" /\ Len(args) >= 1
             /\ phase' = "eval"
             /\ UNCHANGED <<tab, args, st, i, marked>>

Eval == /\ phase = "eval" /\ i <= 2 * Len(args)
        /\ LET r == EvArg(tab, ArgAt(i), [st EXCEPT !.ev = <<>>]) IN
             /\ st' = [r.s EXCEPT !.ev = <<>>]
             /\ marked' = Append(marked, r.v)
        /\ i' = i + 1
        /\ UNCHANGED <<tab, args, phase>>

Finish == /\ phase = "eval" /\ i > 2 * Len(args) /\ phase' = "done"
          /\ UNCHANGED <<tab, args, st, i, marked>>

Next == Define \/ OrderPerm \/ OrderFree \/ StartFree \/ Eval \/ Finish
Spec == Init /\ [][Next]_vars

---------------------------------------------------------------------------
(* Mech => Prop *)
Expected == [j \in 1..Len(args) |-> RefSafeArg(tab, args[j])]
ExpAt(k) == Expected[((k - 1) % Len(args)) + 1]

Sound    == phase = "done" => \A k \in 1..Len(marked) : marked[k] => ExpAt(k)
Complete == phase = "done" => \A k \in 1..Len(marked) : ExpAt(k) => marked[k]
(* no in-progress mark or provisional value survives a top-level call *)
MemoClean == phase = "eval" =>
               /\ \A t \in 1..N : st.prog[t] = 0
               /\ st.low = INF
(* everything memoised is final for the "= safe" question *)
MemoSound == phase \in {"eval", "done"} =>
               \A t \in 1..N : st.memo[t] # "uncomputed" =>
                   ((st.memo[t] = "safe") <=> (t \in SafeTypes(tab)))

---------------------------------------------------------------------------
(* behaviours leave TLC as CASE lines (S->I replay) *)
FieldCode(f) == (CASE f.decl = "undeclared" -> 0 [] f.decl = "safe" -> 1 [] f.decl = "unsafe" -> 2 [] OTHER -> 3)
                + 5 * (f.ty[1] + 2) + 37 * (IF Len(f.ty) = 2 THEN f.ty[2] + 2 ELSE 0)
RECURSIVE SumSeq(_, _)
SumSeq(s, k) == IF k > Len(s) THEN 0 ELSE s[k] + SumSeq(s, k + 1)
TabHash == SumSeq([t \in 1..Len(tab) |->
              (t * 7919) * (Len(tab[t].fields) + 3 +
                 (CASE tab[t].kind = "enum" -> 11 [] tab[t].kind = "alias" -> 23
                    [] tab[t].kind = "object" -> 31 [] OTHER -> 43)
                 + SumSeq([j \in 1..Len(tab[t].fields) |-> (j * 101 + t) * FieldCode(tab[t].fields[j])], 1))], 1)
           + SumSeq([j \in 1..Len(args) |-> j * 13 * ((IF args[j].legacy THEN 5 ELSE 0) + FieldCode(args[j]))], 1)

(* every table on which the modelled mechanism and the reference disagree (used with Repaired = FALSE and no other invariant: *)
(* the order-sensitive tables - the ones on which a caching slip of any kind is most likely to show)                             *)
EmitDisagreeing == (phase = "done" /\ marked # Expected \o Expected) =>
           PrintT(<<"CASE", ToJson([tab |-> tab, args |-> args, mech |-> marked, ref |-> Expected])>>)
Emit == (phase = "done" /\ TabHash % EmitMod = EmitRes) =>
           PrintT(<<"CASE", ToJson([tab |-> tab, args |-> args, mech |-> marked, ref |-> Expected])>>)
=============================================================================
