SPECIFICATION Spec
CONSTANTS
  Args <- ArgsOptBody
  MaxFaults = 2
  EndpointName = "OptBody"
INVARIANTS Props Emit
CHECK_DEADLOCK FALSE
