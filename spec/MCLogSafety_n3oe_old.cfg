SPECIFICATION Spec
CONSTANTS
  N = 3
  Repaired = FALSE
  MaxObjFields = 2
  MaxUnionFields = 1
  MapExprs = FALSE
  Kinds = {"object","enum"}
  Bearer = FALSE
  Decls = {"safe","unsafe"}
  ArgMode = "perm"
  MaxArgs = 0
  EmitMod = 24
INVARIANTS EmitDisagreeing
CHECK_DEADLOCK FALSE
