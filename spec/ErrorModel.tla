--------------------------- MODULE ErrorModel ---------------------------
(***************************************************************************)
(* C17 - Errors encode faithfully; their parameters are partitioned by     *)
(*       declared safety.                                                  *)
(*                                                                         *)
(* An error definition is a sequence of parameters [name, safe, cls] in    *)
(* struct field order (safe args then unsafe args, errors.rs).  cls is the *)
(* class of the parameter's VALUE.                                         *)
(* Mech: conjure-error/src/lib.rs encode (ParametersSerializer -> Any per  *)
(* field -> StringSeed keeps bool/i64/u64/f64/str, drops everything else), *)
(* error.rs service_inner (safe iff safe_args.contains(name);              *)
(* propagated_* pass an empty list), status_code table.                    *)
(* Prop: one string entry per scalar-valued parameter, partition by        *)
(* declared safety, propagated => all unsafe, status table.                *)
(***************************************************************************)
EXTENDS Integers, Sequences, FiniteSets, TLC

Classes == {"string", "int", "safelong", "double", "doublenan", "bool", "uuid", "rid", "enum", "optpresent", "optabsent",
            "list", "map", "object", "binary"}
(* Prop: which parameter values are scalars (get an entry) *)
ScalarValued(c) == c \in {"string", "int", "safelong", "double", "doublenan", "bool", "uuid", "rid", "enum", "optpresent"}
(* Mech: the Any variant the value serializes to, and whether StringVisitor has a visit method for it *)
AnyTag(c) == CASE c \in {"string", "uuid", "rid", "enum"} -> "String"
               [] c = "int" -> "I32" [] c = "safelong" -> "I64" [] c \in {"double", "doublenan"} -> "F64" [] c = "bool" -> "Bool"
               [] c = "optpresent" -> "String"       \* Some(x) is transparent; the present value is a string here
               [] c = "optabsent" -> "Null" [] c = "list" -> "Seq" [] c \in {"map", "object"} -> "Map" [] OTHER -> "Bytes"
VisitorKeeps(tag) == tag \in {"Bool", "I8", "I16", "I32", "I64", "U8", "U16", "U32", "U64", "F32", "F64", "String", "Char"}

Names(ps) == {ps[i].name : i \in 1..Len(ps)}
MechEncoded(ps) == {ps[i].name : i \in {j \in 1..Len(ps) : VisitorKeeps(AnyTag(ps[j].cls))}}
PropEncoded(ps) == {ps[i].name : i \in {j \in 1..Len(ps) : ScalarValued(ps[j].cls)}}
SafeArgs(ps) == {ps[i].name : i \in {j \in 1..Len(ps) : ps[j].safe}}

(* service_inner *)
MechSafe(ps, propagated) == IF propagated THEN {} ELSE MechEncoded(ps) \cap SafeArgs(ps)
MechUnsafe(ps, propagated) == MechEncoded(ps) \ MechSafe(ps, propagated)
PropSafe(ps, propagated) == IF propagated THEN {} ELSE {n \in PropEncoded(ps) : n \in SafeArgs(ps)}
PropUnsafe(ps, propagated) == PropEncoded(ps) \ PropSafe(ps, propagated)

Status(code) == CASE code = "PERMISSION_DENIED" -> 403 [] code = "INVALID_ARGUMENT" -> 400 [] code = "NOT_FOUND" -> 404
                  [] code = "CONFLICT" -> 409 [] code = "REQUEST_ENTITY_TOO_LARGE" -> 413 [] code = "FAILED_PRECONDITION" -> 500
                  [] code = "INTERNAL" -> 500 [] code = "TIMEOUT" -> 500 [] code = "CUSTOM_CLIENT" -> 400 [] OTHER -> 500
=============================================================================
