SPECIFICATION Spec
CONSTANTS
  OptionalPlain = FALSE
INVARIANTS Transparent PlainAgrees FromIterAgrees Sound Emit
CHECK_DEADLOCK FALSE
