SPECIFICATION Spec
CONSTANTS
  N = 3
  MaxFields = 2
  EmitMod = 97
  WarmInSeedOrder = FALSE
  GenInSeedOrder = FALSE
INVARIANTS PlainIsValidInv EduceIfDirectInv NoSpuriousEduceInv Functional Emit
CHECK_DEADLOCK FALSE
