--------------------------- MODULE MCOrders ---------------------------
(* All triples of values of one type, for each type of a bounded universe. *)
EXTENDS Orders, Json
VARIABLES ty, a, b, c, phase
vars == <<ty, a, b, c, phase>>

DSyms == {"ninf", "m1.5", "nz", "pz", "1.5", "inf", "nan", "nan2"}
D4 == {"nan", "nz", "pz", "1.5"}
D3 == {"nan", "pz", "1.5"}
Dbls == {Dbl(s) : s \in DSyms}
Opts == {Val("none", "", <<>>)} \cup {Val("some", "", <<Dbl(s)>>) : s \in DSyms}
Lists == {Val("list", "", <<>>)} \cup {Val("list", "", <<Dbl(s)>>) : s \in D4}
         \cup {Val("list", "", <<Dbl(s), Dbl(t)>>) : s \in D4, t \in D4}
MapsStr == {Val("map", "", <<>>)} \cup {Val("map", "", <<Str(k), Dbl(s)>>) : k \in {"a", "b"}, s \in D3}
           \cup {Val("map", "", <<Str("a"), Dbl(s), Str("b"), Dbl(t)>>) : s \in D3, t \in D3}
(* double-keyed maps: keys are DoubleKey in increasing order, distinct under OrderedFloat *)
MapsDbl == {Val("map", "", <<>>)} \cup {Val("map", "", <<Dbl(k), Str("a")>>) : k \in {"nz", "pz", "1.5", "nan", "nan2"}}
           \cup {Val("map", "", <<Dbl(k), Str(x), Dbl("nan"), Str(y)>>) : k \in {"pz", "1.5"}, x \in {"a", "b"}, y \in {"a", "b"}}
Objs == {Val("obj", "", <<Dbl(s), o>>) : s \in D3, o \in {Val("none", "", <<>>), Val("some", "", <<Dbl("nan")>>), Val("some", "", <<Dbl("pz")>>)}}
        \cup {Val("obj", "", <<Dbl("nz"), Val("some", "", <<Dbl("nan2")>>)>>)}
Vars == {Val("var", "0", <<Dbl(s)>>) : s \in D4} \cup {Val("var", "1", <<l>>) : l \in {Val("list", "", <<>>), Val("list", "", <<Dbl("nan")>>), Val("list", "", <<Dbl("nan"), Dbl("pz")>>)}}
        \cup {Val("var", "2", <<Str("a")>>)}
Universe(t) == CASE t = "dbl" -> Dbls [] t = "opt" -> Opts [] t = "list" -> Lists [] t = "mapstr" -> MapsStr
                 [] t = "mapdbl" -> MapsDbl [] t = "obj" -> Objs [] OTHER -> Vars
Types == {"dbl", "opt", "list", "mapstr", "mapdbl", "obj", "var"}

Z == Dbl("pz")
Init == ty = "" /\ a = Z /\ b = Z /\ c = Z /\ phase = "type"
PickType == phase = "type" /\ (\E t \in Types : ty' = t) /\ phase' = "a" /\ UNCHANGED <<a, b, c>>
PickA == phase = "a" /\ (\E x \in Universe(ty) : a' = x) /\ phase' = "b" /\ UNCHANGED <<ty, b, c>>
PickB == phase = "b" /\ (\E x \in Universe(ty) : b' = x) /\ phase' = "c" /\ UNCHANGED <<ty, a, c>>
PickC == phase = "c" /\ (\E x \in Universe(ty) : c' = x) /\ phase' = "done" /\ UNCHANGED <<ty, a, b>>
Spec == Init /\ [][PickType \/ PickA \/ PickB \/ PickC]_vars

Laws == phase = "done" =>
          /\ Reflexive(a) /\ EqIffCmp(a, b) /\ Antisymmetric(a, b) /\ Transitive(a, b, c) /\ TransitiveEq(a, b, c)
          /\ HashConsistent(a, b) /\ NanGreatest(a)
          /\ Cmp(a, b) \in {-1, 0, 1}

(* one line per type: its value universe; the harness evaluates all pairs on the real generated types *)
EmitType == phase = "a" => PrintT(<<"CASE", ToJson([ty |-> ty, values |-> Universe(ty)])>>)
EmitPair == phase = "c" => PrintT(<<"PAIR", ToJson([ty |-> ty, a |-> a, b |-> b, cmp |-> Cmp(a, b), eq |-> Eq(a, b),
                                                      hasheq |-> HashKey(a) = HashKey(b)])>>)
=============================================================================
