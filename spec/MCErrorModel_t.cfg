SPECIFICATION Spec
CONSTANTS
  MaxSafe = 3
  MaxUnsafe = 3
  EmitMod = 200
INVARIANTS OneEntryPerScalar Partition PropagatedAllUnsafe Emit
CHECK_DEADLOCK FALSE
