--------------------------- MODULE MCBuilders ---------------------------
(* All objects of <= MaxFields fields x all builder call histories with <= MaxCalls calls on the complete stage. *)
EXTENDS Builders, Json, IOUtils
CONSTANTS MaxFields, MaxCalls, EmitMod,
          LastWriteWins    \* FALSE: a `set` on a collection field extends instead of replacing (self-test of BuiltMatches)
VARIABLES def, stage, vals, hist, phase, updated
vars == <<def, stage, vals, hist, phase, updated>>
EmitRes == IF "EMITRES" \in DOMAIN IOEnv THEN atoi(IOEnv.EMITRES) % EmitMod ELSE 0

Init == def = <<>> /\ stage = 0 /\ vals = <<>> /\ hist = <<>> /\ phase = "def" /\ updated = FALSE
AddField == phase = "def" /\ Len(def) < MaxFields /\ (\E k \in Kinds : def' = Append(def, k)) /\ UNCHANGED <<stage, vals, hist, phase, updated>>
Start == phase = "def" /\ Len(def) >= 1 /\ phase' = "building" /\ vals' = [i \in 1..Len(def) |-> Empty(def[i])] /\ UNCHANGED <<def, stage, hist, updated>>
(* stage k offers exactly one method: the setter of the k-th required field *)
Req == phase = "building" /\ stage < NReq(def)
       /\ LET f == RequiredIdx(def)[stage + 1] IN
          \E v \in SetValues(def[f]) : vals' = [vals EXCEPT ![f] = v] /\ hist' = Append(hist, [op |-> "req", f |-> f, v |-> v])
       /\ stage' = stage + 1 /\ UNCHANGED <<def, phase, updated>>
(* new(required...) = builder() + every required setter + build() *)
New == phase = "building" /\ stage = 0 /\ hist = <<>> /\ HasNew(def) /\ NReq(def) >= 1
       /\ (\E c \in Scalars : LET vs == [i \in 1..Len(def) |-> IF Required(def[i]) THEN <<c>> ELSE Empty(def[i])] IN
             vals' = vs /\ hist' = <<[op |-> "new", f |-> 0, v |-> <<c>>]>>)
       /\ stage' = NReq(def) /\ phase' = "built" /\ UNCHANGED <<def, updated>>
Complete == phase = "building" /\ stage = NReq(def)
NCalls == Cardinality({i \in 1..Len(hist) : hist[i].op \in {"set", "add", "extend"}})
MechApply(c) == IF ~LastWriteWins /\ c.op = "set" /\ def[c.f] \in {"list", "set", "map"}
                THEN Apply(def, vals, [c EXCEPT !.op = "extend"]) ELSE Apply(def, vals, c)
Call == Complete /\ NCalls < MaxCalls
        /\ \E f \in 1..Len(def) :
             \/ \E v \in SetValues(def[f]) : LET c == [op |-> "set", f |-> f, v |-> v] IN vals' = MechApply(c) /\ hist' = Append(hist, c)
             \/ def[f] \in {"list", "set", "map"} /\ \E x \in Scalars : LET c == [op |-> "add", f |-> f, v |-> <<x>>] IN vals' = MechApply(c) /\ hist' = Append(hist, c)
             \/ def[f] \in {"list", "set", "map"} /\ \E v \in {<<1>>, <<2, 1>>} : LET c == [op |-> "extend", f |-> f, v |-> v] IN vals' = MechApply(c) /\ hist' = Append(hist, c)
        /\ UNCHANGED <<def, stage, phase, updated>>
Build == Complete /\ phase' = "built" /\ UNCHANGED <<def, stage, vals, hist, updated>>
(* Builder::from(object): back to the complete stage with the object's values *)
Update == phase = "built" /\ ~updated /\ NCalls < MaxCalls /\ updated' = TRUE /\ phase' = "building"
          /\ hist' = Append(hist, [op |-> "from", f |-> 0, v |-> <<>>]) /\ UNCHANGED <<def, stage, vals>>
Spec == Init /\ [][AddField \/ Start \/ Req \/ New \/ Call \/ Build \/ Update]_vars

(* ---- property layer: the object as a function of the call history ---- *)
RECURSIVE Fold(_, _, _)
Fold(d, v, h) == IF h = <<>> THEN v ELSE
                 LET c == Head(h) IN
                 Fold(d, CASE c.op = "req" -> [v EXCEPT ![c.f] = c.v]
                           [] c.op = "new" -> [i \in 1..Len(d) |-> IF Required(d[i]) THEN c.v ELSE v[i]]
                           [] c.op = "from" -> v
                           [] OTHER -> Apply(d, v, c), Tail(h))
Final == Fold(def, [i \in 1..Len(def) |-> Empty(def[i])], hist)
BuiltMatches == phase = "built" => vals = Final
(* a built object has every required field set, and they were set in declaration order before anything else *)
RequiredSet == phase = "built" => \A i \in 1..Len(def) : Required(def[i]) => vals[i] # <<0>>
StageOrder == \A i \in 1..Len(hist) : hist[i].op = "req" => (i <= NReq(def) /\ hist[i].f = RequiredIdx(def)[i])

KindCode(k) == CASE k = "int" -> 1 [] k = "str" -> 2 [] k = "opt" -> 3 [] k = "list" -> 4 [] k = "set" -> 5 [] k = "map" -> 6 [] OTHER -> 7
OpCode(o) == CASE o = "req" -> 1 [] o = "set" -> 2 [] o = "add" -> 3 [] o = "extend" -> 4 [] o = "from" -> 5 [] OTHER -> 6
RECURSIVE SumSeq(_, _)
SumSeq(s, k) == IF k > Len(s) THEN 0 ELSE s[k] + SumSeq(s, k + 1)
Hash == SumSeq([i \in 1..Len(def) |-> (i * 13 + 1) * KindCode(def[i])], 1)
        + SumSeq([i \in 1..Len(hist) |-> (i * 7 + 3) * (OpCode(hist[i].op) + 5 * hist[i].f + 11 * Len(hist[i].v) + (IF hist[i].v # <<>> THEN hist[i].v[1] ELSE 0))], 1)
Emit == (phase = "built" /\ Hash % EmitMod = EmitRes) =>
          PrintT(<<"CASE", ToJson([def |-> def, hist |-> hist, final |-> vals, has_new |-> HasNew(def)])>>)
=============================================================================
