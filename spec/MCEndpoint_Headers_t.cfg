SPECIFICATION Spec
CONSTANTS
  Args <- ArgsHeaders
  MaxFaults = 3
  EndpointName = "Headers"
INVARIANTS Props Emit
CHECK_DEADLOCK FALSE
