SPECIFICATION Spec
CONSTANTS
  Args <- ArgsHeadersMacro
  MaxFaults = 3
  EndpointName = "HeadersMacro"
INVARIANTS Props Emit
CHECK_DEADLOCK FALSE
