SPECIFICATION Spec
CONSTANTS
  MaxFields = 2
  MaxCalls = 2
  EmitMod = 61
  LastWriteWins = TRUE
INVARIANTS BuiltMatches RequiredSet StageOrder Emit
CHECK_DEADLOCK FALSE
