SPECIFICATION Spec
CONSTANTS
  Mode = "shapes"
  MaxUriLen = 65534
  MaxQ = 2
  EmitMod = 6
INVARIANTS NoPanic Syntax Structure Emit
CHECK_DEADLOCK FALSE
