--------------------------- MODULE ClientRequest ---------------------------
(***************************************************************************)
(* Extension X04: the request a generated client assembles                  *)
(* (conjure-codegen/src/clients.rs setup_request / setup_response_headers / *)
(* setup_auth / setup_headers, conjure-http/src/private/client/mod.rs       *)
(* the encode_ helpers).  The URI is the business of UriCodec.tla; this module is about *)
(* method, representation headers, credentials, header arguments and the    *)
(* body kind.                                                               *)
(*                                                                          *)
(* Prop (Conjure wire specification, RFC 7231):                             *)
(*   a serializable body is announced as application/json with its exact    *)
(*   length, a streamed binary body as application/octet-stream without a   *)
(*   length, no body = neither header; Accept names the representation the  *)
(*   client can decode (application/json, also for unit returns so that an  *)
(*   error body is readable; application/octet-stream for binary returns);  *)
(*   credentials are `Authorization: Bearer <token>` or `Cookie:            *)
(*   <name>=<token>` and nothing else; a header argument yields exactly one *)
(*   line when it has a value and none when it is an absent optional.       *)
(***************************************************************************)
EXTENDS Integers, Sequences, FiniteSets, TLC

BodyClasses == {"none", "json", "optjson-absent", "optjson-present", "binary"}
ReturnClasses == {"none", "json", "binary", "optbinary"}
AuthKinds == {"none", "header", "cookie"}
(* a header argument: required, or optional with / without a value *)
HeaderArgs == {"required", "opt-present", "opt-absent"}

(* ---- Mech: the call sequence the generator emits ---- *)
MechContentType(b) == CASE b = "none" -> "absent" [] b = "binary" -> "application/octet-stream" [] OTHER -> "application/json"
(* encode_serializable_request sets Content-Length (an absent optional is the 4-byte document `null`) *)
MechHasLength(b) == b \in {"json", "optjson-absent", "optjson-present"}
MechBodyKind(b) == CASE b = "none" -> "empty" [] b = "binary" -> "streaming" [] OTHER -> "fixed"
MechAccept(r) == IF r \in {"binary", "optbinary"} THEN "application/octet-stream" ELSE "application/json"
MechAuth(a) == CASE a = "header" -> <<"authorization", "Bearer ">> [] a = "cookie" -> <<"cookie", "name=">> [] OTHER -> <<>>
MechHeaderLines(h) == IF h = "opt-absent" THEN 0 ELSE 1

(* ---- Prop ---- *)
PropContentType(b) == IF b = "none" THEN {"absent"} ELSE IF b = "binary" THEN {"application/octet-stream"} ELSE {"application/json"}
PropLength(b) == IF b = "none" THEN {FALSE} ELSE IF b = "binary" THEN {FALSE, TRUE} ELSE {TRUE}
PropAccept(r) == IF r \in {"binary", "optbinary"} THEN {"application/octet-stream"} ELSE {"application/json"}
PropHeaderLines(h) == IF h = "opt-absent" THEN {0} ELSE {1}

RequestOk(b, r, a, h) ==
    /\ MechContentType(b) \in PropContentType(b)
    /\ MechHasLength(b) \in PropLength(b)
    /\ MechAccept(r) \in PropAccept(r)
    /\ MechHeaderLines(h) \in PropHeaderLines(h)
    /\ (a = "none" <=> MechAuth(a) = <<>>)
=============================================================================
