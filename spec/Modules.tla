--------------------------- MODULE Modules ---------------------------
(***************************************************************************)
(* C03 (naming / module structure part) - generated module trees are well  *)
(*      formed: distinct item names per module, every cross-type path      *)
(*      resolves, no emitted identifier is a Rust keyword.                 *)
(* C20 - the emitted tree is a FUNCTION of (definition, configuration):    *)
(*      file set and the item order of every mod.rs.                       *)
(*                                                                         *)
(* Mech: conjure-codegen/src/context.rs ident_name (snake case + keyword   *)
(* table + "_" suffix), module_path (package components through ident_name,*)
(* strip_prefix when it is a prefix), type_path (super chain + suffix),    *)
(* lib.rs ModuleTrie (types: Vec in IR order - types, errors, services;    *)
(* submodules: BTreeMap) and create_root_module (pub use per type in order,*)
(* pub mod per type in order, pub mod per submodule sorted).               *)
(*                                                                         *)
(* A definition is a sequence of items [pkg, name] in IR order; pkg is a   *)
(* sequence of package components; name a type name.  Case conversion is a *)
(* table over the curated vocabulary (heck is trusted; the harness         *)
(* re-checks the table against the real generator's output).               *)
(***************************************************************************)
EXTENDS Integers, Sequences, FiniteSets, SequencesExt, TLC

CONSTANTS GeneratorKeywords   \* the words ident_name suffixes with "_"

(* the Rust language's keywords that cannot be used as an identifier (2018+ editions) *)
RustKeywords == {"as", "break", "const", "continue", "crate", "else", "enum", "extern", "false", "fn", "for", "if", "impl", "in",
                 "let", "loop", "match", "mod", "move", "mut", "pub", "ref", "return", "self", "static", "struct", "super",
                 "trait", "true", "type", "unsafe", "use", "where", "while", "async", "await", "dyn",
                 "abstract", "become", "box", "do", "final", "macro", "override", "priv", "typeof", "unsized", "virtual",
                 "yield", "try"}

(* snake case of the vocabulary's type names (heck::ToSnakeCase) *)
Snake(n) == CASE n = "Foo" -> "foo" [] n = "Bar" -> "bar" [] n = "FooBar" -> "foo_bar" [] n = "Type" -> "type" [] n = "Try" -> "try"
              [] n = "Async" -> "async" [] n = "Mod" -> "mod" [] n = "P" -> "p" [] n = "Q" -> "q" [] n = "Oops" -> "oops" [] n = "Svc" -> "svc"
              [] OTHER -> n
Esc(w) == IF w \in GeneratorKeywords THEN w \o "_" ELSE w
ModName(item) == Esc(Snake(item.name))

IsPrefixOf(p, s) == Len(p) <= Len(s) /\ \A i \in 1..Len(p) : p[i] = s[i]
RawPath(pkg) == [i \in 1..Len(pkg) |-> Esc(pkg[i])]
ModulePath(item, prefix) == LET raw == RawPath(item.pkg) sp == RawPath(prefix) IN
                            IF IsPrefixOf(sp, raw) THEN SubSeq(raw, Len(sp) + 1, Len(raw)) ELSE raw

(* directories of the emitted tree: every prefix of every module path *)
Dirs(def, prefix) == UNION {{SubSeq(ModulePath(def[i], prefix), 1, k) : k \in 0..Len(ModulePath(def[i], prefix))} : i \in 1..Len(def)}
TypeMods(def, prefix, d) == SelectSeq([i \in 1..Len(def) |-> IF ModulePath(def[i], prefix) = d THEN ModName(def[i]) ELSE ""],
                                      LAMBDA m : m # "")
SubMods(def, prefix, d) == {ModulePath(def[i], prefix)[Len(d) + 1] :
                               i \in {j \in 1..Len(def) : Len(ModulePath(def[j], prefix)) > Len(d) /\ IsPrefixOf(d, ModulePath(def[j], prefix))}}

(* N1: items declared in one emitted module have pairwise distinct names *)
DistinctItems(def, prefix) ==
    \A d \in Dirs(def, prefix) :
        LET tm == TypeMods(def, prefix, d) IN
        /\ \A i, j \in 1..Len(tm) : i # j => tm[i] # tm[j]
        /\ \A i \in 1..Len(tm) : tm[i] \notin SubMods(def, prefix, d)

(* N2: type_path(A, B) resolved from A's module reaches B's module *)
Shared(pa, pb) == LET RECURSIVE S(_) S(k) == IF k < Len(pa) /\ k < Len(pb) /\ pa[k + 1] = pb[k + 1] THEN S(k + 1) ELSE k IN S(0)
TypePathResolves(def, prefix, a, b) ==
    LET pa == ModulePath(def[a], prefix) pb == ModulePath(def[b], prefix) sh == Shared(pa, pb)
        supers == 1 + (Len(pa) - sh)
        \* start inside A's type module (pa ++ modA); each super strips one component
        start == Append(pa, ModName(def[a]))
        up == SubSeq(start, 1, Len(start) - supers)
        down == up \o SubSeq(pb, sh + 1, Len(pb))
    IN Len(start) >= supers /\ down = pb

(* N5: what the generator emits for a word is never a keyword of the language *)
NoKeywordEmitted(words) == \A w \in words : Esc(w) \notin RustKeywords

---------------------------------------------------------------------------
(* C20: the tree as a function *)
(* byte-wise order of the vocabulary's module names (BTreeMap<String, _> iteration order) *)
WordRank(w) == CASE w = "async" -> 1 [] w = "async_" -> 2 [] w = "bar" -> 3 [] w = "com" -> 4 [] w = "foo" -> 5 [] w = "foo_bar" -> 6
                 [] w = "mod" -> 7 [] w = "mod_" -> 8 [] w = "org" -> 9 [] w = "p" -> 10 [] w = "q" -> 11 [] w = "try" -> 12
                 [] w = "try_" -> 13 [] w = "type" -> 14 [] w = "type_" -> 15 [] OTHER -> 99
RECURSIVE SortedSeq(_)
SortedSeq(S) == IF S = {} THEN <<>> ELSE LET m == CHOOSE x \in S : \A y \in S : WordRank(x) <= WordRank(y) IN <<m>> \o SortedSeq(S \ {m})
(* mod.rs of directory d: the module names it declares, in order: type modules (IR order), then submodules (sorted) *)
ModRsMods(def, prefix, d) == TypeMods(def, prefix, d) \o SortedSeq(SubMods(def, prefix, d))
=============================================================================
