--------------------------- MODULE MCAliasCaps ---------------------------
(* every wrapper chain of length <= MaxWrap over every base shape *)
EXTENDS AliasCaps, Json
CONSTANT MaxWrap
VARIABLES ws, base, phase
vars == <<ws, base, phase>>

Init == ws = <<>> /\ base = "string" /\ phase = "pick"
Wrap == phase = "pick" /\ Len(ws) < MaxWrap /\ (\E w \in Wrappers : ws' = <<w>> \o ws /\ WellFormed(ws')) /\ UNCHANGED <<base, phase>>
Base == phase = "pick" /\ (\E b \in Bases : base' = b) /\ phase' = "done" /\ UNCHANGED ws
Spec == Init /\ [][Wrap \/ Base]_vars

Transparent == phase = "done" => \A c \in Caps : MechCap(c, ws, base) = MechCap(c, Dealias(ws), base)
PlainAgrees == phase = "done" => MechCap("plain", ws, base) = PropPlain(ws, base)
FromIterAgrees == phase = "done" => MechCap("fromiter", ws, base) = PropFromIter(ws, base)
Sound == phase = "done" => \A c \in {"copy", "default", "display"} : MechCap(c, ws, base) => RustHas(c, ws, base)
Emit == phase = "done" => PrintT(<<"CASE", ToJson([ws |-> ws, base |-> base, dealiased |-> Dealias(ws),
                                                   plain |-> PropPlain(ws, base), fromiter |-> PropFromIter(ws, base),
                                                   mech |-> [c \in Caps |-> MechCap(c, ws, base)]])>>)
=============================================================================
