SPECIFICATION TSpec
CONSTANTS
  MaxUriLen = 65534
POSTCONDITION TraceAccepted
CHECK_DEADLOCK FALSE
