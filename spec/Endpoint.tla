--------------------------- MODULE Endpoint ---------------------------
(***************************************************************************)
(* C04 - A client call reaches the matching server handler with identical  *)
(*       arguments.                                                        *)
(* C09 - Data of arguments not declared safe never reaches any safe-to-log *)
(*       channel.                                                          *)
(* C19 - Undecodable request parameters yield a client error naming the    *)
(*       declared argument.                                                *)
(*                                                                         *)
(* One behaviour = one call of one endpoint.  Args is the endpoint's       *)
(* argument list in the order the generated/macro handler decodes them     *)
(* (auth first, then declaration order, conjure-macros/src/endpoints.rs):  *)
(*   [name  |-> declared name (the Conjure argName / log_as),              *)
(*    kind  |-> "auth" | "path" | "query" | "header" | "body",            *)
(*    card  |-> "one" | "opt" | "many",                                    *)
(*    typed |-> TRUE iff some text does not parse as the type,             *)
(*    safe  |-> marked safe-to-log]                                        *)
(* out[i] is what the request carries for argument i.                      *)
(*                                                                         *)
(* Mech: the decode pipeline - per argument the decode site in             *)
(* conjure-http/src/private/server.rs + server/mod.rs + server/conjure.rs  *)
(* with the constructor it uses (service = unsafe cause, service_safe =     *)
(* safe cause), what the cause message is built from, the safe `param`      *)
(* entry, the SafeParams insert after each safe argument, one handler call. *)
(* Prop: NoHandlerOnFailure, Code, ParamIsDeclaredName, NoSpuriousError,    *)
(* NoLeak, SafeRecorded, ExactlyOnce.                                       *)
(***************************************************************************)
EXTENDS Integers, Sequences, FiniteSets, TLC

CONSTANT Args

N == Len(Args)

(* what the wire can carry for an argument, by kind and cardinality *)
Outcomes(a) ==
    (* nodelim: the credential without any scheme delimiter ("Authorization: <token>", "Bearer<token>", "Cookie: <token>") *)
    CASE a.kind = "auth" -> {"ok", "absent", "nontext", "badprefix", "badtoken", "nodelim"}
      [] a.kind = "body" -> {"ok", "malformed", "wrongctype", "noctype"}
      [] a.kind = "path" -> {"ok"} \cup (IF a.typed THEN {"unparsable"} ELSE {})
      (* a path parameter behind a regex segment: a raw request can put several segments there ("multi") *)
      [] a.kind = "rpath" -> {"ok", "multi"} \cup (IF a.typed THEN {"unparsable"} ELSE {})
      [] a.kind = "query" /\ a.card = "one" -> {"ok", "absent", "repeated"} \cup (IF a.typed THEN {"unparsable"} ELSE {})
      [] a.kind = "query" /\ a.card = "opt" -> {"ok", "absent", "repeated"} \cup (IF a.typed THEN {"unparsable"} ELSE {})
      [] a.kind = "query" /\ a.card = "many" -> {"ok", "absent", "repeated"} \cup (IF a.typed THEN {"unparsable"} ELSE {})
      [] a.kind = "header" /\ a.card = "one" -> {"ok", "absent", "repeated", "nontext"} \cup (IF a.typed THEN {"unparsable"} ELSE {})
      [] OTHER -> {"ok", "absent", "repeated", "nontext"} \cup (IF a.typed THEN {"unparsable"} ELSE {})

(* Prop: is this outcome a decode failure?  "absent" is fine for optional and list arguments, "repeated" for lists *)
Fails(a, o) ==
    CASE o = "ok" -> FALSE
      [] o = "absent" -> a.card = "one" \/ a.kind = "auth"
      [] o = "repeated" -> a.card # "many"
      [] o = "multi" -> a.card # "many"            \* several raw segments are several elements of a list-valued path parameter
      [] o = "noctype" -> a.card # "opt"          \* an optional body without Content-Type is absent
      [] OTHER -> TRUE

---------------------------------------------------------------------------
(* Mech: the decode site reached for (argument, outcome): [fails, code, ctor, msg, param] *)
Site(a, o) ==
    IF ~Fails(a, o) THEN [fails |-> FALSE, code |-> "", ctor |-> "", msg |-> "", param |-> ""]
    ELSE IF a.kind = "auth"
    THEN [fails |-> TRUE, code |-> "PERMISSION_DENIED", ctor |-> "safe",      \* parse_auth_inner: service_safe with
          msg |-> "const", param |-> ""]                                       \* constant messages / ToStrError / ParseError
    ELSE IF a.kind = "body"
    THEN [fails |-> TRUE, code |-> "INVALID_ARGUMENT",
          ctor |-> IF o \in {"wrongctype", "noctype"} THEN "safe" ELSE "unsafe",   \* request_body_encoding: service_safe(const)
          msg |-> IF o \in {"wrongctype", "noctype"} THEN "const" ELSE "input",    \* deserialize: service(serde error)
          param |-> a.name]
    ELSE [fails |-> TRUE, code |-> "INVALID_ARGUMENT",
          ctor |-> IF o \in {"absent", "repeated", "multi"} THEN "safe" ELSE "unsafe",      \* only_item/optional_item: service_safe(const)
          msg |-> IF o \in {"absent", "repeated", "multi"} THEN "const" ELSE "input",       \* parse / to_str: service(error)
          param |-> a.name]

FirstFailure(out) == IF \E i \in 1..N : Fails(Args[i], out[i])
                     THEN CHOOSE i \in 1..N : Fails(Args[i], out[i]) /\ \A j \in 1..(i - 1) : ~Fails(Args[j], out[j])
                     ELSE 0
(* arguments decoded before the first failure (all of them if none fails) *)
Decoded(out) == LET f == FirstFailure(out) IN IF f = 0 THEN 1..N ELSE 1..(f - 1)
MechHandlerCalls(out) == IF FirstFailure(out) = 0 THEN 1 ELSE 0
MechSafeParams(out) == {Args[i].name : i \in {j \in Decoded(out) : Args[j].safe /\ Args[j].kind # "auth"}}
MechError(out) == LET f == FirstFailure(out) IN IF f = 0 THEN Site(Args[1], "ok") ELSE Site(Args[f], out[f])

---------------------------------------------------------------------------
(* Prop *)
AnyFails(out) == \E i \in 1..N : Fails(Args[i], out[i])
NoHandlerOnFailure(out) == AnyFails(out) => MechHandlerCalls(out) = 0
ExactlyOnce(out) == ~AnyFails(out) => MechHandlerCalls(out) = 1
NoSpuriousError(out) == ~AnyFails(out) => ~MechError(out).fails
CodeOk(out) == AnyFails(out) =>
    LET f == FirstFailure(out) e == MechError(out) IN
    e.fails /\ e.code = (IF Args[f].kind = "auth" THEN "PERMISSION_DENIED" ELSE "INVALID_ARGUMENT")
ParamIsDeclaredName(out) == AnyFails(out) =>
    LET f == FirstFailure(out) IN Args[f].kind \in {"path", "rpath", "query", "header"} => MechError(out).param = Args[f].name
(* taint: a safe cause must not be built from input; the safe parameter set holds only safe, decoded, non-auth arguments *)
NoLeak(out) == /\ (MechError(out).fails /\ MechError(out).ctor = "safe" => MechError(out).msg = "const")
               /\ \A n \in MechSafeParams(out) : \E i \in Decoded(out) : Args[i].name = n /\ Args[i].safe /\ Args[i].kind # "auth"
SafeRecorded(out) == \A i \in Decoded(out) : (Args[i].safe /\ Args[i].kind # "auth") => Args[i].name \in MechSafeParams(out)
---------------------------------------------------------------------------
(* C04: what a parameter position can carry.  Value classes of text; Carry = what the code does with it, Allowed =  *)
(* what the property permits ("refused by the client or the server, never delivered altered").                      *)
(* "escaped": text that LOOKS percent- or form-encoded ("%41", "a%2Fb", "%2541", "a+b") - it must arrive literally *)
TextClasses == {"plain", "empty", "reserved", "escaped", "unicode", "long", "space_edges", "ctl", "obstext"}
Carry(kind, cls) ==
    IF kind = "header"
    THEN CASE cls = "ctl" -> "client-refuses"            \* HeaderValue::try_from rejects control characters
           [] cls \in {"unicode", "obstext"} -> "server-refuses"    \* HeaderValue carries the bytes, to_str() rejects them
           [] cls = "empty" -> "equal"
           [] OTHER -> "equal"
    ELSE "equal"                                          \* path / query / body: percent-encoding / JSON carry any text
Allowed(kind, cls) ==
    IF kind = "header" /\ cls \in {"ctl", "unicode", "obstext", "space_edges"} THEN {"equal", "client-refuses", "server-refuses"}
    ELSE {"equal"}
=============================================================================
