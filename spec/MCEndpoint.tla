--------------------------- MODULE MCEndpoint ---------------------------
(* All outcome vectors with at most MaxFaults non-ok entries, for the endpoints of the generated Matrix service. *)
EXTENDS Endpoint, Json
CONSTANTS MaxFaults, EndpointName
VARIABLES out, phase
vars == <<out, phase>>

A(name, kind, card, typed, safe) == [name |-> name, kind |-> kind, card |-> card, typed |-> typed, safe |-> safe]
ArgsSafeMix == << A("auth", "auth", "one", TRUE, FALSE), A("safePath", "path", "one", FALSE, TRUE), A("unsafePath", "path", "one", FALSE, FALSE),
                  A("safeQuery", "query", "one", FALSE, TRUE), A("unsafeQuery", "query", "one", FALSE, FALSE),
                  A("safeHeader", "header", "one", FALSE, TRUE), A("unsafeHeader", "header", "one", FALSE, FALSE),
                  A("dnlQuery", "query", "opt", FALSE, FALSE), A("safeInt", "query", "opt", TRUE, TRUE), A("body", "body", "one", TRUE, FALSE) >>
ArgsNames == << A("type", "path", "one", TRUE, FALSE), A("fooBar", "path", "one", TRUE, FALSE), A("async", "query", "one", TRUE, FALSE),
                A("camelCase", "query", "opt", TRUE, FALSE), A("self", "header", "one", TRUE, FALSE),
                A("snakeArg", "query", "many", TRUE, FALSE), A("match", "header", "opt", TRUE, FALSE) >>
ArgsNamesMacro == << A("type", "path", "one", TRUE, FALSE), A("fooBar", "path", "one", TRUE, TRUE), A("async", "query", "one", TRUE, FALSE),
                     A("camelCase", "query", "opt", TRUE, TRUE), A("self", "header", "one", TRUE, FALSE),
                     A("snakeArg", "query", "many", TRUE, FALSE), A("match", "header", "opt", TRUE, TRUE) >>
ArgsHeaders == << A("hs", "header", "one", FALSE, FALSE), A("ho", "header", "opt", TRUE, FALSE), A("hu", "header", "one", TRUE, FALSE),
                  A("ha", "header", "one", FALSE, FALSE), A("he", "header", "opt", TRUE, TRUE), A("hd", "header", "one", TRUE, FALSE) >>
ArgsHeadersMacro == << A("hs", "header", "one", FALSE, FALSE), A("ho", "header", "opt", TRUE, FALSE), A("hu", "header", "one", TRUE, FALSE),
                       A("ha", "header", "one", FALSE, FALSE), A("he", "header", "opt", FALSE, TRUE), A("hd", "header", "one", TRUE, FALSE) >>
(* macro endpoints over a user type whose parse error echoes the input: every FromStr* / FromPlain* decoder site *)
ArgsEcho == << A("pe", "path", "one", TRUE, FALSE), A("qe", "query", "one", TRUE, FALSE), A("qo", "query", "opt", TRUE, FALSE),
               A("ql", "query", "many", TRUE, FALSE), A("he", "header", "one", TRUE, FALSE), A("ho", "header", "opt", TRUE, FALSE),
               A("pq", "query", "one", TRUE, FALSE), A("po", "query", "opt", TRUE, FALSE), A("pl", "query", "many", TRUE, FALSE),
               A("ph", "header", "one", TRUE, FALSE), A("pho", "header", "opt", TRUE, FALSE) >>
(* macro endpoint exercising attribute forms: path parameters without `name`, log_as equal to ANOTHER parameter's template name *)
ArgsAttrs == << A("b", "path", "one", TRUE, TRUE), A("bee", "path", "one", TRUE, FALSE), A("sea", "path", "one", TRUE, FALSE),
                A("pq", "query", "one", TRUE, TRUE), A("hh", "header", "one", TRUE, FALSE), A("ls", "query", "many", FALSE, FALSE) >>
(* the generated pathParams endpoint: one path parameter per PLAIN type (s and a are plain / alias-of strings: never unparsable) *)
ArgsPath == << A("s", "path", "one", FALSE, FALSE), A("i", "path", "one", TRUE, FALSE), A("d", "path", "one", TRUE, FALSE), A("b", "path", "one", TRUE, FALSE),
               A("u", "path", "one", TRUE, FALSE), A("r", "path", "one", TRUE, FALSE), A("l", "path", "one", TRUE, FALSE), A("t", "path", "one", TRUE, FALSE),
               A("e", "path", "one", TRUE, TRUE), A("a", "path", "one", FALSE, FALSE) >>      \* an enum is safe by type
ArgsIds == << A("ids", "rpath", "many", TRUE, FALSE) >>
ArgsRegex == << A("n", "rpath", "one", TRUE, FALSE) >>
ArgsQuery == << A("qs", "query", "one", FALSE, FALSE), A("qo", "query", "opt", TRUE, FALSE), A("ql", "query", "many", TRUE, FALSE),
                A("qset", "query", "many", FALSE, FALSE), A("qe", "query", "opt", TRUE, TRUE), A("qa", "query", "opt", TRUE, FALSE),
                A("qoa", "query", "opt", FALSE, FALSE), A("qb", "query", "many", TRUE, FALSE) >>
ArgsAuthCookie == << A("auth", "auth", "one", TRUE, FALSE) >>
(* the generated ctxCall endpoint (request context): strings only - nothing is unparsable, but a header value can fail to be text; *)
(* hoa is an ALIAS of optional<string> (FromDecoder around the optional decoder)                                                    *)
ArgsCtx == << A("p", "path", "one", FALSE, FALSE), A("hoa", "header", "opt", FALSE, FALSE), A("q", "query", "opt", FALSE, FALSE) >>
ArgsOptBody == << A("body", "body", "opt", TRUE, FALSE) >>
ArgsSafeBody == << A("body", "body", "one", TRUE, TRUE), A("n", "query", "one", TRUE, FALSE) >>

Faults(o) == Cardinality({i \in 1..Len(o) : o[i] # "ok"})
Init == out = <<>> /\ phase = "pick"
Pick == /\ phase = "pick" /\ Len(out) < N
        /\ \E o \in Outcomes(Args[Len(out) + 1]) : (o # "ok" => Faults(out) < MaxFaults) /\ out' = Append(out, o)
        /\ UNCHANGED phase
Done == phase = "pick" /\ Len(out) = N /\ phase' = "done" /\ UNCHANGED out
Spec == Init /\ [][Pick \/ Done]_vars

CarryAllowed == \A k \in {"path", "query", "header", "body"} : \A c \in TextClasses : Carry(k, c) \in Allowed(k, c)
ASSUME CarryAllowed

Props == phase = "done" =>
           /\ NoHandlerOnFailure(out) /\ ExactlyOnce(out) /\ NoSpuriousError(out) /\ CodeOk(out) /\ ParamIsDeclaredName(out)
           /\ NoLeak(out) /\ SafeRecorded(out)
Emit == phase = "done" =>
          PrintT(<<"CASE", ToJson([endpoint |-> EndpointName, args |-> Args, out |-> out, first |-> FirstFailure(out),
                                   err |-> MechError(out), calls |-> MechHandlerCalls(out), safe |-> MechSafeParams(out)])>>)
=============================================================================
