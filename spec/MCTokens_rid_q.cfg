SPECIFICATION Spec
CONSTANTS
  Mode = "rid"
  MaxLen = 1
  EmitMod = 3
INVARIANTS TokenExact RidExact RidPartsJoin ComponentsExact Emit
CHECK_DEADLOCK FALSE
