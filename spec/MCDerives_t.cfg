SPECIFICATION Spec
CONSTANTS
  N = 3
  MaxFields = 3
  EmitMod = 997
  WarmInSeedOrder = FALSE
  GenInSeedOrder = FALSE
INVARIANTS PlainIsValidInv EduceIfDirectInv NoSpuriousEduceInv Functional Emit
CHECK_DEADLOCK FALSE
