--------------------------- MODULE WireFormat ---------------------------
(***************************************************************************)
(* C02 - Generated types read and write the Conjure wire format for every  *)
(*       definition.                                                       *)
(* C10 - Unknown enum values and union variants survive a round trip       *)
(*       unless exhaustive.                                                *)
(*                                                                         *)
(* A field type ("shape") is [c, p, kids]:                                 *)
(*   c = "prim" (p = primitive name), "opt", "list", "set", "map" (kids =  *)
(*   <<key, value>>), "ref" (p = "obj" | "enum" | "union"), "alias",       *)
(*   "ext" (external import, kids = <<fallback>>).                         *)
(* The object under test is  O { f : shape }.                              *)
(*                                                                         *)
(* Prop (Reference): the Conjure wire specification read on the DEALIASED  *)
(*   type: optional/list/set/map may be absent (-> empty), everything else *)
(*   is required; null only for optionals; no kind casting; range and      *)
(*   grammar checks; empty optionals/collections are omitted on output     *)
(*   unless serializeEmptyCollections.                                     *)
(* Mech: the recursive predicates of conjure-codegen/src/context.rs        *)
(*   (is_required, is_empty_method, dealiased_type - each recursing        *)
(*   through alias and external), the attributes objects.rs derives from   *)
(*   them (default, skip_serializing_if) and serde_derive's meaning of     *)
(*   those attributes.  AliasFuel bounds how many alias/external layers    *)
(*   the predicates look through (unbounded in the code; a model with      *)
(*   fuel 1 is the "stops at the first alias" bug and must FAIL).          *)
(***************************************************************************)
EXTENDS Integers, Sequences, FiniteSets, TLC

CONSTANTS AliasFuel,        \* how many alias/external layers the generator's predicates see through
          SerializeEmpty    \* the serializeEmptyCollections configuration flag

Sh(c, p, kids) == [c |-> c, p |-> p, kids |-> kids]
Prim(p) == Sh("prim", p, <<>>)

Prims == {"string", "integer", "safelong", "double", "boolean", "uuid", "rid", "bearertoken", "datetime", "binary", "any"}
StringLike == {"string", "uuid", "rid", "bearertoken", "datetime", "binary"}
Containers == {"opt", "list", "set", "map"}

RECURSIVE Dealias(_)
Dealias(s) == IF s.c \in {"alias", "ext"} THEN Dealias(s.kids[1]) ELSE s

---------------------------------------------------------------------------
(* Reference *)
RefRequired(s) == Dealias(s).c \notin Containers
(* JSON kinds a valid document of the type may have *)
RefKindsOfItem(d) == LET i == Dealias(d.kids[1]) IN
    CASE i.c = "prim" /\ i.p \in StringLike -> {"str"}
      [] i.c = "prim" /\ i.p \in {"integer", "safelong"} -> {"num"}
      [] i.c = "prim" /\ i.p = "double" -> {"num", "str"}
      [] i.c = "prim" /\ i.p = "boolean" -> {"bool"}
      [] i.c = "prim" /\ i.p = "any" -> {"str", "num", "bool", "arr", "obj"}
      [] i.c \in {"list", "set"} -> {"arr"}
      [] i.c = "map" -> {"obj"}
      [] i.c = "ref" /\ i.p = "enum" -> {"str"}
      [] OTHER -> {"obj"}

RefKinds(s) == LET d == Dealias(s) IN
    CASE d.c = "prim" /\ d.p \in StringLike -> {"str"}
      [] d.c = "prim" /\ d.p \in {"integer", "safelong"} -> {"num"}
      [] d.c = "prim" /\ d.p = "double" -> {"num", "str"}          \* "NaN" / "Infinity" / "-Infinity"
      [] d.c = "prim" /\ d.p = "boolean" -> {"bool"}
      [] d.c = "prim" /\ d.p = "any" -> {"str", "num", "bool", "arr", "obj"}
      [] d.c = "opt" -> RefKindsOfItem(d)
      [] d.c \in {"list", "set"} -> {"arr"}
      [] d.c = "map" -> {"obj"}
      [] d.c = "ref" /\ d.p = "enum" -> {"str"}
      [] OTHER -> {"obj"}                                           \* object, union
HasRange(s) == LET d == Dealias(s) IN d.c = "prim" /\ d.p \in {"integer", "safelong"}
HasGrammar(s) == LET d == Dealias(s) IN (d.c = "prim" /\ d.p \in {"uuid", "rid", "bearertoken", "datetime", "binary"})
                                        \/ (d.c = "ref" /\ d.p = "enum")

(* document classes of the field f; verdicts: "ok" | "reject" | "unspec" *)
DocClasses == {"absent", "null", "valid", "valid2", "empty", "kind_str", "kind_num", "kind_bool", "kind_arr", "kind_obj",
               "range", "malformed", "elem_kind", "elem_null"}

IsContainer(s) == Dealias(s).c \in {"list", "set", "map"}
ElemNullable(s) == LET d == Dealias(s) IN
                   IF d.c = "map" THEN Dealias(d.kids[2]).c = "opt"   \* not generated (no map<_, optional>)
                   ELSE Dealias(d.kids[1]).c = "opt"

RefVerdict(s, dc) ==
    LET d == Dealias(s) IN
    CASE dc = "absent" -> IF RefRequired(s) THEN "reject" ELSE "ok"
      [] dc = "null" -> IF d.c = "opt" THEN "ok"
                        ELSE IF d.c \in {"list", "set", "map"} THEN "ok"       \* wire spec 5.4: coerced to the empty collection
                        ELSE "reject"
      [] dc \in {"valid", "valid2"} -> "ok"
      [] dc = "empty" -> IF IsContainer(s) THEN "ok" ELSE "na"
      [] dc = "kind_str" -> IF "str" \in RefKinds(s) THEN "na" ELSE "reject"
      [] dc = "kind_num" -> IF "num" \in RefKinds(s) THEN "na" ELSE "reject"
      [] dc = "kind_bool" -> IF "bool" \in RefKinds(s) THEN "na" ELSE "reject"
      [] dc = "kind_arr" -> IF "arr" \in RefKinds(s) THEN "na"
                            ELSE IF RefKinds(s) = {"obj"} /\ ~(d.c = "map") /\ ~(d.c = "opt" /\ Dealias(d.kids[1]).c = "map")
                                 THEN "unspec"        \* serde's positional array form of an object / union
                            ELSE "reject"
      [] dc = "kind_obj" -> IF "obj" \in RefKinds(s) THEN "na" ELSE "reject"
      [] dc = "range" -> IF HasRange(s) \/ (d.c = "opt" /\ HasRange(d.kids[1])) THEN "reject" ELSE "na"
      [] dc = "malformed" -> IF HasGrammar(s) \/ (d.c = "opt" /\ HasGrammar(d.kids[1])) THEN "reject" ELSE "na"
      [] dc = "elem_kind" -> IF IsContainer(s) THEN "reject" ELSE "na"
      [] dc = "elem_null" -> IF IsContainer(s) /\ ~ElemNullable(s) THEN "reject" ELSE "na"

(* is the field present in the canonical re-serialisation of an accepted document? *)
RefEmits(s, dc) ==
    LET d == Dealias(s) IN
    IF d.c \in Containers /\ dc \in {"absent", "null", "empty"} THEN SerializeEmpty ELSE TRUE

---------------------------------------------------------------------------
(* Mech: the generator's predicates with bounded look-through *)
RECURSIVE MechRequired(_, _), MechEmptyMethod(_, _)
MechRequired(s, fuel) ==
    CASE s.c = "prim" -> TRUE
      [] s.c \in Containers -> FALSE
      [] s.c = "ref" -> TRUE
      [] OTHER -> IF fuel = 0 THEN TRUE ELSE MechRequired(s.kids[1], fuel - 1)     \* alias / external
MechEmptyMethod(s, fuel) ==                                 \* is_empty_method(..).is_some()
    CASE s.c \in Containers -> TRUE
      [] s.c \in {"prim", "ref"} -> FALSE
      [] OTHER -> IF fuel = 0 THEN FALSE ELSE MechEmptyMethod(s.kids[1], fuel - 1)

MechDefaultAttr(s) == ~MechRequired(s, AliasFuel)                       \* #[serde(default)]
MechSkipAttr(s) == ~SerializeEmpty /\ MechEmptyMethod(s, AliasFuel)     \* #[serde(skip_serializing_if = ...)]

(* serde_derive: a missing field is an error unless `default` (or the field type is Option: serde's own rule,  *)
(* which only sees the outermost Rust type - an alias newtype hides the Option)                                 *)
MechVerdict(s, dc) ==
    LET d == Dealias(s) IN
    CASE dc = "absent" -> IF MechDefaultAttr(s) \/ s.c = "opt" THEN "ok" ELSE "reject"
      [] dc = "null" -> IF d.c = "opt" \/ (d.c = "prim" /\ d.p = "any") THEN "ok" ELSE "reject"
      [] OTHER -> IF RefVerdict(s, dc) = "unspec" THEN "ok" ELSE RefVerdict(s, dc)
MechEmits(s, dc) ==
    LET d == Dealias(s) IN
    IF d.c \in Containers /\ dc \in {"absent", "null", "empty"} THEN ~MechSkipAttr(s) ELSE TRUE

Agree(s, dc) ==
    LET r == RefVerdict(s, dc) m == MechVerdict(s, dc) IN
    r \in {"na", "unspec"} \/ (r = m /\ (r = "ok" => RefEmits(s, dc) = MechEmits(s, dc)))

---------------------------------------------------------------------------
(* C10 / union part of C02: the generated union deserializer as an automaton over the member sequence.          *)
(* A member is [key, val]: key = "type" or a variant name; val = a variant name (for "type") or a payload class  *)
(* "good" | "bad".  Listed = set of declared variant names; Exhaustive = configuration flag.                      *)
WellFormedName(n) == n \notin {"", "lower"}      \* variant names are arbitrary strings in the union; enums differ

UnionMech(members, Listed, Exhaustive) ==
    LET n == Len(members) IN
    IF n = 0 THEN "reject"                                            \* missing_field("type")
    ELSE IF members[1].key = "type"
    THEN LET variant == members[1].val IN
         IF Exhaustive /\ variant \notin Listed THEN "reject"         \* Variant_ has no Unknown arm: unknown_variant
         ELSE IF n = 1 THEN "reject"                                  \* missing_field(variant)
         ELSE LET key == members[2].key IN
              IF key = "type" THEN "reject"                           \* "type" is not a variant name
              ELSE IF Exhaustive /\ key \notin Listed THEN "reject"
              ELSE IF key # variant THEN "reject"                     \* invalid_value: type and member disagree
              ELSE IF variant \in Listed /\ members[2].val = "bad" THEN "reject"
              ELSE IF n > 2 THEN "reject"                             \* invalid_length(3, ..)
              ELSE IF variant \in Listed THEN "known" ELSE "unknown"
    ELSE LET variant == members[1].key IN
         IF Exhaustive /\ variant \notin Listed THEN "reject"
         ELSE IF variant \in Listed /\ members[1].val = "bad" THEN "reject"
         ELSE IF n = 1 \/ members[2].key # "type" THEN "reject"       \* missing_field("type")
         ELSE IF Exhaustive /\ members[2].val \notin Listed THEN "reject"
         ELSE IF members[2].val # variant THEN "reject"
         ELSE IF n > 2 THEN "reject"
         ELSE IF variant \in Listed THEN "known" ELSE "unknown"

(* Reference: exactly two members {type: v, v: payload} in either order; listed => payload must be valid and the *)
(* value is classified as itself; unlisted => Unknown (kept verbatim) unless exhaustive                           *)
UnionRef(members, Listed, Exhaustive) ==
    IF Len(members) # 2 THEN "reject"
    ELSE LET a == members[1] b == members[2]
             t == IF a.key = "type" THEN a ELSE b
             m == IF a.key = "type" THEN b ELSE a
         IN IF t.key # "type" \/ m.key = "type" \/ m.key # t.val THEN "reject"
            ELSE IF t.val \in Listed THEN (IF m.val = "good" THEN "known" ELSE "reject")
            ELSE IF Exhaustive THEN "reject" ELSE "unknown"

(* enums: listed -> itself; unlisted and well-formed ([A-Z0-9_]+) -> Unknown unless exhaustive; ill-formed -> reject *)
EnumRef(name, Listed, Exhaustive, wellformed) ==
    IF name \in Listed THEN "known" ELSE IF ~wellformed \/ Exhaustive THEN "reject" ELSE "unknown"
=============================================================================
