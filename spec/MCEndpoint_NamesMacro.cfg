SPECIFICATION Spec
CONSTANTS
  Args <- ArgsNamesMacro
  MaxFaults = 2
  EndpointName = "NamesMacro"
INVARIANTS Props Emit
CHECK_DEADLOCK FALSE
