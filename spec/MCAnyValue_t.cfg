SPECIFICATION Spec
CONSTANTS
  Forwarded = {"bool","i8","i16","i32","i64","i128","u8","u16","u32","u64","u128","char","str","string","unit","unit_struct","seq","tuple","tuple_struct","map","struct","identifier","ignored_any"}
  NewtypeVisit = TRUE
  MaxDepth = 3
  ReducedLeaves = TRUE
  EmitMod = 400
INVARIANTS RoundTrip SameJson Emit
CHECK_DEADLOCK FALSE
