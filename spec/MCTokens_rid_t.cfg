SPECIFICATION Spec
CONSTANTS
  Mode = "rid"
  MaxLen = 2
  EmitMod = 400
INVARIANTS TokenExact RidExact RidPartsJoin ComponentsExact Emit
CHECK_DEADLOCK FALSE
