SPECIFICATION Spec
CONSTANTS
  Mode = "long"
  MaxUriLen = 40
  MaxQ = 2
  EmitMod = 1
INVARIANTS NoPanic Syntax Structure Emit
CHECK_DEADLOCK FALSE
