SPECIFICATION Spec
CONSTANTS
  LineClasses = {"text", "ticks", "bare", "bareblank", "indented", "info"}
  MaxLines = 4
  MarkClosers = TRUE
INVARIANTS Pairing OpenersIgnored ClosersUntouched OthersUntouched LinesPreserved
CHECK_DEADLOCK FALSE
