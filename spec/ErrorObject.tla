--------------------------- MODULE ErrorObject ---------------------------
(***************************************************************************)
(* Extension X05 (feeds C17 and C09): the life of one conjure_error::Error *)
(* object - conjure-error/src/error.rs.                                    *)
(*                                                                         *)
(* An Error is built by one of twelve constructors and then threaded       *)
(* through the consuming "builder" calls with_safe_param,                  *)
(* with_unsafe_param, with_backtrace and with_custom_safe_backtrace.  Its  *)
(* observable state is the kind (with the serializable error a service     *)
(* kind carries, or the throttle duration), whether the cause is safe, the *)
(* two parameter maps and the list of backtraces.                          *)
(*                                                                         *)
(* Mech (one action per public call, state change = what the method body   *)
(* does):                                                                  *)
(*   Construct - Error::new pushes one captured backtrace; service_inner   *)
(*               splits the encoded parameters by `safe_args`, propagated  *)
(*               errors have no safe arguments, `internal` is              *)
(*               service(Internal::new())                                  *)
(*   WithSafe / WithUnsafe - HashMap::insert into ONE of the maps          *)
(*   WithBacktrace / WithCustom - Vec::push                                *)
(* Prop (functions of the call history, whatever the mechanism):           *)
(*   KindStable      the kind, the cause's safety and what goes over the   *)
(*                   wire (the serializable error) never change after      *)
(*                   construction - parameters added later are for logs    *)
(*   Independent     a call on one parameter map leaves the other alone    *)
(*                   (the same key may live in both)                       *)
(*   LastWriteWins   each map holds, per key, the value of the last call   *)
(*                   for that key, else what the constructor put there     *)
(*   CtorPartition   the constructor puts a declared parameter into the    *)
(*                   safe map iff the error type lists it as a safe        *)
(*                   argument; propagated errors: everything unsafe; QoS   *)
(*                   and internal errors: no parameters                    *)
(*   BacktraceLog    backtraces = the constructor's captured one followed  *)
(*                   by one entry per backtrace call, oldest first         *)
(***************************************************************************)
EXTENDS Integers, Sequences, FiniteSets, TLC

CONSTANTS Keys,          \* parameter names
          Vals           \* parameter values (abstract)
None == "-"

ServiceCtors == {"service", "service_safe", "propagated", "propagated_safe"}
QosCtors == {"throttle", "throttle_safe", "throttle_for", "throttle_for_safe", "unavailable", "unavailable_safe"}
InternalCtors == {"internal", "internal_safe"}
Ctors == ServiceCtors \cup QosCtors \cup InternalCtors
SafeCause(c) == c \in {"service_safe", "propagated_safe", "throttle_safe", "throttle_for_safe", "unavailable_safe", "internal_safe"}
KindOf(c) == CASE c \in ServiceCtors \cup InternalCtors -> "service"
               [] c \in {"throttle", "throttle_safe"} -> "throttle"
               [] c \in {"throttle_for", "throttle_for_safe"} -> "throttle_for"
               [] OTHER -> "unavailable"

(* the declared error type of a service constructor: per key "absent", "safe" or "unsafe"; a declared parameter holds Vals' first value *)
Decls == [Keys -> {"absent", "safe", "unsafe"}]
DeclVal == CHOOSE v \in Vals : TRUE
Empty == [k \in Keys |-> None]

(* what goes over the wire for a service kind: the declared parameters (all of them, safe or not) *)
WireOf(c, d) == IF c \in ServiceCtors THEN [k \in Keys |-> IF d[k] = "absent" THEN None ELSE DeclVal] ELSE Empty
(* service_inner: `safe_args.contains(key)`; propagated_* pass no safe arguments *)
CtorSafe(c, d) == IF c \in {"service", "service_safe"} THEN [k \in Keys |-> IF d[k] = "safe" THEN DeclVal ELSE None] ELSE Empty
CtorUnsafe(c, d) == IF c \in {"service", "service_safe"} THEN [k \in Keys |-> IF d[k] = "unsafe" THEN DeclVal ELSE None]
                    ELSE IF c \in ServiceCtors THEN [k \in Keys |-> IF d[k] # "absent" THEN DeclVal ELSE None]
                    ELSE Empty

(* ---- property layer: the state as a function of the history ---- *)
RECURSIVE LastFor(_, _, _, _)
LastFor(h, op, k, dflt) ==          \* value of the last `op` call for key k in h
    IF h = <<>> THEN dflt
    ELSE LET c == h[Len(h)] IN IF c.op = op /\ c.k = k THEN c.v ELSE LastFor(SubSeq(h, 1, Len(h) - 1), op, k, dflt)
RECURSIVE BtOf(_)
BtOf(h) == IF h = <<>> THEN <<>> ELSE
           LET c == Head(h) IN (IF c.op = "bt" THEN <<"captured">> ELSE IF c.op = "custom" THEN <<c.v>> ELSE <<>>) \o BtOf(Tail(h))
=============================================================================
