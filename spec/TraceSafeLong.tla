--------------------------- MODULE TraceSafeLong ---------------------------
(* I->S for C15: {"ev":"route","route":name,"pos":x,"verdict":"ok"|"err","same":bool} - one recorded call of a *)
(* construction route with a value at number-line position x.                                                  *)
EXTENDS SafeLong, Json, IOUtils
Rec == ndJsonDeserialize(IOEnv.TRACE)
VARIABLES l
TInit == l = 1
RouteOf(n) == CHOOSE r \in Routes : r.name = n
TRoute == /\ l <= Len(Rec) /\ Rec[l].ev = "route" /\ l' = l + 1
          /\ LET r == Rec[l]
                 p == r.verdict \in PropAllows(RouteOf(r.route), r.pos) /\ (r.verdict = "ok" => r.same)
                 m == r.verdict = Mech(RouteOf(r.route), r.pos)
             IN /\ (~p => PrintT(<<"PROPFAIL", ToJson([line |-> l])>>))
                /\ ((p /\ ~m) => PrintT(<<"MECHFAIL", ToJson([line |-> l])>>))
TSpec == TInit /\ [][TRoute]_l
TraceAccepted == LET d == TLCGet("stats").diameter IN
                 IF d - 1 = Len(Rec) THEN TRUE ELSE Print(<<"UNMATCHED", ToJson([line |-> d])>>, FALSE)
=============================================================================
