SPECIFICATION Spec
CONSTANTS
  Mode = "pct"
  MaxUriLen = 65534
  MaxQ = 2
  EmitMod = 1
INVARIANTS NoPanic Syntax Structure Emit
CHECK_DEADLOCK FALSE
