--------------------------- MODULE LogSafety ---------------------------
(***************************************************************************)
(* C08 - "An argument is generated safe-to-log exactly when all it can     *)
(* hold is safe".                                                          *)
(*                                                                         *)
(* Two layers (DESIGN.md section 1):                                       *)
(*   Prop : the order-free reference semantics of Conjure log safety, a    *)
(*          greatest fixpoint over the type graph (SafeTypes, RefSafeArg). *)
(*   Mech : a step-for-step transcription of                               *)
(*          conjure-codegen/src/context.rs  is_safe_arg /                  *)
(*          type_log_safety / type_log_safety_ref / combine_safety,        *)
(*          including the memo table, the lazy try_fold short-circuit for  *)
(*          objects and the eager fold for unions.  Two variants:          *)
(*            Repaired = FALSE : provisional Computed(Some(Safe)) entry    *)
(*                               (the pinned tree, order dependent);       *)
(*            Repaired = TRUE  : in-progress marking; a Safe result that   *)
(*                               relied on an enclosing in-progress type   *)
(*                               is returned but not memoised.             *)
(*                                                                         *)
(* The evaluator is a recursive operator threading the memo state and an   *)
(* event log (enter / hit / cycle / final), one spec *action* per call of  *)
(* is_safe_arg (the public linearization point).  The event log is what    *)
(* the hook in context.rs records, so the trace spec can compare the real  *)
(* recursion step by step without the model checker paying for it.         *)
(***************************************************************************)
EXTENDS Integers, Sequences, FiniteSets, TLC

CONSTANTS Repaired    \* which mechanism is modelled

(* Atoms of a type expression: 0 = primitive/any/external (unknown),      *)
(* -1 = bearertoken (do-not-log), t \in 1..N = reference.  optional<X>,    *)
(* list<X>, set<X> are transparent for log safety, so an expression is a   *)
(* sequence of one atom, or two atoms <<k, v>> for map<k, v>.              *)
PRIM == 0
BEARER == -1
INF == 1000000

Min2(a, b) == IF a < b THEN a ELSE b

(* combine_safety: do-not-log < unsafe < unknown("none") ; safe only with safe *)
Combine(a, b) ==
    IF a = "dnl" \/ b = "dnl" THEN "dnl"
    ELSE IF a = "unsafe" \/ b = "unsafe" THEN "unsafe"
    ELSE IF a = "safe" /\ b = "safe" THEN "safe"
    ELSE "none"

---------------------------------------------------------------------------
(* Prop layer: reference semantics, independent of any evaluation order.   *)
(* tab[t] = [kind, fields]; fields[i] = [decl, ty]; an alias is a one-field*)
(* definition whose single field carries the alias' declared safety.       *)

AtomSafe(S, a) == a \in S
ExprSafe(S, e) == \A i \in 1..Len(e) : AtomSafe(S, e[i])
FieldSafe(S, f) == f.decl = "safe" \/ (f.decl = "undeclared" /\ ExprSafe(S, f.ty))

SafeUnder(tab, S, t) ==
    LET d == tab[t] IN
    CASE d.kind = "enum"  -> TRUE
      [] d.kind = "union" -> FALSE
      [] OTHER -> \A i \in 1..Len(d.fields) : FieldSafe(S, d.fields[i])

RECURSIVE Gfp(_, _)
Gfp(tab, S) ==
    LET S2 == {t \in S : SafeUnder(tab, S, t)} IN
    IF S2 = S THEN S ELSE Gfp(tab, S2)

SafeTypes(tab) == Gfp(tab, 1..Len(tab))

RefSafeArg(tab, a) ==
    IF a.decl # "undeclared" THEN a.decl = "safe"
    ELSE a.legacy \/ ExprSafe(SafeTypes(tab), a.ty)

---------------------------------------------------------------------------
(* Mech layer.  s = [memo, prog, low, ev]                                  *)
(*   memo[t] \in {"uncomputed","safe","unsafe","dnl","none"}               *)
(*   prog[t] = 0, or the 1-based depth at which t is in progress           *)
(*   low     = smallest depth of an in-progress type hit since the         *)
(*             innermost enclosing Enter (INF if none)       [Repaired]    *)
(*   ev      = event log                                                   *)

Ev(k, t, v, m) == [k |-> k, t |-> t, v |-> v, m |-> m]

S0(n) == [memo |-> [t \in 1..n |-> "uncomputed"], prog |-> [t \in 1..n |-> 0],
          low |-> INF, ev |-> <<>>]

RECURSIVE EvRef(_, _, _, _), EvFields(_, _, _, _, _, _, _)

EvAtom(tab, a, s, d) ==
    IF a = PRIM THEN [v |-> "none", s |-> s]
    ELSE IF a = BEARER THEN [v |-> "dnl", s |-> s]
    ELSE EvRef(tab, a, s, d)

(* map: both sides are evaluated before combine_safety is called *)
EvExpr(tab, e, s, d) ==
    IF Len(e) = 1 THEN EvAtom(tab, e[1], s, d)
    ELSE LET r1 == EvAtom(tab, e[1], s, d)
             r2 == EvAtom(tab, e[2], r1.s, d)
         IN [v |-> Combine(r1.v, r2.v), s |-> r2.s]

EvField(tab, f, s, d) ==
    IF f.decl # "undeclared" THEN [v |-> f.decl, s |-> s]
    ELSE EvExpr(tab, f.ty, s, d)

(* short = TRUE : Iterator::try_fold over Option - stops at the first None  *)
(* short = FALSE: Iterator::fold - visits every member                     *)
EvFields(tab, fs, i, acc, short, s, d) ==
    IF i > Len(fs) THEN [v |-> acc, s |-> s]
    ELSE LET r == EvField(tab, fs[i], s, d)
             c == Combine(acc, r.v)
         IN IF short /\ c = "none" THEN [v |-> "none", s |-> r.s]
            ELSE EvFields(tab, fs, i + 1, c, short, r.s, d)

Body(tab, t, s, d) ==
    LET def == tab[t] IN
    CASE def.kind = "enum"  -> [v |-> "safe", s |-> s]
      [] def.kind = "union" -> EvFields(tab, def.fields, 1, "none", FALSE, s, d)
      [] OTHER              -> EvFields(tab, def.fields, 1, "safe", TRUE, s, d)

EvRef(tab, t, s, d) ==
    IF Repaired /\ s.prog[t] > 0
    THEN [v |-> "safe",
          s |-> [s EXCEPT !.low = Min2(@, s.prog[t]),
                          !.ev = Append(@, Ev("cycle", t, "safe", FALSE))]]
    ELSE IF s.memo[t] # "uncomputed"
    THEN [v |-> s.memo[t],
          s |-> [s EXCEPT !.ev = Append(@, Ev("hit", t, s.memo[t], TRUE))]]
    ELSE IF ~Repaired
    THEN LET s1 == [s EXCEPT !.memo[t] = "safe",
                             !.ev = Append(@, Ev("enter", t, "safe", FALSE))]
             r == Body(tab, t, s1, d + 1)
         IN [v |-> r.v,
             s |-> [r.s EXCEPT !.memo[t] = r.v,
                               !.ev = Append(@, Ev("final", t, r.v, TRUE))]]
    ELSE LET depth == d + 1
             s1 == [s EXCEPT !.prog[t] = depth, !.low = INF,
                             !.ev = Append(@, Ev("enter", t, "safe", FALSE))]
             r == Body(tab, t, s1, depth)
             low == r.s.low
             provisional == r.v = "safe" /\ low < depth
         IN [v |-> r.v,
             s |-> [r.s EXCEPT !.prog[t] = 0,
                               !.memo[t] = IF provisional THEN "uncomputed" ELSE r.v,
                               !.low = Min2(s.low, IF low < depth THEN low ELSE INF),
                               !.ev = Append(@, Ev("final", t, r.v, ~provisional))]]

(* is_safe_arg *)
EvArg(tab, a, s) ==
    IF a.decl # "undeclared" THEN [v |-> a.decl = "safe", s |-> s]
    ELSE IF a.legacy THEN [v |-> TRUE, s |-> s]
    ELSE LET r == EvExpr(tab, a.ty, s, 0) IN [v |-> r.v = "safe", s |-> r.s]

=============================================================================
