SPECIFICATION Spec
CONSTANTS
  MaxFields = 3
  MaxCalls = 2
  EmitMod = 997
  LastWriteWins = TRUE
INVARIANTS BuiltMatches RequiredSet StageOrder Emit
CHECK_DEADLOCK FALSE
