--------------------------- MODULE MCSizeLimit ---------------------------
(* every digit string x blank x unit spelling; endpoints with 0, 1 or 2 size tags *)
EXTENDS SizeLimit, Json
VARIABLES tags, phase
vars == <<tags, phase>>

MCDigits == {<<"0", 0>>, <<"1", 1>>, <<"15", 15>>, <<"007", 7>>, <<"48", 48>>, <<"", 0>>}
MCBlanks == {"", " ", "  "}
MCUnits == {<<"", "">>, <<"b", "b">>, <<"B", "b">>, <<"k", "k">>, <<"K", "k">>, <<"kb", "kb">>, <<"KB", "kb">>, <<"Kb", "kb">>, <<"ki", "ki">>, <<"KiB", "kib">>,
            <<"m", "m">>, <<"MB", "mb">>, <<"mi", "mi">>, <<"MiB", "mib">>, <<"g", "g">>, <<"gb", "gb">>, <<"Gi", "gi">>, <<"gib", "gib">>,
            <<"t", "t">>, <<"TB", "tb">>, <<"ti", "ti">>, <<"TiB", "tib">>, <<"x", "x">>, <<"bb", "bb">>, <<"kbs", "kbs">>, <<"bytes", "bytes">>, <<"kk", "kk">>,
            <<"b ", "b">>, <<"kb  ", "kb">>, <<"ib", "ib">>, <<"kbi", "kbi">>}

Texts == {[d |-> d, b |-> b, u |-> u] : d \in Digits, b \in Blanks, u \in Units}
Init == tags = <<>> /\ phase = "pick"
AddTag == phase = "pick" /\ Len(tags) < 2 /\ (\E t \in Texts : tags' = Append(tags, t)) /\ UNCHANGED phase
Done == phase = "pick" /\ phase' = "done" /\ UNCHANGED tags
Spec == Init /\ [][AddTag \/ Done]_vars

MechSizes == [i \in 1..Len(tags) |-> MechParse(tags[i].d, tags[i].u[2])]
PropSizes == [i \in 1..Len(tags) |-> PropParse(tags[i].d, tags[i].u[2])]
ParseAgrees == phase = "done" => MechSizes = PropSizes
LimitAgrees == phase = "done" => MechLimit(MechSizes) = PropLimit(PropSizes)
(* the limit is never smaller than the number written (a unit only scales up) and a byte count is itself *)
Monotone == phase = "done" => \A i \in 1..Len(tags) : PropSizes[i] # Bad =>
                 /\ PropSizes[i].n = tags[i].d[2] /\ PropSizes[i].base \in {1, 1000, 1024}
                 /\ (tags[i].u[2] \in {"", "b"} <=> PropSizes[i].exp = 0)
Emit == (phase = "done" /\ Len(tags) <= 1) \/ (phase = "done" /\ Len(tags) = 2 /\ tags[1] = tags[2]) =>
          PrintT(<<"CASE", ToJson([tags |-> [i \in 1..Len(tags) |-> [text |-> tags[i].d[1] \o tags[i].b \o tags[i].u[1], size |-> PropSizes[i]]],
                                   limit |-> PropLimit(PropSizes)])>>)
=============================================================================
