SPECIFICATION Spec
CONSTANTS
  Args <- ArgsIds
  MaxFaults = 3
  EndpointName = "Ids"
INVARIANTS Props Emit
CHECK_DEADLOCK FALSE
