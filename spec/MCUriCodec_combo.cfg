SPECIFICATION Spec
CONSTANTS
  Mode = "combo"
  MaxUriLen = 65534
  MaxQ = 2
  EmitMod = 4
INVARIANTS NoPanic Syntax Structure Emit
CHECK_DEADLOCK FALSE
