--------------------------- MODULE AliasCaps ---------------------------
(***************************************************************************)
(* Extension X08: what a generated alias type offers (Copy, Default,       *)
(* Display, Plain/FromPlain, FromIterator) as a function of the type it    *)
(* aliases - conjure-codegen/src/aliases.rs and context.rs::is_copy /      *)
(* is_default / is_display / is_plain / is_from_iter.                      *)
(*                                                                         *)
(* A type is a sequence of wrappers (alias, external, optional; outermost  *)
(* first) over a base shape.                                               *)
(* Prop: (P1) a chain of aliases and external references is transparent -  *)
(* the alias offers exactly what an alias of the chain's target offers;    *)
(* (P2) Plain and FromPlain exist iff the dealiased type is one the wire   *)
(* specification gives a PLAIN form (every primitive but `any`, and enums):*)
(* this is what makes the alias usable as a path / query / header          *)
(* parameter; (P3) FromIterator exists iff the dealiased type is a list,   *)
(* set or map; (P4) nothing is offered that the wrapped Rust type lacks.   *)
(* Mech: the generator's tables and recursion.                             *)
(***************************************************************************)
EXTENDS Integers, Sequences, FiniteSets, TLC

CONSTANTS OptionalPlain    \* TRUE: is_plain looks through `optional` (self-test of PlainAgrees)

Prims == {"string", "datetime", "integer", "double", "safelong", "binary", "any", "boolean", "uuid", "rid", "bearertoken"}
Bases == Prims \cup {"list", "set", "map", "enum", "object", "union"}
Wrappers == {"alias", "external", "optional"}
Caps == {"copy", "default", "display", "plain", "fromiter"}

(* the generator's tables for the leaves *)
MechLeaf(cap, b) ==
    CASE cap = "copy" -> b \in {"datetime", "integer", "double", "safelong", "boolean", "uuid"}
      [] cap = "default" -> b \in {"string", "integer", "double", "safelong", "binary", "boolean", "list", "set", "map"}
      [] cap = "display" -> b \in {"string", "datetime", "integer", "double", "safelong", "boolean", "uuid", "rid", "enum"}
      [] cap = "plain" -> b \in (Prims \ {"any"}) \cup {"enum"}
      [] cap = "fromiter" -> b \in {"list", "set", "map"}

RECURSIVE MechCap(_, _, _)
MechCap(cap, ws, b) ==
    IF ws = <<>> THEN MechLeaf(cap, b)
    ELSE IF Head(ws) \in {"alias", "external"} THEN MechCap(cap, Tail(ws), b)
    ELSE CASE cap = "copy" -> MechCap(cap, Tail(ws), b)
           [] cap = "default" -> TRUE
           [] cap = "plain" -> OptionalPlain /\ MechCap(cap, Tail(ws), b)
           [] OTHER -> FALSE

RECURSIVE Dealias(_)
Dealias(ws) == IF ws # <<>> /\ Head(ws) \in {"alias", "external"} THEN Dealias(Tail(ws)) ELSE ws

(* Prop *)
WirePlain == (Prims \ {"any"}) \cup {"enum"}
PropPlain(ws, b) == Dealias(ws) = <<>> /\ b \in WirePlain
PropFromIter(ws, b) == Dealias(ws) = <<>> /\ b \in {"list", "set", "map"}
(* what the wrapped Rust type has: Option<T> is Copy iff T is, always Default, never Display *)
RustLeaf(cap, b) ==
    CASE cap = "copy" -> b \in {"datetime", "integer", "double", "safelong", "boolean", "uuid", "enum"}
      [] cap = "default" -> b \in {"string", "integer", "double", "safelong", "binary", "boolean", "uuid", "list", "set", "map"}
      [] cap = "display" -> b \in {"string", "datetime", "integer", "double", "safelong", "boolean", "uuid", "rid", "enum"}
      [] OTHER -> TRUE
RECURSIVE RustHas(_, _, _)
RustHas(cap, ws, b) ==
    IF ws = <<>> THEN RustLeaf(cap, b)
    ELSE IF Head(ws) \in {"alias", "external"} THEN RustHas(cap, Tail(ws), b)
    ELSE CASE cap = "copy" -> RustHas(cap, Tail(ws), b) [] cap = "default" -> TRUE [] cap = "display" -> FALSE [] OTHER -> TRUE

(* no optional directly inside an optional (not a Conjure type), at most one optional *)
WellFormed(ws) == Cardinality({i \in 1..Len(ws) : ws[i] = "optional"}) <= 1
=============================================================================
