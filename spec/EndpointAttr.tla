--------------------------- MODULE EndpointAttr ---------------------------
(***************************************************************************)
(* Extension X07: what the generated server trait and client say about an  *)
(* endpoint, as a function of the endpoint's definition -                  *)
(* conjure-codegen/src/servers.rs::generate_trait_endpoint / produces /    *)
(* auth_arg and clients.rs::generate_endpoint (method, deprecation).       *)
(*                                                                         *)
(* Prop (what a user of the generated code relies on): the HTTP method,    *)
(* the path template and the endpoint's wire name reach the                *)
(* `#[endpoint(..)]` attribute verbatim (the name is what metrics and      *)
(* logs carry, whatever the Rust identifier becomes); credentials are      *)
(* declared exactly as defined (none / header / cookie with its name); the *)
(* response serializer is the one of the return type's class; the client   *)
(* method sets the same method, and carries `#[deprecated]` with the       *)
(* definition's note iff the endpoint is deprecated - the server trait     *)
(* never does (it has to be implemented regardless).                       *)
(* Mech: the generator's match arms, in their order.                       *)
(***************************************************************************)
EXTENDS Integers, Sequences, FiniteSets, TLC

CONSTANTS Methods, Classes, Auths, NameKinds, PathKinds,
          IterableFirst    \* TRUE: `is_iterable` asked before the optional-binary arm (self-test of ProducesAgrees)

(* classes of return types; alias classes are aliases of the named shape *)
IsOptional(c) == c \in {"optstring", "optbinary", "aliasoptbinary"}
OptInnerBinary(c) == c \in {"optbinary", "aliasoptbinary"}
IsBinary(c) == c \in {"binary", "aliasbinary"}
IsIterable(c) == IsOptional(c) \/ c \in {"list", "map", "set", "aliaslist"}

PropProduces(c) ==
    CASE c = "none" -> "absent"
      [] c \in {"optbinary", "aliasoptbinary"} -> "OptionalBinary"
      [] c \in {"binary", "aliasbinary"} -> "Binary"
      [] c \in {"optstring", "list", "map", "set", "aliaslist"} -> "Collection"
      [] OTHER -> "Std"

MechProduces(c) ==
    IF c = "none" THEN "absent"
    ELSE IF IterableFirst /\ IsIterable(c) THEN "Collection"
    ELSE IF IsOptional(c) /\ OptInnerBinary(c) THEN "OptionalBinary"
    ELSE IF IsBinary(c) THEN "Binary"
    ELSE IF IsIterable(c) THEN "Collection"
    ELSE "Std"

(* the endpoint definition and what the generator writes for it *)
Defs == [method : Methods, class : Classes, auth : Auths, name : NameKinds, path : PathKinds, deprecated : BOOLEAN]

MechServer(d) == [method |-> d.method, path |-> d.path, name |-> d.name, produces |-> MechProduces(d.class),
                  auth |-> d.auth, deprecated |-> FALSE]
(* the `Endpoint` request extension (clients.rs::setup_endpoint_extension): what a raw client reports in metrics and logs *)
MechClient(d) == [method |-> d.method, deprecated |-> d.deprecated, ext |-> [name |-> d.name, path |-> d.path]]
PropServer(d) == [method |-> d.method, path |-> d.path, name |-> d.name, produces |-> PropProduces(d.class),
                  auth |-> d.auth, deprecated |-> FALSE]
PropClient(d) == [method |-> d.method, deprecated |-> d.deprecated, ext |-> [name |-> d.name, path |-> d.path]]
=============================================================================
