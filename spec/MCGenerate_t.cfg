SPECIFICATION Spec
CONSTANTS
  GeneratorKeywords = {"as","break","const","continue","crate","else","enum","extern","false","fn","for","if","impl","in","let","loop","match","mod","move","mut","pub","ref","return","self","static","struct","super","trait","true","type","unsafe","use","where","while","abstract","async","await","become","box","do","final","macro","override","priv","try","typeof","unsized","virtual","yield","union","dyn"}
  MaxItems = 3
  EmitMod = 2003
  BoolFormsUsed = {"absent"}
  HashMapDeps = FALSE
  IterateTypeTable = FALSE
INVARIANTS DeterministicInv CliEqualsLibInv ConfinedInv Emit
CHECK_DEADLOCK FALSE
