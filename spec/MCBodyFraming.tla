--------------------------- MODULE MCBodyFraming ---------------------------
(* Bounded-exhaustive check of BodyFraming (C06 server side, C18 client side); emits cases for replay. *)
EXTENDS BodyFraming, Json, IOUtils

CONSTANTS MaxChunks,   \* histories of 0..MaxChunks items
          MaxLen,      \* each data chunk has 0..MaxLen units, total <= MaxLen
          Side,        \* "server" | "client"
          EmitMod

VARIABLES h, par, phase
vars == <<h, par, phase>>
EmitRes == IF "EMITRES" \in DOMAIN IOEnv THEN atoi(IOEnv.EMITRES) % EmitMod ELSE 0

NoPar == [kind |-> "", ct |-> "", limit |-> 0, cls |-> "", ret |-> "", status |-> 0]

(* limits are placed relative to the body length L: L-1, L, L+1, none(-1) *)
ServerPars == {[kind |-> k, ct |-> c, limit |-> l, cls |-> cl, ret |-> "", status |-> 0] :
                 k \in {"std", "optional"}, c \in CtClasses, l \in {-1, SumData(h) - 1, SumData(h), SumData(h) + 1},
                 cl \in Classes}
ClientPars == {[kind |-> "", ct |-> c, limit |-> -1, cls |-> cl, ret |-> r, status |-> s] :
                 c \in {"json", "jsonparams", "octet", "other", "near", "absent"}, cl \in Classes,
                 r \in {"unit", "value", "default", "binary", "optbinary"}, s \in {200, 204}}

(* content class and length must be consistent: "empty" <=> no data *)
Consistent(p) == /\ (p.cls = "empty") <=> (SumData(h) = 0)
                 /\ p.limit >= -1
                 /\ (p.kind = "optional" => p.limit = -1)    \* OptionalRequestDeserializer uses the default limit
                 /\ (p.status = 204 => (p.ct = "absent" /\ SumData(h) = 0))

Init == h = <<>> /\ par = NoPar /\ phase = "hist"

AddItem == /\ phase = "hist" /\ Len(h) < MaxChunks
           /\ \E n \in {FAIL} \cup (0..MaxLen) :
                 /\ (n # FAIL => SumData(h) + n <= MaxLen)
                 /\ (n = FAIL => ~HasFail(h))
                 /\ h' = Append(h, n)
           /\ UNCHANGED <<par, phase>>

Pick == /\ phase = "hist"
        /\ \E p \in (IF Side = "server" THEN ServerPars ELSE ClientPars) : Consistent(p) /\ par' = p
        /\ phase' = "decided" /\ UNCHANGED h

Next == AddItem \/ Pick
Spec == Init /\ [][Next]_vars

---------------------------------------------------------------------------
SM == ServerMech(par.kind, par.ct, h, par.limit, par.cls)
CM == ClientMech(par.ret, par.status, par.ct, h, par.cls)

(* C06 *)
AcceptIffOneDocument == (phase = "decided" /\ Side = "server") =>
        SM.verdict \in ServerProp(par.kind, par.ct, h, par.limit, par.cls)
ErrorKind == (phase = "decided" /\ Side = "server" /\ SM.verdict = "reject") => ServerWhyOk(h, SM.why)
(* C18 *)
ValueOnlyFromCompleteTypedBody == (phase = "decided" /\ Side = "client") =>
        CM.verdict \in ClientProp(par.ret, par.status, par.ct, h, par.cls)

(* ChunkingIndependence: the verdict is a function of (concatenation, fault present) - checked as: it equals the *)
(* verdict for the single-chunk history with the same total (plus a trailing fault if there was one)             *)
Canon == (IF SumData(h) > 0 \/ ~HasFail(h) THEN <<SumData(h)>> ELSE <<>>) \o (IF HasFail(h) THEN <<FAIL>> ELSE <<>>)
ChunkingIndependence ==
    phase = "decided" =>
        IF Side = "server"
        THEN ServerMech(par.kind, par.ct, Canon, par.limit, par.cls).verdict = SM.verdict
        ELSE ClientMech(par.ret, par.status, par.ct, Canon, par.cls).verdict = CM.verdict

RECURSIVE SumSeq(_, _)
SumSeq(s, k) == IF k > Len(s) THEN 0 ELSE s[k] + SumSeq(s, k + 1)
StrCode(s) == CASE s = "" -> 0 [] s = "std" -> 1 [] s = "optional" -> 2 [] s = "exact" -> 3 [] s = "params" -> 4
    [] s = "other" -> 5 [] s = "wildcard" -> 6 [] s = "garbage" -> 7 [] s = "absent" -> 8 [] s = "empty" -> 9 [] s = "near" -> 23
    [] s = "doc" -> 10 [] s = "docws" -> 11 [] s = "trailing" -> 12 [] s = "truncated" -> 13 [] s = "malformed" -> 14
    [] s = "unknown" -> 15 [] s = "wrongtype" -> 16 [] s = "otherenc" -> 25 [] s = "json" -> 17 [] s = "jsonparams" -> 18 [] s = "octet" -> 19
    [] s = "unit" -> 20 [] s = "value" -> 21 [] s = "default" -> 22 [] s = "binary" -> 23 [] OTHER -> 24
Hash == SumSeq([i \in 1..Len(h) |-> (i * 37 + 11) * (h[i] + 2)], 1) + StrCode(par.kind) * 3 + StrCode(par.ct) * 7
        + (par.limit + 2) * 13 + StrCode(par.cls) * 17 + StrCode(par.ret) * 19 + par.status

Emit == (phase = "decided" /\ Hash % EmitMod = EmitRes) =>
          PrintT(<<"CASE", ToJson([side |-> Side, h |-> h, par |-> par, total |-> SumData(h),
                                   mech |-> IF Side = "server" THEN [verdict |-> SM.verdict, why |-> SM.why, ev |-> SM.ev]
                                            ELSE [verdict |-> CM.verdict, why |-> "", ev |-> CM.ev],
                                   prop |-> IF Side = "server" THEN ServerProp(par.kind, par.ct, h, par.limit, par.cls)
                                            ELSE ClientProp(par.ret, par.status, par.ct, h, par.cls)])>>)
=============================================================================
