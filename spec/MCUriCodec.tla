--------------------------- MODULE MCUriCodec ---------------------------
(* Bounded-exhaustive model check of UriCodec (C07) and emission of cases for S->I replay. *)
EXTENDS UriCodec, Json, IOUtils

CONSTANTS Mode,      \* "bytes" | "pairs" | "pct" | "shapes" | "combo" | "long"
          MaxQ,      \* query operations per shape in "shapes" mode
          EmitMod

VARIABLES ops, shape, hot, phase
vars == <<ops, shape, hot, phase>>

EmitRes == IF "EMITRES" \in DOMAIN IOEnv THEN atoi(IOEnv.EMITRES) % EmitMod ELSE 0

A(b) == <<b>>
X == <<120>>                                        \* "x"
MultiByte == {<<195, 169>>, <<194, 128>>, <<226, 130, 172>>, <<239, 191, 189>>, <<240, 159, 152, 128>>,
              <<244, 143, 191, 191>>}
AllAtoms == {A(b) : b \in 0..127} \cup MultiByte
(* every structural character of a URI / form encoding, plus one ordinary, one non-ASCII *)
Struct == {A(b) : b \in {37, 38, 43, 35, 47, 63, 61, 32, 59, 58, 64, 44, 36, 46, 92, 34, 60, 123, 0, 10, 127, 97, 50}}
          \cup {<<195, 169>>}
Struct12 == {A(b) : b \in {37, 38, 43, 35, 47, 63, 61, 32, 46, 97, 50}} \cup {<<195, 169>>}
Tiny == {<<>>, <<97>>, <<38, 61>>}
(* values that LOOK percent-encoded: "%" + two characters over hex digits / a non-hex letter, bare and behind "%25" or text.
   One decoding step too many (or too few) on either side changes them. *)
HexLike == {A(b) : b \in {48, 50, 52, 53, 65, 70, 102, 71}}        \* 0 2 4 5 A F f G
PctVals == {<<37>> \o a \o b : a \in HexLike, b \in HexLike}
           \cup {<<37, 50, 53>> \o a \o b : a \in {A(52), A(50)}, b \in {A(49), A(70)}}          \* "%2541", "%252F", ...
           \cup {<<97>> \o <<37>> \o a \o b \o <<98>> : a \in {A(50), A(52)}, b \in {A(70), A(49)}}  \* "a%2Fb", "a%41b"
           \cup {<<37>>, <<37, 37>>, <<37, 52>>, <<37, 37, 52, 49>>, <<43, 37, 50, 66>>}

Lit1 == <<47, 97>>                 \* "/a"
Lit2 == <<47, 98, 47, 99>>         \* "/b/c"
Key(i) == <<107, 48 + i>>          \* "k1", "k2", ...

PathParts == {<<"lit">>, <<"lit", "path">>, <<"lit", "path", "lit">>, <<"path">>, <<"lit", "path", "path">>}
QKinds == {"q1", "qopt", "qlist", "qset"}
QueryParts == UNION {[1..n -> QKinds] : n \in 0..MaxQ}

Shapes == CASE Mode \in {"bytes", "pairs", "pct", "long"} -> {<<"lit", "path", "lit", "q1", "q1">>}
            [] Mode = "combo" -> {<<"lit", "path", "path", "q1", "q1">>}
            [] OTHER -> {p \o q : p \in PathParts, q \in QueryParts}

ValueSlots(sh) == {i \in 1..Len(sh) : sh[i] # "lit"}

SingleVals == CASE Mode = "bytes" -> AllAtoms
                [] Mode = "pairs" -> {a \o b : a \in Struct, b \in Struct}
                [] Mode = "pct" -> PctVals
                [] Mode = "combo" -> Struct12 \cup {<<>>}
                [] Mode = "long"  -> {[i \in 1..n |-> 97] : n \in {MaxUriLen - 14, MaxUriLen - 13, MaxUriLen}}
                [] OTHER -> Tiny

SetSeqs == {<<>>, <<<<>>>>, <<<<97>>>>, <<<<>>, <<97>>>>, <<<<38, 61>>, <<97>>>>}   \* sorted, distinct (BTreeSet order)
ListSeqs == UNION {[1..n -> Tiny] : n \in 0..2}

ValsFor(kind) == CASE kind = "path" -> {<<v>> : v \in SingleVals}
                   [] kind = "q1" -> {<<v>> : v \in SingleVals}
                   [] kind = "qopt" -> {<<>>} \cup {<<v>> : v \in SingleVals}
                   [] kind = "qlist" -> ListSeqs
                   [] kind = "qset" -> SetSeqs

OneHot == Mode \in {"bytes", "pairs", "pct", "long"}

NumLits(sh, i) == Cardinality({j \in 1..i : sh[j] = "lit"})
NumQ(sh, i) == Cardinality({j \in 1..i : sh[j] \notin {"lit", "path"}})

MkOp(sh, i, vals) ==
    IF sh[i] = "lit" THEN [k |-> "lit", key |-> IF NumLits(sh, i) = 1 THEN Lit1 ELSE Lit2, vals |-> <<>>]
    ELSE IF sh[i] = "path" THEN [k |-> "path", key |-> <<>>, vals |-> vals]
    ELSE [k |-> sh[i], key |-> Key(NumQ(sh, i)), vals |-> vals]

Init == ops = <<>> /\ shape = <<>> /\ hot = 0 /\ phase = "shape"

ChooseShape == /\ phase = "shape"
               /\ \E sh \in Shapes : \E h \in (IF OneHot THEN ValueSlots(sh) ELSE {0}) :
                     shape' = sh /\ hot' = h
               /\ phase' = "fill" /\ UNCHANGED ops

Fill == /\ phase = "fill" /\ Len(ops) < Len(shape)
        /\ LET i == Len(ops) + 1 IN
           IF shape[i] = "lit" THEN ops' = Append(ops, MkOp(shape, i, <<>>))
           ELSE IF OneHot /\ hot # i THEN ops' = Append(ops, MkOp(shape, i, <<X>>))
           ELSE \E vs \in ValsFor(shape[i]) : ops' = Append(ops, MkOp(shape, i, vs))
        /\ UNCHANGED <<shape, hot, phase>>

Done == /\ phase = "fill" /\ Len(ops) = Len(shape) /\ phase' = "built" /\ UNCHANGED <<ops, shape, hot>>

Next == ChooseShape \/ Fill \/ Done
Spec == Init /\ [][Next]_vars

---------------------------------------------------------------------------
Buf == ApplyOps(B0, ops, 1).buf

(* S4 *) NoPanic == phase = "built" => ~BuildPanics(Buf)
(* S1 *) Syntax == phase = "built" /\ ~BuildPanics(Buf) => SyntaxOk(Buf)
(* S2, S3 *) Structure == phase = "built" /\ ~BuildPanics(Buf) => StructureOk(ops, Buf)

RECURSIVE SumSeq(_, _)
SumSeq(s, k) == IF k > Len(s) THEN 0 ELSE s[k] + SumSeq(s, k + 1)
Hash == SumSeq([i \in 1..Len(ops) |-> (i * 131 + 17) * (Len(ops[i].vals) + 3 +
                  SumSeq([j \in 1..Len(ops[i].vals) |-> (j + 5) * (Len(ops[i].vals[j]) * 7 +
                       SumSeq([m \in 1..Len(ops[i].vals[j]) |-> (m + 1) * ops[i].vals[j][m]], 1))], 1))], 1)

Emit == (phase = "built" /\ Hash % EmitMod = EmitRes) =>
          PrintT(<<"CASE", ToJson([ops |-> ops, uri |-> IF Mode = "long" THEN <<>> ELSE Buf, panics |-> BuildPanics(Buf),
                                   nsegs |-> Len(ExpectedSegs(ops, 1)), npairs |-> Len(ExpectedPairs(ops, 1))])>>)
=============================================================================
