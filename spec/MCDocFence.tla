--------------------------- MODULE MCDocFence ---------------------------
(* every document of <= MaxLines lines over the line classes *)
EXTENDS DocFence, Json
VARIABLES doc, phase
allvars == <<vars, doc, phase>>

Init == doc = <<>> /\ phase = "pick" /\ input = <<>> /\ inBlock = FALSE /\ output = <<>> /\ fences = 0
AddLine == phase = "pick" /\ Len(doc) < MaxLines /\ (\E c \in LineClasses : doc' = Append(doc, c)) /\ UNCHANGED <<phase, vars>>
Start == phase = "pick" /\ doc # <<>> /\ phase' = "run" /\ input' = doc /\ UNCHANGED <<doc, inBlock, output, fences>>
Run == phase = "run" /\ Step /\ UNCHANGED <<doc, phase>>
Spec == Init /\ [][AddLine \/ Start \/ Run]_allvars

LinesPreserved == (phase = "run" /\ input = <<>>) => Len(output) = Len(doc) /\ \A i \in 1..Len(doc) : output[i][1] = doc[i]
Emit == (phase = "run" /\ input = <<>>) => PrintT(<<"CASE", ToJson([doc |-> doc, marked |-> [i \in 1..Len(output) |-> output[i][2]]])>>)
=============================================================================
