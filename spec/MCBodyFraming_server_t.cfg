SPECIFICATION Spec
CONSTANTS
  EndCheck = TRUE
  MaxChunks = 5
  MaxLen = 4
  Side = "server"
  EmitMod = 8
INVARIANTS AcceptIffOneDocument ErrorKind ValueOnlyFromCompleteTypedBody ChunkingIndependence Emit
CHECK_DEADLOCK FALSE
