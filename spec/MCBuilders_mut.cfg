SPECIFICATION Spec
CONSTANTS
  MaxFields = 2
  MaxCalls = 2
  EmitMod = 1000000
  LastWriteWins = FALSE
INVARIANTS BuiltMatches RequiredSet StageOrder Emit
CHECK_DEADLOCK FALSE
