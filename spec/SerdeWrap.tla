--------------------------- MODULE SerdeWrap ---------------------------
(***************************************************************************)
(* C01 - JSON and Smile wrappers round-trip every Conjure value in Conjure *)
(*       encoding.                                                         *)
(* C05 - Servers reject and clients ignore unknown object fields at every  *)
(*       nesting depth.                                                    *)
(*                                                                         *)
(* The wrappers of conjure-serde (ser::Override, de::Override) push a      *)
(* behaviour mode through every serde entry point.  The state is the PATH  *)
(* from the root to a leaf (one step per entry point that hands a child to *)
(* the backend), the mode the wrapper is in at that point, and - for the   *)
(* server side - whether strictness (UnknownFieldsBehavior) is still on.   *)
(*                                                                         *)
(* Mech: a step re-wraps its child iff it is in Rewrap (all eleven steps   *)
(*       in conjure-serde/src/ser.rs and de/mod.rs; the sets are constants *)
(*       so that a model with one re-wrap missing can be checked to FAIL). *)
(*       "map_key" switches to the key behaviour, which is absorbing       *)
(*       (KeyBehavior::KeyBehavior = Self).  A child that is not re-wrapped*)
(*       is "raw": the bare serde_json / serde_smile behaviour.            *)
(* Prop: the Conjure spelling table (wire specification) for              *)
(*       (format, key position?, leaf), JSON validity, and                 *)
(*       Decode(Encode(leaf)) = leaf.                                      *)
(***************************************************************************)
EXTENDS Integers, Sequences, FiniteSets, TLC

CONSTANTS RewrapSer, RewrapDe,   \* steps at which the serializer / deserializer re-wraps the child
          RootWraps               \* the root value is handed to the wrappers (impl_serialize_body / impl_deserialize_body)

ValueSteps == {"some", "newtype_struct", "newtype_variant", "seq_elem", "tuple_elem", "tuple_struct_field",
               "tuple_variant_field", "map_value", "struct_field", "struct_variant_field"}
Steps == ValueSteps \cup {"map_key"}

Leaves == {"bool", "i32", "i64", "f64fin", "f64nan", "f64inf", "f64ninf", "str", "strNaN",
           "bytes0", "bytes1", "bytes2", "bytes3", "bytesbig", "uuid", "enum", "unit"}      \* bytesbig: > 1 KiB (past any internal buffer)
KeyLeaves == Leaves \ {"unit"}
IsBytes(l) == l \in {"bytes0", "bytes1", "bytes2", "bytes3", "bytesbig"}
NonFinite(l) == l \in {"f64nan", "f64inf", "f64ninf"}
FloatText(l) == CASE l = "f64nan" -> "NaN" [] l = "f64inf" -> "Infinity" [] l = "f64ninf" -> "-Infinity" [] OTHER -> "dec"

InKey(path) == \E i \in 1..Len(path) : path[i] = "map_key"

---------------------------------------------------------------------------
(* Mech: mode propagation *)
RECURSIVE ModeAt(_, _, _)
ModeAt(path, i, rewrap) ==          \* mode of the value reached after the first i steps
    IF i = 0 THEN (IF RootWraps THEN "value" ELSE "raw")
    ELSE LET m == ModeAt(path, i - 1, rewrap) IN
         IF m = "raw" \/ path[i] \notin rewrap THEN "raw"
         ELSE IF path[i] = "map_key" THEN "key" ELSE m
SerMode(path) == ModeAt(path, Len(path), RewrapSer)
DeMode(path) == ModeAt(path, Len(path), RewrapDe)

(* a token: [k |-> kind, t |-> text class]; kinds Bool Num Str Null Bin Dbl Arr Other *)
Tok(k, t) == [k |-> k, t |-> t]

(* what the JSON backend writes under each mode *)
JsonToken(mode, keypos, l) ==
    IF mode = "raw"
    THEN (* bare serde_json *)
         CASE l = "bool" -> IF keypos THEN Tok("Other", "") ELSE Tok("Bool", "")
           [] l \in {"i32", "i64"} -> IF keypos THEN Tok("Str", "dec") ELSE Tok("Num", "dec")
           [] l = "f64fin" -> IF keypos THEN Tok("Other", "") ELSE Tok("Num", "dec")
           [] NonFinite(l) -> IF keypos THEN Tok("Other", "") ELSE Tok("Null", "")
           [] l \in {"str", "strNaN", "uuid", "enum"} -> Tok("Str", l)
           [] IsBytes(l) -> IF keypos THEN Tok("Other", "") ELSE Tok("Arr", l)
           [] OTHER -> Tok("Null", "")
    ELSE CASE l = "bool" -> IF mode = "key" THEN Tok("Str", "true") ELSE Tok("Bool", "")
           [] l \in {"i32", "i64"} -> IF keypos THEN Tok("Str", "dec") ELSE Tok("Num", "dec")
           [] l = "f64fin" -> IF mode = "key" THEN Tok("Str", "dec") ELSE Tok("Num", "dec")
           [] NonFinite(l) -> Tok("Str", FloatText(l))
           [] l \in {"str", "strNaN", "uuid", "enum"} -> Tok("Str", l)
           [] IsBytes(l) -> Tok("Str", "b64:" \o l)
           [] OTHER -> Tok("Null", "")

(* Smile: values are native; keys use the JSON key behaviour *)
SmileToken(mode, keypos, l) ==
    IF mode = "key" /\ l = "uuid" THEN Tok("Str", l)      \* the Smile key serializer is human readable: hyphenated text
    ELSE IF mode = "key"
    THEN CASE l = "bool" -> Tok("Str", "true")
           [] l \in {"i32", "i64", "f64fin"} -> Tok("Str", "dec")
           [] NonFinite(l) -> Tok("Str", FloatText(l))
           [] IsBytes(l) -> Tok("Str", "b64:" \o l)
           [] OTHER -> Tok("Str", l)
    ELSE IF keypos THEN (IF l \in {"str", "strNaN", "enum", "uuid"} THEN Tok("Str", l) ELSE Tok("Other", ""))
    ELSE CASE l = "bool" -> Tok("Bool", "")
           [] l \in {"i32", "i64"} -> Tok("Num", "dec")
           [] l = "f64fin" \/ NonFinite(l) -> Tok("Dbl", l)
           [] IsBytes(l) -> Tok("Bin", l)
           [] l = "uuid" -> Tok("Bin", "uuid16")
           [] l \in {"str", "strNaN", "enum"} -> Tok("Str", l)
           [] OTHER -> Tok("Null", "")

MechToken(fmt, path, l) == IF fmt = "json" THEN JsonToken(SerMode(path), InKey(path), l)
                           ELSE SmileToken(SerMode(path), InKey(path), l)

---------------------------------------------------------------------------
(* Prop: the Conjure spelling.  "Any" = not fixed by the property (checked by round trip only). *)
PropToken(fmt, keypos, l) ==
    IF keypos \/ fmt = "json"
    THEN CASE l = "bool" -> IF keypos THEN Tok("Str", "true") ELSE Tok("Bool", "")
           [] l \in {"i32", "i64", "f64fin"} -> IF keypos THEN Tok("Str", "dec") ELSE Tok("Num", "dec")
           [] NonFinite(l) -> Tok("Str", FloatText(l))
           [] IsBytes(l) -> Tok("Str", "b64:" \o l)
           [] l = "unit" -> Tok("Null", "")
           [] OTHER -> Tok("Str", l)
    ELSE CASE IsBytes(l) -> Tok("Bin", l)
           [] l = "f64fin" \/ NonFinite(l) -> Tok("Dbl", l)
           [] l = "uuid" -> Tok("Any", "")
           [] l = "bool" -> Tok("Bool", "")
           [] l \in {"i32", "i64"} -> Tok("Num", "dec")
           [] l = "unit" -> Tok("Null", "")
           [] OTHER -> Tok("Str", l)

SpelledRight(fmt, path, l) ==
    LET p == PropToken(fmt, InKey(path), l) IN p.k = "Any" \/ MechToken(fmt, path, l) = p
(* standard JSON: no binary token, no non-finite number, every key a string *)
StandardJson(path, l) == LET t == JsonToken(SerMode(path), InKey(path), l) IN
                         t.k \notin {"Bin", "Dbl", "Other"} /\ (InKey(path) => t.k = "Str")

(* decoding under the deserializer's mode: does the leaf come back? *)
DecodesBack(fmt, path, l) ==
    LET tok == MechToken(fmt, path, l) dm == DeMode(path) keypos == InKey(path) IN
    CASE tok.k = "Other" -> FALSE
      [] NonFinite(l) \/ l = "f64fin" ->
            IF tok.k = "Str" THEN dm \in {"value", "key"}      \* the three strings / decimal text need the behaviour
            ELSE tok.k \in {"Num", "Dbl"}
      [] l = "bool" -> IF tok.k = "Str" THEN dm = "key" ELSE TRUE
      [] IsBytes(l) -> IF tok.k = "Str" THEN dm \in {"value", "key"} ELSE tok.k = "Bin"
      [] OTHER -> TRUE

---------------------------------------------------------------------------
(* C05: strictness.  A struct reached through `path` rejects an undeclared field on the server iff every step     *)
(* re-wraps (UnknownFieldsBehavior<B>::KeyBehavior = UnknownFieldsBehavior<B::KeyBehavior>), and the client       *)
(* ignores it whatever the path.                                                                                  *)
StrictAt(path) == DeMode(path) # "raw"
ServerRejects(path) == StrictAt(path)
=============================================================================
