--------------------------- MODULE MCClientRequest ---------------------------
EXTENDS ClientRequest, Json
VARIABLES b, r, a, h, phase
vars == <<b, r, a, h, phase>>
Init == b = "" /\ r = "" /\ a = "" /\ h = "" /\ phase = "pick"
Pick == phase = "pick" /\ (\E x \in BodyClasses : \E y \in ReturnClasses : \E z \in AuthKinds : \E w \in HeaderArgs : b' = x /\ r' = y /\ a' = z /\ h' = w) /\ phase' = "done"
Spec == Init /\ [][Pick]_vars
RequestOkInv == phase = "done" => RequestOk(b, r, a, h)
Emit == phase = "done" => PrintT(<<"CASE", ToJson([body |-> b, ret |-> r, auth |-> a, header |-> h,
            content_type |-> MechContentType(b), has_length |-> MechHasLength(b), body_kind |-> MechBodyKind(b),
            accept |-> MechAccept(r), auth_header |-> MechAuth(a), header_lines |-> MechHeaderLines(h)])>>)
=============================================================================
