SPECIFICATION TSpec
CONSTANTS
  RewrapSer = {"some","newtype_struct","newtype_variant","seq_elem","tuple_elem","tuple_struct_field","tuple_variant_field","map_value","struct_field","struct_variant_field","map_key"}
  RewrapDe = {"some","newtype_struct","newtype_variant","seq_elem","tuple_elem","tuple_struct_field","tuple_variant_field","map_value","struct_field","struct_variant_field","map_key"}
  RootWraps = TRUE
POSTCONDITION TraceAccepted
CHECK_DEADLOCK FALSE
