SPECIFICATION Spec
CONSTANTS
  EndCheck = TRUE
  MaxChunks = 3
  MaxLen = 3
  Side = "server"
  EmitMod = 1
INVARIANTS AcceptIffOneDocument ErrorKind ValueOnlyFromCompleteTypedBody ChunkingIndependence Emit
CHECK_DEADLOCK FALSE
