SPECIFICATION Spec
CONSTANTS
  Mode = "token"
  MaxLen = 3
  EmitMod = 1
INVARIANTS TokenExact RidExact RidPartsJoin ComponentsExact Emit
CHECK_DEADLOCK FALSE
