--------------------------- MODULE ResponsePath ---------------------------
(***************************************************************************)
(* Extension X03 (the response half of C04): how a handler's return value  *)
(* travels back.  Server side (conjure-codegen/src/servers.rs `produces`,  *)
(* conjure-http/src/server/conjure.rs): the response serializer is chosen  *)
(* from the declared return type - none -> Empty (204), optional<binary> -> *)
(* OptionalBinary (None = 204), binary -> Binary, iterable (optional, list, *)
(* set, map, aliases of those) -> Collection (default value = 204, else     *)
(* Std), anything else -> Std (200, negotiated encoding).  Client side      *)
(* (clients.rs setup_decode_response, private/client/mod.rs): none ->       *)
(* decode_empty, iterable -> decode_default (204 = default value), other    *)
(* JSON -> decode_serializable (needs application/json), binary /           *)
(* optional binary (204 = None) need application/octet-stream.              *)
(* Property: whatever the class and the value, the caller receives the      *)
(* value the handler returned; 204 is only used where the client maps it    *)
(* back to that same value.                                                 *)
(***************************************************************************)
EXTENDS Integers, Sequences, FiniteSets, TLC

CONSTANTS StringIsCollection   \* TRUE: the server treats a plain string return as iterable (regression: "" would become 204)

Classes == {"unit", "string", "object", "optional", "aliasopt", "list", "set", "map", "binary", "optbinary"}
(* value classes per return class: "default" is the value Default::default() yields (None, empty collection, ()) *)
ValuesOf(c) == CASE c = "unit" -> {"default"}
                 [] c = "string" -> {"emptytext", "text"}         \* "" is a value like any other
                 [] c = "object" -> {"value"}
                 [] c = "binary" -> {"nobytes", "bytes"}
                 [] c = "optbinary" -> {"default", "nobytes", "bytes"}   \* None, Some(empty), Some(bytes)
                 [] OTHER -> {"default", "value"}
Iterable(c) == c \in {"optional", "aliasopt", "list", "set", "map"} \/ (StringIsCollection /\ c = "string")

(* ---- server ---- *)
Serializer(c) == CASE c = "unit" -> "empty" [] c = "optbinary" -> "optbinary" [] c = "binary" -> "binary"
                   [] Iterable(c) -> "collection" [] OTHER -> "std"
IsDefault(c, v) == v = "default" \/ (StringIsCollection /\ c = "string" /\ v = "emptytext")
(* accept \in {"json", "smile-first"}; both encodings are registered, JSON first *)
Negotiated(accept) == IF accept = "smile-first" THEN "application/x-jackson-smile" ELSE "application/json"
Respond(c, v, accept) ==
    LET s == Serializer(c) IN
    CASE s = "empty" -> [status |-> 204, ctype |-> "none", body |-> "none"]
      [] s = "optbinary" -> IF v = "default" THEN [status |-> 204, ctype |-> "none", body |-> "none"]
                            ELSE [status |-> 200, ctype |-> "application/octet-stream", body |-> v]
      [] s = "binary" -> [status |-> 200, ctype |-> "application/octet-stream", body |-> v]
      [] s = "collection" -> IF IsDefault(c, v) THEN [status |-> 204, ctype |-> "none", body |-> "none"]
                             ELSE [status |-> 200, ctype |-> Negotiated(accept), body |-> v]
      [] OTHER -> [status |-> 200, ctype |-> Negotiated(accept), body |-> v]

(* ---- client (the generated client only understands JSON; the harness transcodes a Smile body to JSON) ---- *)
Decoder(c) == CASE c = "unit" -> "empty" [] c = "binary" -> "binary" [] c = "optbinary" -> "optbinary"
                [] c \in {"optional", "aliasopt", "list", "set", "map"} -> "default" [] OTHER -> "serializable"
JsonTyped(r) == r.ctype \in {"application/json", "application/x-jackson-smile"}
Decode(c, r) ==
    LET d == Decoder(c) IN
    CASE d = "empty" -> IF r.status = 204 \/ JsonTyped(r) THEN "default" ELSE "error"
      [] d = "default" -> IF r.status = 204 THEN "default" ELSE IF JsonTyped(r) THEN r.body ELSE "error"
      [] d = "serializable" -> IF r.status # 204 /\ JsonTyped(r) THEN r.body ELSE "error"
      [] d = "binary" -> IF r.ctype = "application/octet-stream" THEN r.body ELSE "error"
      [] OTHER -> IF r.status = 204 THEN "default" ELSE IF r.ctype = "application/octet-stream" THEN r.body ELSE "error"

ReturnEqual(c, v, accept) == Decode(c, Respond(c, v, accept)) = v
NoContentIsRecoverable(c, v, accept) == Respond(c, v, accept).status = 204 => v = "default"
=============================================================================
