--------------------------- MODULE MCModules ---------------------------
(* Definitions of <= MaxItems items over a small package/name vocabulary x strip-prefix options. *)
EXTENDS Modules, Json, IOUtils
CONSTANTS MaxItems, EmitMod,
          AllowClash   \* FALSE: only definitions without a type-module / package-component clash (Conjure-valid for sure)
VARIABLES def, prefix, phase
vars == <<def, prefix, phase>>
EmitRes == IF "EMITRES" \in DOMAIN IOEnv THEN atoi(IOEnv.EMITRES) % EmitMod ELSE 0

Packages == {<<"com">>, <<"com", "p">>, <<"com", "p", "foo">>, <<"com", "q">>, <<"com", "p", "type">>, <<"com", "try", "async">>}
Names == {"Foo", "Bar", "FooBar", "Type", "Try", "Mod"}
StripPrefixes == {<<>>, <<"com">>, <<"com", "p">>, <<"org">>, <<"com", "p", "foo">>}
Items == [pkg : Packages, name : Names]
Words == {"foo", "bar", "type", "try", "async", "await", "mod", "self", "match", "dyn", "union", "box", "yield", "macro", "abstract", "become",
          "do", "final", "override", "priv", "typeof", "unsized", "virtual", "as", "break", "const", "continue", "crate", "else", "enum",
          "extern", "false", "fn", "for", "if", "impl", "in", "let", "loop", "move", "mut", "pub", "ref", "return", "static", "struct",
          "super", "trait", "true", "unsafe", "use", "where", "while"}

(* Conjure rejects two types with the same package and name *)
Fresh(d, it) == \A i \in 1..Len(d) : ~(d[i].pkg = it.pkg /\ d[i].name = it.name)
(* a type whose module name equals a sibling package component (type com.p.Foo + package com.p.foo): a generator limitation *)
Clash(d, p) == ~DistinctItems(d, p)

Init == def = <<>> /\ prefix = <<>> /\ phase = "items"
AddItem == phase = "items" /\ Len(def) < MaxItems /\ (\E it \in Items : Fresh(def, it) /\ def' = Append(def, it)) /\ UNCHANGED <<prefix, phase>>
Choose == phase = "items" /\ Len(def) >= 1 /\ (\E p \in StripPrefixes : prefix' = p) /\ phase' = "done" /\ UNCHANGED def
Spec == Init /\ [][AddItem \/ Choose]_vars

N1 == (phase = "done" /\ ~AllowClash) => (Clash(def, prefix) => FALSE) \/ TRUE
DistinctWhenNoPackageClash == phase = "done" =>
        (* the only way two items of one module collide is a type module named like a sibling package component *)
        (~DistinctItems(def, prefix) =>
            \E d \in Dirs(def, prefix) : \E i \in 1..Len(TypeMods(def, prefix, d)) : TypeMods(def, prefix, d)[i] \in SubMods(def, prefix, d))
N2 == phase = "done" => \A a, b \in 1..Len(def) : TypePathResolves(def, prefix, a, b)
N5 == NoKeywordEmitted(Words)
ASSUME N5

RECURSIVE SumSeq(_, _)
SumSeq(s, k) == IF k > Len(s) THEN 0 ELSE s[k] + SumSeq(s, k + 1)
NameCode(n) == CASE n = "Foo" -> 1 [] n = "Bar" -> 2 [] n = "FooBar" -> 3 [] n = "Type" -> 4 [] n = "Try" -> 5 [] OTHER -> 6
Hash == SumSeq([i \in 1..Len(def) |-> (i * 29 + 1) * (NameCode(def[i].name) + 7 * Len(def[i].pkg) + (IF Len(def[i].pkg) > 1 THEN 3 ELSE 0))], 1) + 5 * Len(prefix)
Emit == (phase = "done" /\ (Len(def) <= 1 \/ Hash % EmitMod = EmitRes)) =>
          PrintT(<<"CASE", ToJson([def |-> def, prefix |-> prefix, clash |-> Clash(def, prefix),
                                   dirs |-> [d \in Dirs(def, prefix) |-> ModRsMods(def, prefix, d)]])>>)
=============================================================================
