--------------------------- MODULE MCSafeLong ---------------------------
EXTENDS SafeLong, Json
VARIABLES route, pos, phase
vars == <<route, pos, phase>>
NoRoute == [name |-> "", dom |-> "", checked |-> FALSE, total |-> TRUE]
Init == route = NoRoute /\ pos = 0 /\ phase = "pick"
Pick == /\ phase = "pick"
        /\ \E r \in Routes : \E x \in Positions : Dom(r.dom, x) /\ route' = r /\ pos' = x
        /\ phase' = "done"
Spec == Init /\ [][Pick]_vars

(* no route yields a value outside the range; everything inside the range is accepted unchanged *)
InRange == phase = "done" => (Mech(route, pos) = "ok" => InSafe(pos))
Total   == phase = "done" => (InSafe(pos) /\ route.total => Mech(route, pos) = "ok")
Agrees  == phase = "done" => Mech(route, pos) \in PropAllows(route, pos)

Emit == phase = "done" =>
          PrintT(<<"CASE", ToJson([route |-> route.name, dom |-> route.dom, pos |-> pos,
                                   point |-> IF pos % 2 = 1 THEN Points[(pos + 1) \div 2] ELSE "",
                                   lo |-> IF pos % 2 = 0 THEN Points[pos \div 2] ELSE "",
                                   hi |-> IF pos % 2 = 0 THEN Points[pos \div 2 + 1] ELSE "",
                                   mech |-> Mech(route, pos), prop |-> PropAllows(route, pos), total |-> route.total])>>)
=============================================================================
