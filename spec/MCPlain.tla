--------------------------- MODULE MCPlain ---------------------------
EXTENDS Plain, Json
VARIABLES ty, cls, phase, text
vars == <<ty, cls, phase, text>>
Init == ty = "" /\ cls = "" /\ phase = "pick" /\ text = <<>>
Pick == phase = "pick" /\ (\E t \in Types : \E c \in ClassesOf(t) : ty' = t /\ cls' = c) /\ phase' = "value" /\ UNCHANGED text
DoPrint == phase = "value" /\ text' = <<MechPrint(ty, cls)>> /\ phase' = "printed" /\ UNCHANGED <<ty, cls>>
DoParse == phase = "printed" /\ phase' = "parsed" /\ UNCHANGED <<ty, cls, text>>
Spec == Init /\ [][Pick \/ DoPrint \/ DoParse]_vars
Law == phase = "parsed" => MechParse(ty, text[1]) = cls
FixedSpellings == phase = "printed" /\ ty = "double" /\ cls \in {"nan", "inf", "ninf"} => text[1].lit = Spelling(ty, cls)
Emit == phase = "parsed" => PrintT(<<"CASE", ToJson([ty |-> ty, cls |-> cls, spelling |-> Spelling(ty, cls)])>>)
=============================================================================
