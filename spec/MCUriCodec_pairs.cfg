SPECIFICATION Spec
CONSTANTS
  Mode = "pairs"
  MaxUriLen = 65534
  MaxQ = 2
  EmitMod = 1
INVARIANTS NoPanic Syntax Structure Emit
CHECK_DEADLOCK FALSE
