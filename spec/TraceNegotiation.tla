--------------------------- MODULE TraceNegotiation ---------------------------
(* I->S for C11: each line is one recorded call of the real runtime, with the abstract input the     *)
(* driver concretised and the observed choice (0 = rejected, k = k-th registered encoding).          *)
(*   {"ev":"response","ranges":[..],"encs":[..],"chosen":k}                                          *)
(*   {"ev":"request","ct":{ty,sub,np},"encs":[..],"chosen":k}                                        *)
EXTENDS Negotiation, Json, IOUtils

Rec == ndJsonDeserialize(IOEnv.TRACE)
VARIABLES l
TInit == l = 1
EffOf(r) == IF r = <<>> THEN <<[ty |-> Star, sub |-> Star, np |-> 0, q |-> 1000]>> ELSE r

PropOkResponse(ranges, encs, c) ==
    LET eff == EffOf(ranges) IN
    IF Ambiguous(eff, encs)
    THEN /\ (c # 0 => (MatchIdx(eff, encs[c]) # {} /\ \E i \in Governing(eff, encs[c]) : eff[i].q > 0))
         /\ ((\E k \in 1..Len(encs) : Permitted(eff, encs[k])) => c # 0)
    ELSE c = PropChoice(ranges, encs)

TResponse == /\ l <= Len(Rec) /\ Rec[l].ev = "response" /\ l' = l + 1
             /\ LET r == Rec[l]
                    p == PropOkResponse(r.ranges, r.encs, r.chosen)
                    m == MechChoice(r.ranges, r.encs) = r.chosen
                IN /\ (~p => PrintT(<<"PROPFAIL", ToJson([line |-> l])>>))
                   /\ ((p /\ ~m) => PrintT(<<"MECHFAIL", ToJson([line |-> l])>>))

TRequest == /\ l <= Len(Rec) /\ Rec[l].ev = "request" /\ l' = l + 1
            /\ LET r == Rec[l]
                   P == PropRequest(r.ct, r.encs)
                   p == IF P = {} THEN r.chosen = 0 ELSE r.chosen \in P
                   m == MechRequest(r.ct, r.encs) = r.chosen
               IN /\ (~p => PrintT(<<"PROPFAIL", ToJson([line |-> l])>>))
                  /\ ((p /\ ~m) => PrintT(<<"MECHFAIL", ToJson([line |-> l])>>))

TNext == TResponse \/ TRequest
TSpec == TInit /\ [][TNext]_l

TraceAccepted ==
    LET d == TLCGet("stats").diameter IN
    IF d - 1 = Len(Rec) THEN TRUE
    ELSE Print(<<"UNMATCHED", ToJson([line |-> d])>>, FALSE)
=============================================================================
