SPECIFICATION Spec
INVARIANTS Laws EmitType EmitPair
CHECK_DEADLOCK FALSE
