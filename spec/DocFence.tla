--------------------------- MODULE DocFence ---------------------------
(***************************************************************************)
(* Extension X09: documentation of a definition -> the doc attributes of   *)
(* the generated item (conjure-codegen/src/context.rs::docs).  Definitions *)
(* carry Markdown; a bare code fence would become a Rust doctest and fail  *)
(* to build, so the generator marks every OPENING bare fence `ignore`.     *)
(*                                                                         *)
(* The mechanism is a one-bit state machine over the lines (in_code_block).*)
(* Prop: the generated documentation has one line per input line, each     *)
(* line is the input line after one blank; the only change is `ignore`     *)
(* appended to a bare fence that opens a block (fences pair up in order:   *)
(* odd fence lines open, even ones close); closing fences and fences that  *)
(* already carry an info string are untouched; text that merely contains   *)
(* back-ticks is not a fence.                                              *)
(***************************************************************************)
EXTENDS Integers, Sequences, FiniteSets, TLC

CONSTANTS LineClasses,   \* "text", "ticks" (back-ticks inside text), "bare", "bareblank" (fence + trailing blanks), "indented" (blanks + fence), "info" (fence + language)
          MaxLines,
          MarkClosers    \* TRUE: the mechanism forgets to toggle (marks every bare fence) - self-test of ClosersUntouched

IsFence(c) == c \in {"bare", "bareblank", "indented", "info"}
IsBare(c) == c \in {"bare", "bareblank", "indented"}

VARIABLES input,     \* lines still to read (classes)
          inBlock,   \* the generator's flag
          output,    \* <<class, marked>> per emitted line
          fences     \* fence lines seen so far (history, for the property)
vars == <<input, inBlock, output, fences>>

Step == /\ input # <<>>
        /\ LET c == Head(input) IN
             IF ~IsFence(c) THEN output' = Append(output, <<c, FALSE>>) /\ UNCHANGED <<inBlock, fences>>
             ELSE IF inBlock /\ ~MarkClosers THEN output' = Append(output, <<c, FALSE>>) /\ inBlock' = FALSE /\ fences' = fences + 1
             ELSE output' = Append(output, <<c, IsBare(c)>>) /\ inBlock' = TRUE /\ fences' = fences + 1
        /\ input' = Tail(input)

(* Prop, over the emitted prefix *)
FenceIndex(i) == Cardinality({j \in 1..i : IsFence(output[j][1])})
Pairing == inBlock = (fences % 2 = 1) \/ MarkClosers
OpenersIgnored == \A i \in 1..Len(output) : (IsBare(output[i][1]) /\ FenceIndex(i) % 2 = 1) => output[i][2]
ClosersUntouched == \A i \in 1..Len(output) : (IsFence(output[i][1]) /\ FenceIndex(i) % 2 = 0) => ~output[i][2]
OthersUntouched == \A i \in 1..Len(output) : (~IsBare(output[i][1])) => ~output[i][2]
=============================================================================
