--------------------------- MODULE SafeLong ---------------------------
(***************************************************************************)
(* C15 - No path ever produces a safelong outside the 53-bit safe range.   *)
(*                                                                         *)
(* TLC integers are 32 bit, so integers are positions on a symbolic number *)
(* line: odd position 2k-1 is the k-th named point of Points, even         *)
(* position 2k is the open interval between point k and point k+1.  The    *)
(* harness maps a point to its exact value and an interval to seeded       *)
(* samples strictly inside it.                                             *)
(*                                                                         *)
(* Mech: conjure-object/src/safe_long.rs - every route is "convert the     *)
(* input to i64 (may fail), then SafeLong::new (bounds check)", except     *)
(* From<u8..i32> which wraps without a check.  Prop: InRange / Total.      *)
(***************************************************************************)
EXTENDS Integers, Sequences, FiniteSets, TLC

Points == << "i128min", "m2p64m5", "m2p64", "i64min_m1", "i64min", "i64min_p1", "min_m2", "min_m1", "min", "min_p1",
             "i32min_m1", "i32min", "m1", "zero", "one", "fortytwo", "i32max", "i32max_p1", "u32max", "u32max_p1",
             "max_m1", "max", "max_p1", "max_p2", "i64max_m1", "i64max", "i64max_p1", "u64wrap", "u64max",
             "u64max_p1", "p2p64p5", "i128max", "i128max_p1", "u128max" >>
K == Len(Points)
Idx(name) == CHOOSE i \in 1..K : Points[i] = name
Positions == 1..(2 * K - 1)
P(name) == 2 * Idx(name) - 1
Between(lo, hi, x) == P(lo) <= x /\ x <= P(hi)

InSafe(x) == Between("min", "max", x)
InI64(x)  == Between("i64min", "i64max", x)
Dom(ty, x) == CASE ty = "i64"  -> Between("i64min", "i64max", x)
                [] ty = "u64"  -> Between("zero", "u64max", x)
                [] ty = "i128" -> Between("i128min", "i128max", x)
                [] ty = "u128" -> Between("zero", "u128max", x)
                [] ty = "i32"  -> Between("i32min", "i32max", x)
                [] ty = "u32"  -> Between("zero", "u32max", x)
                [] ty = "text" -> TRUE      \* any decimal integer literal
                [] ty = "json" -> Between("i128min", "u128max", x)

(* every construction route: its input domain and whether it bounds-checks *)
Routes == { [name |-> "new",          dom |-> "i64",  checked |-> TRUE, total |-> TRUE],
            [name |-> "try_from_i64", dom |-> "i64",  checked |-> TRUE, total |-> TRUE],
            [name |-> "try_from_u64", dom |-> "u64",  checked |-> TRUE, total |-> TRUE],
            [name |-> "try_from_i128", dom |-> "i128", checked |-> TRUE, total |-> TRUE],
            [name |-> "try_from_u128", dom |-> "u128", checked |-> TRUE, total |-> TRUE],
            [name |-> "try_from_isize", dom |-> "i64", checked |-> TRUE, total |-> TRUE],
            [name |-> "try_from_usize", dom |-> "u64", checked |-> TRUE, total |-> TRUE],
            [name |-> "from_i32",     dom |-> "i32",  checked |-> FALSE, total |-> TRUE],
            [name |-> "from_u32",     dom |-> "u32",  checked |-> FALSE, total |-> TRUE],
            [name |-> "from_str",     dom |-> "text", checked |-> TRUE, total |-> TRUE],
            [name |-> "from_plain",   dom |-> "text", checked |-> TRUE, total |-> TRUE],
            [name |-> "json_client",  dom |-> "json", checked |-> TRUE, total |-> TRUE],
            [name |-> "json_server",  dom |-> "json", checked |-> TRUE, total |-> TRUE],
            [name |-> "json_key",     dom |-> "json", checked |-> TRUE, total |-> TRUE],
            [name |-> "smile",        dom |-> "i64",  checked |-> TRUE, total |-> TRUE],
            [name |-> "smile_u64",    dom |-> "u64",  checked |-> TRUE, total |-> TRUE],
            [name |-> "smile_key",    dom |-> "i64",  checked |-> TRUE, total |-> TRUE],
            [name |-> "any_i64",      dom |-> "i64",  checked |-> TRUE, total |-> TRUE],
            [name |-> "any_u64",      dom |-> "u64",  checked |-> TRUE, total |-> TRUE],
            [name |-> "any_i128",     dom |-> "i128", checked |-> TRUE, total |-> FALSE],
            [name |-> "any_key",      dom |-> "i64",  checked |-> TRUE, total |-> TRUE],
            [name |-> "object_field", dom |-> "json", checked |-> TRUE, total |-> TRUE],
            (* two-step routes: a document is first parsed into the dynamic value, the safelong is taken from that *)
            [name |-> "json_any",     dom |-> "json", checked |-> TRUE, total |-> TRUE],
            [name |-> "json_any_key", dom |-> "json", checked |-> TRUE, total |-> TRUE],
            [name |-> "json_any_nested", dom |-> "json", checked |-> TRUE, total |-> TRUE],
            [name |-> "smile_any",    dom |-> "u64",  checked |-> TRUE, total |-> TRUE],
            (* Smile carries 128-bit integers as BigInteger: acceptance of in-range values is a don't-care (total = FALSE, *)
            (* serde's 64-bit visitors may refuse a 128-bit token), a value outside the range must never come out        *)
            [name |-> "smile_i128",   dom |-> "i128", checked |-> TRUE, total |-> FALSE],
            [name |-> "smile_u128",   dom |-> "u128", checked |-> TRUE, total |-> FALSE],
            [name |-> "smile_any_u128", dom |-> "u128", checked |-> TRUE, total |-> FALSE],
            [name |-> "smile_list_u128", dom |-> "u128", checked |-> TRUE, total |-> FALSE],
            (* the PLAIN parameter decoders of generated servers (path / query / header; single, optional, list) *)
            [name |-> "dec_param",      dom |-> "text", checked |-> TRUE, total |-> TRUE],
            [name |-> "dec_param_opt",  dom |-> "text", checked |-> TRUE, total |-> TRUE],
            [name |-> "dec_param_seq",  dom |-> "text", checked |-> TRUE, total |-> TRUE],
            [name |-> "dec_header",     dom |-> "text", checked |-> TRUE, total |-> TRUE],
            [name |-> "dec_header_opt", dom |-> "text", checked |-> TRUE, total |-> TRUE] }

(* Mech: "ok" keeps the value; the unchecked routes accept everything in their (narrow) domain.            *)
(* total = FALSE marks a route whose acceptance the property does not demand: a dynamic value built from a  *)
(* Rust i128 is carried as a 128-bit integer, which serde's 64-bit visitors never accept (don't-care).      *)
(* serde_smile hands a BigInteger that fits 64 bits to the 64-bit visitors: the Smile 128-bit routes behave like checked ones *)
Narrowing == {"smile_i128", "smile_u128", "smile_any_u128", "smile_list_u128"}
Mech(r, x) == IF r.name \in Narrowing THEN (IF InSafe(x) THEN "ok" ELSE "err")
              ELSE IF ~r.total THEN "err"
              ELSE IF ~r.checked THEN "ok"
              ELSE IF ~InI64(x) THEN "err"          \* i64::try_from / i64::from_str / i64::deserialize fails
              ELSE IF InSafe(x) THEN "ok" ELSE "err" \* SafeLong::new

(* Prop *)
PropVerdict(x) == IF InSafe(x) THEN "ok" ELSE "err"
PropAllows(r, x) == IF InSafe(x) THEN (IF r.total THEN {"ok"} ELSE {"ok", "err"}) ELSE {"err"}
=============================================================================
