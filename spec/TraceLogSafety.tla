--------------------------- MODULE TraceLogSafety ---------------------------
(* I->S: validates logs recorded from the real generator (hook in context.rs, *)
(* guard --cfg conjure_rust_verif) against the actions of LogSafety.          *)
(* One line per spec action:                                                   *)
(*   {"ev":"table","tab":[..]}                      a new Context (fresh memo) *)
(*   {"ev":"arg","arg":{decl,legacy,ty},"safe":b,"events":[{k,t,v,m}..]}       *)
(*                                                  one call of is_safe_arg    *)
(* The Prop verdict (logged flag = RefSafeArg) and the Mech verdict (logged    *)
(* flag and recursion events = prediction of EvArg) are kept apart: a Prop     *)
(* mismatch is a violation of C08 by the real code, a Mech-only mismatch is    *)
(* model drift.                                                                *)
EXTENDS LogSafety, Json, IOUtils

Rec == ndJsonDeserialize(IOEnv.TRACE)

VARIABLES l, tab, st, propOk, mechOk
tvars == <<l, tab, st, propOk, mechOk>>

TInit == /\ l = 1 /\ tab = <<>> /\ st = S0(0) /\ propOk = TRUE /\ mechOk = TRUE

IsEvent(e) == l <= Len(Rec) /\ Rec[l].ev = e /\ l' = l + 1

TTable == /\ IsEvent("table")
          /\ tab' = Rec[l].tab
          /\ st' = S0(Len(Rec[l].tab))
          /\ UNCHANGED <<propOk, mechOk>>

TArg == /\ IsEvent("arg")
        /\ LET a == Rec[l].arg
               r == EvArg(tab, a, [st EXCEPT !.ev = <<>>])
               p == Rec[l].safe = RefSafeArg(tab, a)
               m == r.v = Rec[l].safe /\ r.s.ev = Rec[l].events
           IN /\ st' = [r.s EXCEPT !.ev = <<>>]
              /\ propOk' = p
              /\ mechOk' = m
              /\ (~p => PrintT(<<"PROPFAIL", ToJson([line |-> l, arg |-> a, observed |-> Rec[l].safe])>>))
              /\ ((p /\ ~m) => PrintT(<<"MECHFAIL", ToJson([line |-> l, predicted |-> r.s.ev, safe |-> r.v])>>))
        /\ UNCHANGED tab

TNext == TTable \/ TArg
TSpec == TInit /\ [][TNext]_tvars

(* every line was consumed: the search depth equals the number of lines + 1 *)
TraceAccepted ==
    LET d == TLCGet("stats").diameter IN
    IF d - 1 = Len(Rec) THEN TRUE
    ELSE Print(<<"UNMATCHED", ToJson([line |-> d, rec |-> IF d <= Len(Rec) THEN Rec[d] ELSE [ev |-> "eof"]])>>, FALSE)
=============================================================================
