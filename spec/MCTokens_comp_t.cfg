SPECIFICATION Spec
CONSTANTS
  Mode = "components"
  MaxLen = 2
  EmitMod = 100
INVARIANTS TokenExact RidExact RidPartsJoin ComponentsExact Emit
CHECK_DEADLOCK FALSE
