SPECIFICATION Spec
CONSTANTS
  Methods <- MCMethods
  Classes <- MCClasses
  Auths <- MCAuths
  NameKinds <- MCNameKinds
  PathKinds <- MCPathKinds
  IterableFirst = TRUE
INVARIANTS ServerAgrees ProducesAgrees ClientAgrees SidesConsistent
CHECK_DEADLOCK FALSE
