SPECIFICATION Spec
CONSTANTS
  StringIsCollection = FALSE
INVARIANTS ReturnEqualInv NoContentInv Emit
CHECK_DEADLOCK FALSE
