SPECIFICATION Spec
CONSTANTS
  Args <- ArgsAttrs
  MaxFaults = 3
  EndpointName = "Attrs"
INVARIANTS Props Emit
CHECK_DEADLOCK FALSE
