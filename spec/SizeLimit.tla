--------------------------- MODULE SizeLimit ---------------------------
(***************************************************************************)
(* Extension X06 (links C03 and C06): the request size limit of an         *)
(* endpoint, from the `server-limit-request-size: <size>` tag of the       *)
(* definition to the limit the generated endpoint enforces -               *)
(* conjure-codegen/src/human_size.rs, servers.rs::request_size_limit, and  *)
(* the `StdRequestDeserializer<N>` the generated trait names.              *)
(*                                                                         *)
(* A size text is digits, optional blanks, a unit spelling.  Prop (the     *)
(* documented meaning): decimal units are powers of 1000 (k, kb, m, mb,    *)
(* g, gb, t, tb), binary units powers of 1024 (ki, kib, ...), `b` or no    *)
(* unit is bytes, letter case and blanks around the unit do not matter,    *)
(* anything else is refused; an endpoint carries at most one such tag; an  *)
(* endpoint without the tag keeps the default limit.                       *)
(* Mech (human_size::parse): split at the first non-digit, trim both       *)
(* halves, lower-case the unit, table lookup, multiply.                    *)
(***************************************************************************)
EXTENDS Integers, Sequences, FiniteSets, TLC

CONSTANTS Digits,        \* digit strings, as <<text, value>>
          Units,         \* unit spellings as <<text, lower-case text>>
          Blanks,        \* blank strings between number and unit
          KbIsBinary     \* TRUE: the mechanism reads "kb" as 1024 (self-test of ParseAgrees)

(* TLC integers are 32-bit: a multiplier is the pair <<base, exponent>> (1000^k or 1024^k); <<0, 0>> = not a unit *)
Dec(u) == CASE u \in {"k", "kb"} -> 1 [] u \in {"m", "mb"} -> 2 [] u \in {"g", "gb"} -> 3 [] u \in {"t", "tb"} -> 4 [] OTHER -> 0
Bin(u) == CASE u \in {"ki", "kib"} -> 1 [] u \in {"mi", "mib"} -> 2 [] u \in {"gi", "gib"} -> 3 [] u \in {"ti", "tib"} -> 4 [] OTHER -> 0
(* Prop: the multiplier a unit spelling stands for *)
PropMultiplier(lower) == IF lower \in {"", "b"} THEN <<1, 0>> ELSE IF Dec(lower) # 0 THEN <<1000, Dec(lower)>>
                         ELSE IF Bin(lower) # 0 THEN <<1024, Bin(lower)>> ELSE <<0, 0>>
Bad == [n |-> -1, base |-> 0, exp |-> 0]
PropParse(d, lower) == IF d[1] = "" \/ PropMultiplier(lower) = <<0, 0>> THEN Bad
                       ELSE [n |-> d[2], base |-> PropMultiplier(lower)[1], exp |-> PropMultiplier(lower)[2]]

(* Mech: the match of human_size::parse, arm by arm *)
MechMultiplier(lower) ==
    CASE lower \in {"b", ""} -> <<1, 0>>
      [] lower \in {"k", "kb"} -> IF KbIsBinary /\ lower = "kb" THEN <<1024, 1>> ELSE <<1000, 1>>
      [] lower \in {"ki", "kib"} -> <<1024, 1>>
      [] lower \in {"m", "mb"} -> <<1000, 2>>
      [] lower \in {"mi", "mib"} -> <<1024, 2>>
      [] lower \in {"g", "gb"} -> <<1000, 3>>
      [] lower \in {"gi", "gib"} -> <<1024, 3>>
      [] lower \in {"t", "tb"} -> <<1000, 4>>
      [] lower \in {"ti", "tib"} -> <<1024, 4>>
      [] OTHER -> <<0, 0>>
(* an empty digit string fails `parse::<usize>()`; blanks are trimmed on both halves *)
MechParse(d, lower) == IF d[1] = "" THEN Bad ELSE IF MechMultiplier(lower) = <<0, 0>> THEN Bad
                       ELSE [n |-> d[2], base |-> MechMultiplier(lower)[1], exp |-> MechMultiplier(lower)[2]]

(* the endpoint: a sequence of tags; size tags carry a parse result *)
MechLimit(sizes) == IF Len(sizes) = 0 THEN "default" ELSE IF Len(sizes) > 1 THEN "error" ELSE IF sizes[1] = Bad THEN "error" ELSE "limit"
PropLimit(sizes) == IF Len(sizes) = 0 THEN "default" ELSE IF Len(sizes) > 1 \/ sizes[1] = Bad THEN "error" ELSE "limit"
=============================================================================
