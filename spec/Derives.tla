--------------------------- MODULE Derives ---------------------------
(***************************************************************************)
(* Extension X02 (feeds C14's selection and C20's determinism): which      *)
(* comparison strategy the generator selects for an object - `Educe` with  *)
(* DoubleOps methods, or plain `derive(PartialEq, Eq, PartialOrd, Ord,     *)
(* Hash)` - conjure-codegen/src/context.rs has_double / ref_has_double and *)
(* objects.rs::generate.                                                   *)
(*                                                                         *)
(* A definition is a sequence of object types; a field is a reference to   *)
(* another type of the definition (through optional, so cycles are legal)  *)
(* or a double or an integer.                                              *)
(* Mech: objects are generated in IR order; for each, `any field           *)
(* has_double`; references go through a memo with a provisional `false`    *)
(* entry that breaks cycles - so the answer for a type inside a cycle      *)
(* depends on which member is asked first.                                 *)
(* Prop (what must hold whatever the order):                               *)
(*   PlainIsValid  - plain derive only if no field holds a bare f64        *)
(*                   (references always implement Eq/Ord/Hash themselves)  *)
(*   EduceIfDirect - a type with a double field uses Educe                 *)
(*   Functional    - the selection is a function of the definition (IR     *)
(*                   order is part of the definition); it must not depend  *)
(*                   on anything else - an evaluation order drawn from a   *)
(*                   hash seed (PrewarmOrder # IR order) breaks this.      *)
(***************************************************************************)
EXTENDS Integers, Sequences, FiniteSets, TLC

(* field: 0 = integer, -1 = double, j > 0 = optional<reference to type j> *)
IsRef(f) == f > 0
Direct(def, i) == \E k \in 1..Len(def[i]) : def[i][k] = -1

(* ---- memoised evaluation: memo[j] \in {"none", "true", "false"}; returns <<answer, memo'>> ---- *)
RECURSIVE RefHasDouble(_, _, _), AnyField(_, _, _, _)
AnyField(def, i, k, memo) ==            \* `fields.iter().any(..)` from field k on: short-circuits at the first true
    IF k > Len(def[i]) THEN <<FALSE, memo>>
    ELSE LET f == def[i][k] IN
         IF f = -1 THEN <<TRUE, memo>>
         ELSE IF f = 0 THEN AnyField(def, i, k + 1, memo)
         ELSE LET r == RefHasDouble(def, f, memo) IN
              IF r[1] THEN r ELSE AnyField(def, i, k + 1, r[2])
RefHasDouble(def, j, memo) ==
    IF memo[j] # "none" THEN <<memo[j] = "true", memo>>
    ELSE LET r == AnyField(def, j, 1, [memo EXCEPT ![j] = "false"])      \* provisional entry breaks cycles
         IN <<r[1], [r[2] EXCEPT ![j] = IF r[1] THEN "true" ELSE "false"]>>

EmptyMemo(def) == [j \in 1..Len(def) |-> "none"]
(* Context::new(..) optionally followed by cache warming in the given order (the pinned tree warms nothing) *)
RECURSIVE Warm(_, _, _)
Warm(def, order, memo) == IF order = <<>> THEN memo ELSE Warm(def, Tail(order), RefHasDouble(def, Head(order), memo)[2])
(* create_modules: objects in IR order; the strategy of object i is decided from its FIELDS *)
RECURSIVE Generate(_, _, _, _)
Generate(def, i, memo, acc) ==
    IF i > Len(def) THEN acc
    ELSE LET r == AnyField(def, i, 1, memo) IN Generate(def, i + 1, r[2], Append(acc, IF r[1] THEN "educe" ELSE "plain"))
Selection(def, warm) == Generate(def, 1, Warm(def, warm, EmptyMemo(def)), <<>>)
(* the same with the objects visited in another order (e.g. grouped by package through a hash map): acc is indexed by type *)
RECURSIVE GenerateIn(_, _, _, _)
GenerateIn(def, order, memo, acc) ==
    IF order = <<>> THEN acc
    ELSE LET i == Head(order) r == AnyField(def, i, 1, memo) IN
         GenerateIn(def, Tail(order), r[2], [acc EXCEPT ![i] = IF r[1] THEN "educe" ELSE "plain"])
SelectionIn(def, order) == GenerateIn(def, order, EmptyMemo(def), [i \in 1..Len(def) |-> "none"])

(* ---- property layer ---- *)
PlainIsValid(def, sel) == \A i \in 1..Len(def) : sel[i] = "plain" => ~Direct(def, i)
EduceIfDirect(def, sel) == \A i \in 1..Len(def) : Direct(def, i) => sel[i] = "educe"
(* reference semantics (least fixpoint): a double is reachable *)
RECURSIVE Reach(_, _, _)
Reach(def, S, n) == IF n = 0 THEN S ELSE Reach(def, S \cup {f \in 1..Len(def) : \E i \in S : \E k \in 1..Len(def[i]) : def[i][k] = f}, n - 1)
Reachable(def, i) == \E j \in Reach(def, {i}, Len(def)) : Direct(def, j)
(* the memo never claims a double where none is reachable (the converse fails inside cycles, by design) *)
NoSpuriousEduce(def, sel) == \A i \in 1..Len(def) : sel[i] = "educe" => Reachable(def, i)
=============================================================================
