SPECIFICATION Spec
CONSTANTS
  Args <- ArgsSafeBody
  MaxFaults = 2
  EndpointName = "SafeBody"
INVARIANTS Props Emit
CHECK_DEADLOCK FALSE
