SPECIFICATION Spec
CONSTANTS
  AliasFuel = 9
  SerializeEmpty = TRUE
  Exhaustive = TRUE
INVARIANTS FieldAgrees UnionAgrees KnownNeverUnknown ExhaustiveRejectsUnlisted Emit
CHECK_DEADLOCK FALSE
