SPECIFICATION Spec
CONSTANTS
  Keys = {"ka", "kb"}
  Vals = {"v1", "v2"}
  MaxSteps = 2
  EmitMod = 23
  MoveSemantics = TRUE
INVARIANTS LastWriteWins CtorPartition BacktraceLog Emit
PROPERTIES KindStable Independent IndependentU
CHECK_DEADLOCK FALSE
