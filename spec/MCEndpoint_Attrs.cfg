SPECIFICATION Spec
CONSTANTS
  Args <- ArgsAttrs
  MaxFaults = 2
  EndpointName = "Attrs"
INVARIANTS Props Emit
CHECK_DEADLOCK FALSE
