--------------------------- MODULE Generate ---------------------------
(***************************************************************************)
(* C20 - code generation is a FUNCTION of (definition, configuration):     *)
(*   two processes (different hash seeds) emit the same tree, the command  *)
(*   line tool and the library agree, files appear only below the output   *)
(*   directory.                                                            *)
(*                                                                         *)
(* State of one generation (conjure-codegen/src/lib.rs):                   *)
(*   - Config {exhaustive, serialize_empty_collections, strip_prefix,      *)
(*     version, build_crate}                                               *)
(*   - the IR's items in IR order: types, then errors, then services       *)
(*     (create_modules walks defs.types(), defs.errors(), defs.services()) *)
(*   - ModuleTrie: types: Vec (insertion order), submodules: BTreeMap      *)
(*   - Cargo.toml: dependencies: BTreeMap (crate mode only)                *)
(*   - Context.types: HashMap - lookups only                               *)
(* The per-process hash seed is modelled as the iteration order a HashMap  *)
(* presents (a ranking of its keys).  Mech never iterates one; the two     *)
(* flags below switch on the realistic regressions (self-tests).           *)
(*                                                                         *)
(* Command line (conjure-rust/src/main.rs): flag forms -> Config.          *)
(*   Prop (the tool's help text): --exhaustive[=true|false], bare = true,  *)
(*   absent = false; --crateVersion defaults to --productVersion; the      *)
(*   product version is the version in endpoint metadata.                  *)
(***************************************************************************)
EXTENDS Modules

CONSTANTS HashMapDeps,      \* TRUE: Cargo.toml dependencies kept in a HashMap (regression)
          IterateTypeTable  \* TRUE: root modules emitted by iterating Context.types (regression)

Kinds == <<"type", "error", "service">>
KindRank(k) == CASE k = "type" -> 1 [] k = "error" -> 2 [] OTHER -> 3

(* ---- command line ---- *)
BoolForms == {"absent", "bare", "true", "false"}
FlagBoolProp(f) == f \in {"bare", "true"}
(* clap: default_value "false", default_missing_value "true", action Set *)
FlagBoolMech(f) == CASE f = "absent" -> FALSE [] f = "bare" -> TRUE [] f = "true" -> TRUE [] OTHER -> FALSE

(* clap `requires`: productName <-> productVersion, crateVersion -> productVersion *)
FlagsAccepted(fl) == /\ (fl.pname # "none") <=> (fl.pver # "none")
                     /\ (fl.cver # "none") => (fl.pver # "none")

ConfigOf(fl, B(_)) == [exhaustive |-> B(fl.ex), serialize_empty_collections |-> B(fl.sec), strip_prefix |-> fl.strip,
                       crate_name |-> fl.pname,
                       crate_version |-> IF fl.pname = "none" THEN "none" ELSE IF fl.cver # "none" THEN fl.cver ELSE fl.pver,
                       version |-> fl.pver]
LibConfig(fl) == ConfigOf(fl, FlagBoolProp)     \* the library configuration "equivalent" to the flags (Prop)
CliConfig(fl) == ConfigOf(fl, FlagBoolMech)     \* what main.rs builds (Mech)
IsCrate(cfg) == cfg.crate_name # "none"
(* Config::version: "Defaults to the version passed to build_crate, or None otherwise" *)
EndpointVersion(cfg) == IF cfg.version # "none" THEN cfg.version ELSE cfg.crate_version

(* ---- emitted tree ---- *)
Root(cfg) == IF IsCrate(cfg) THEN <<"src">> ELSE <<>>
RootFile(cfg, d) == IF d = <<>> /\ IsCrate(cfg) THEN "lib.rs" ELSE "mod.rs"
Files(def, cfg) ==
    LET p == cfg.strip_prefix IN
    {Root(cfg) \o d \o <<RootFile(cfg, d)>> : d \in Dirs(def, p)}
    \cup {Root(cfg) \o ModulePath(def[i], p) \o <<ModName(def[i]) \o ".rs">> : i \in 1..Len(def)}
    \cup (IF IsCrate(cfg) THEN {<<"Cargo.toml">>, <<"rustfmt.toml">>} ELSE {})

DepNames == {"conjure-object", "conjure-error", "conjure-http"}
DepRank(n) == CASE n = "conjure-error" -> 1 [] n = "conjure-http" -> 2 [] OTHER -> 3     \* byte order
Has(def, k) == \E i \in 1..Len(def) : def[i].kind = k
Needed(def) == (IF Len(def) > 0 THEN {"conjure-object"} ELSE {})
               \cup (IF Has(def, "error") THEN {"conjure-error"} ELSE {})
               \cup (IF Has(def, "service") THEN {"conjure-http"} ELSE {})
RECURSIVE OrderBy(_, _)
OrderBy(S, rank) == IF S = {} THEN <<>> ELSE LET m == CHOOSE x \in S : \A y \in S : rank[x] <= rank[y] IN <<m>> \o OrderBy(S \ {m}, rank)
(* a seed: the order in which this process's HashMaps present their keys *)
DepSeeds == {r \in [DepNames -> 1..3] : \A a, b \in DepNames : a # b => r[a] # r[b]}
BTreeDeps == [n \in DepNames |-> DepRank(n)]
CargoDeps(def, cfg, seed) == IF ~IsCrate(cfg) THEN <<>> ELSE OrderBy(Needed(def), IF HashMapDeps THEN seed.deps ELSE BTreeDeps)

(* item order of the root of directory d *)
ItemSeeds(n) == {r \in [1..n -> 1..n] : \A a, b \in 1..n : a # b => r[a] # r[b]}
Reordered(def, seed) == LET n == Len(def) idx == OrderBy(1..n, seed.items) IN [k \in 1..n |-> def[idx[k]]]
ModsOf(def, cfg, seed, d) == ModRsMods(IF IterateTypeTable THEN Reordered(def, seed) ELSE def, cfg.strip_prefix, d)

Out(def, cfg, seed) == [files |-> Files(def, cfg),
                        mods |-> [d \in Dirs(def, cfg.strip_prefix) |-> ModsOf(def, cfg, seed, d)],
                        deps |-> CargoDeps(def, cfg, seed),
                        package |-> <<cfg.crate_name, cfg.crate_version>>,
                        endpoint_version |-> EndpointVersion(cfg),
                        exhaustive |-> cfg.exhaustive, sec |-> cfg.serialize_empty_collections]

(* ---- properties ---- *)
Deterministic(def, cfg, s1, s2) == Out(def, cfg, s1) = Out(def, cfg, s2)
CliEqualsLib(def, fl, s1, s2) == Out(def, CliConfig(fl), s1) = Out(def, LibConfig(fl), s2)
(* every emitted path is a non-empty relative path of plain components: beneath the output directory *)
Confined(def, cfg) == \A f \in Files(def, cfg) : Len(f) >= 1 /\ \A i \in 1..Len(f) : f[i] \notin {"", ".", ".."}
=============================================================================
