--------------------------- MODULE MCCallMatrix ---------------------------
(* C04: the (parameter kind, text class) matrix with what the code does (Carry) and what the property permits (Allowed). *)
EXTENDS Endpoint, Json
NoArgs == <<>>
VARIABLES kind, cls, phase
vars == <<kind, cls, phase>>
Init == kind = "" /\ cls = "" /\ phase = "pick"
Pick == phase = "pick" /\ (\E k \in {"path", "query", "header", "body"} : \E c \in TextClasses : kind' = k /\ cls' = c) /\ phase' = "done"
Spec == Init /\ [][Pick]_vars
NeverAltered == phase = "done" => Carry(kind, cls) \in Allowed(kind, cls)
Emit == phase = "done" => PrintT(<<"CASE", ToJson([kind |-> kind, cls |-> cls, carry |-> Carry(kind, cls), allowed |-> Allowed(kind, cls)])>>)
=============================================================================
