use serde_json::Value;
use std::io::{self, BufRead, Write};
use std::panic::{self, AssertUnwindSafe};

/// Reads NDJSON from stdin.
pub fn read_cases() -> Vec<Value> {
    let stdin = io::stdin();
    let mut out = vec![];
    for line in stdin.lock().lines() {
        let line = line.expect("stdin");
        let line = line.trim();
        if line.is_empty() {
            continue;
        }
        out.push(serde_json::from_str(line).expect("case json"));
    }
    out
}

pub fn emit(v: &Value) {
    let out = io::stdout();
    let mut out = out.lock();
    serde_json::to_writer(&mut out, v).unwrap();
    out.write_all(b"\n").unwrap();
}

/// Runs `f`, turning a panic of the code under test into `Err(message)`.
pub fn catch<T>(f: impl FnOnce() -> T) -> Result<T, String> {
    match panic::catch_unwind(AssertUnwindSafe(f)) {
        Ok(v) => Ok(v),
        Err(e) => {
            let msg = if let Some(s) = e.downcast_ref::<&str>() {
                s.to_string()
            } else if let Some(s) = e.downcast_ref::<String>() {
                s.clone()
            } else {
                "panic".to_string()
            };
            Err(msg)
        }
    }
}

pub fn silence_panics() {
    if std::env::var("VERIF_SHOW_PANICS").is_ok() {
        return;
    }
    panic::set_hook(Box::new(|_| {}));
}

/// splitmix64
#[derive(Clone)]
pub struct Rng(pub u64);

impl Rng {
    pub fn new(seed: u64) -> Rng {
        Rng(seed.wrapping_mul(0x9E3779B97F4A7C15).wrapping_add(0x1234567))
    }
    pub fn next(&mut self) -> u64 {
        self.0 = self.0.wrapping_add(0x9E3779B97F4A7C15);
        let mut z = self.0;
        z = (z ^ (z >> 30)).wrapping_mul(0xBF58476D1CE4E5B9);
        z = (z ^ (z >> 27)).wrapping_mul(0x94D049BB133111EB);
        z ^ (z >> 31)
    }
    pub fn below(&mut self, n: u64) -> u64 {
        self.next() % n.max(1)
    }
    pub fn chance(&mut self, num: u64, den: u64) -> bool {
        self.below(den) < num
    }
    pub fn pick<'a, T>(&mut self, xs: &'a [T]) -> &'a T {
        &xs[self.below(xs.len() as u64) as usize]
    }
}
