//! C01 / C05: the conjure-serde JSON and Smile wrappers, driven with shape-directed dynamic values.
use crate::dynval::{type_from_json, val_from_json, val_to_json, DynType, DynVal, VariantType};
use crate::recser::RecSer;
use crate::util::{catch, emit, read_cases, silence_panics, Rng};
use conjure_serde::verif::ser as hook;
use serde::de::DeserializeSeed;
use serde::Serialize;
use serde_json::{json, Value};

// ---------------------------------------------------------------------------------------------------------------
// building a value from (path, leaf)

fn leaf_value(leaf: &str, rng: &mut Rng) -> (DynVal, DynType) {
    match leaf {
        "bool" => (DynVal::Bool(rng.chance(1, 2)), DynType::Bool),
        "i32" => (DynVal::I32(*rng.pick(&[0, -1, i32::MAX, i32::MIN, 42])), DynType::I32),
        "i64" => (DynVal::I64(*rng.pick(&[0, -1, i64::MAX, i64::MIN, 1 << 53])), DynType::I64),
        "f64fin" => (DynVal::F64(*rng.pick(&[1.5, -0.0, 0.1, 1e300, 5e-324, -2.25, 3.0])), DynType::F64),
        "f64nan" => (DynVal::F64(f64::from_bits(*rng.pick(&[0x7ff8000000000000u64, 0xfff8000000000001]))), DynType::F64),
        "f64inf" => (DynVal::F64(f64::INFINITY), DynType::F64),
        "f64ninf" => (DynVal::F64(f64::NEG_INFINITY), DynType::F64),
        "str" => (DynVal::Str(rng.pick(&["hello", "", "héllo ☃", "a\"b", "true", "1.5"]).to_string()), DynType::Str),
        "strNaN" => (DynVal::Str(rng.pick(&["NaN", "Infinity", "-Infinity", "AQID"]).to_string()), DynType::Str),
        "bytes0" => (DynVal::Bytes(vec![]), DynType::Bytes),
        "bytes1" => (DynVal::Bytes(vec![rng.below(256) as u8]), DynType::Bytes),
        "bytes2" => (DynVal::Bytes(vec![0xfb, 0xff]), DynType::Bytes),
        "bytes3" => (DynVal::Bytes(vec![0xfb, 0xef, 0xbe]), DynType::Bytes),
        "bytesbig" => {
            let n = *rng.pick(&[1024usize, 1025, 2049, 3073, 4096]);
            (DynVal::Bytes((0..n).map(|i| (i * 31 % 251) as u8).collect()), DynType::Bytes)
        }
        "uuid" => (DynVal::Uuid("6ba7b810-9dad-11d1-80b4-00c04fd430c8".parse().unwrap()), DynType::Uuid),
        "enum" => (DynVal::UnitVariant(0), DynType::Enum(vec![VariantType::Unit, VariantType::Unit])),
        "unit" => (DynVal::Unit, DynType::Unit),
        "rid" => (DynVal::Rid("ri.a.b.c.d".parse().unwrap()), DynType::Rid),
        "bearer" => (DynVal::Bearer("abc.def=".parse().unwrap()), DynType::Bearer),
        "safelong" => (DynVal::SafeLong(conjure_object::SafeLong::new(*rng.pick(&[0, -9007199254740991, 9007199254740991])).unwrap()), DynType::SafeLong),
        "datetime" => (DynVal::DateTime("2017-01-02T03:04:05.000000006Z".parse().unwrap()), DynType::DateTime),
        "doublekey" => (DynVal::DoubleKey(conjure_object::DoubleKey(*rng.pick(&[1.5, f64::NAN, f64::INFINITY, 0.1, -1e300, 5e-324, 16777217.0,
            f64::from_bits(0xfff8000000000000), f64::from_bits(0x7ff8000000000123)]))), DynType::DoubleKey),
        "struct" => (
            DynVal::Struct(vec![("a", DynVal::I32(1)), ("b", DynVal::Str("x".into()))]),
            DynType::Struct(vec![("a", DynType::I32), ("b", DynType::Str)]),
        ),
        // C05: objects with no / one declared field (a struct visitor with an empty field list is a path of its own)
        "struct0" => (DynVal::Struct(vec![]), DynType::Struct(vec![])),
        "struct1" => (DynVal::Struct(vec![("a", DynVal::I32(1))]), DynType::Struct(vec![("a", DynType::I32)])),
        other => panic!("harness: unknown leaf {other}"),
    }
}

fn wrap(step: &str, c: (DynVal, DynType)) -> (DynVal, DynType) {
    let (v, t) = c;
    match step {
        "some" => (DynVal::Some(Box::new(v)), DynType::Option(Box::new(t))),
        "newtype_struct" => (DynVal::NewtypeStruct(Box::new(v)), DynType::NewtypeStruct(Box::new(t))),
        "newtype_variant" => (DynVal::NewtypeVariant(1, Box::new(v)), DynType::Enum(vec![VariantType::Unit, VariantType::Newtype(t)])),
        "seq_elem" => (DynVal::Seq(vec![v]), DynType::Seq(Box::new(t))),
        "tuple_elem" => (DynVal::Tuple(vec![DynVal::I32(7), v]), DynType::Tuple(vec![DynType::I32, t])),
        "tuple_struct_field" => (DynVal::TupleStruct(vec![v, DynVal::Str("t".into())]), DynType::TupleStruct(vec![t, DynType::Str])),
        "tuple_variant_field" => (
            DynVal::TupleVariant(2, vec![v]),
            DynType::Enum(vec![VariantType::Unit, VariantType::Unit, VariantType::Tuple(vec![t])]),
        ),
        "map_value" => (DynVal::Map(vec![(DynVal::Str("k".into()), v)]), DynType::Map(Box::new(DynType::Str), Box::new(t))),
        "map_key" => (DynVal::Map(vec![(v, DynVal::I32(1))]), DynType::Map(Box::new(t), Box::new(DynType::I32))),
        "struct_field" => (
            DynVal::Struct(vec![("a", DynVal::I32(1)), ("b", v)]),
            DynType::Struct(vec![("a", DynType::I32), ("b", t)]),
        ),
        "struct_variant_field" => (
            DynVal::StructVariant(3, vec![("x", v)]),
            DynType::Enum(vec![VariantType::Unit, VariantType::Unit, VariantType::Unit, VariantType::Struct(vec![("x", t)])]),
        ),
        other => panic!("harness: unknown step {other}"),
    }
}

pub fn build(path: &[String], leaf: &str, rng: &mut Rng) -> (DynVal, DynType) {
    let mut cur = leaf_value(leaf, rng);
    for step in path.iter().rev() {
        cur = wrap(step, cur);
    }
    cur
}

// ---------------------------------------------------------------------------------------------------------------
// tokenising the output with the plain (non-Conjure) parsers and walking to the leaf

fn json_token(v: &Value) -> Value {
    match v {
        Value::Null => json!({"k": "Null"}),
        Value::Bool(b) => json!({"k": "Bool", "text": b.to_string()}),
        Value::Number(n) => json!({"k": "Num", "text": n.to_string()}),
        Value::String(s) => json!({"k": "Str", "text": s}),
        Value::Array(a) => json!({"k": "Arr", "len": a.len()}),
        Value::Object(o) => json!({"k": "Obj", "len": o.len()}),
    }
}

fn walk_json<'a>(mut v: &'a Value, path: &[String]) -> Result<Value, String> {
    for (i, step) in path.iter().enumerate() {
        let next = match step.as_str() {
            "some" | "newtype_struct" => Some(v),
            "newtype_variant" => v.get("B"),
            "seq_elem" | "tuple_struct_field" => v.get(0),
            "tuple_elem" => v.get(1),
            "tuple_variant_field" => v.get("C").and_then(|x| x.get(0)),
            "map_value" => v.get("k"),
            "struct_field" => v.get("b"),
            "struct_variant_field" => v.get("D").and_then(|x| x.get("x")),
            "map_key" => {
                // the key text itself is the token; only newtype_struct steps (transparent) may follow
                let o = v.as_object().ok_or("map expected")?;
                if o.len() != 1 {
                    return Err(format!("map with {} keys", o.len()));
                }
                if path[i + 1..].iter().any(|s| s != "newtype_struct") {
                    return Err("container below a key".into());
                }
                return Ok(json!({"k": "Str", "text": o.keys().next().unwrap(), "is_key": true}));
            }
            other => return Err(format!("unknown step {other}")),
        };
        v = next.ok_or_else(|| format!("path step {step} not found in output"))?;
    }
    Ok(json_token(v))
}

use serde_smile::value::Value as SV;

fn smile_token(v: &SV) -> Value {
    match v {
        SV::Null => json!({"k": "Null"}),
        SV::Boolean(b) => json!({"k": "Bool", "text": b.to_string()}),
        SV::Integer(n) => json!({"k": "Num", "text": n.to_string()}),
        SV::Long(n) => json!({"k": "Num", "text": n.to_string()}),
        SV::BigInteger(_) => json!({"k": "Num", "text": "big"}),
        SV::Float(f) => json!({"k": "Dbl", "bits": format!("0x{:016x}", (*f as f64).to_bits()), "f32": true}),
        SV::Double(f) => json!({"k": "Dbl", "bits": format!("0x{:016x}", f.to_bits())}),
        SV::BigDecimal(_) => json!({"k": "Other"}),
        SV::String(s) => json!({"k": "Str", "text": s}),
        SV::Binary(b) => json!({"k": "Bin", "bytes": b}),
        SV::Array(a) => json!({"k": "Arr", "len": a.len()}),
        SV::Object(o) => json!({"k": "Obj", "len": o.len()}),
    }
}

fn walk_smile(root: &SV, path: &[String]) -> Result<Value, String> {
    fn obj<'a>(v: &'a SV, k: &str) -> Option<&'a SV> {
        match v {
            SV::Object(o) => o.get(k),
            _ => None,
        }
    }
    fn idx(v: &SV, i: usize) -> Option<&SV> {
        match v {
            SV::Array(a) => a.get(i),
            _ => None,
        }
    }
    let mut v = root;
    for (i, step) in path.iter().enumerate() {
        let next: Option<&SV> = match step.as_str() {
            "some" | "newtype_struct" => Some(v),
            "newtype_variant" => obj(v, "B"),
            "seq_elem" | "tuple_struct_field" => idx(v, 0),
            "tuple_elem" => idx(v, 1),
            "tuple_variant_field" => obj(v, "C").and_then(|x| idx(x, 0)),
            "map_value" => obj(v, "k"),
            "struct_field" => obj(v, "b"),
            "struct_variant_field" => obj(v, "D").and_then(|x| obj(x, "x")),
            "map_key" => {
                if let SV::Object(o) = v {
                    if o.len() != 1 {
                        return Err(format!("map with {} keys", o.len()));
                    }
                    if path[i + 1..].iter().any(|s| s != "newtype_struct") {
                        return Err("container below a key".into());
                    }
                    return Ok(json!({"k": "Str", "text": o.keys().next().unwrap(), "is_key": true}));
                }
                return Err("map expected".into());
            }
            other => return Err(format!("unknown step {other}")),
        };
        v = next.ok_or_else(|| format!("path step {step} not found in smile output"))?;
    }
    Ok(smile_token(v))
}

// ---------------------------------------------------------------------------------------------------------------
// deserializing through every entry point

fn res(r: Result<DynVal, String>, orig: &DynVal) -> Value {
    match r {
        Ok(v) => json!({"ok": true, "equal": &v == orig, "val": if &v == orig { Value::Null } else { val_to_json(&v) }}),
        Err(e) => json!({"ok": false, "err": e}),
    }
}

// the convenience functions (`json::server_from_reader::<T>(..)` ...) need a static `T: DeserializeOwned`: `TlDyn` reads its shape
// from a thread-local that the caller sets just before the call.
thread_local! {
    static CURRENT_TYPE: std::cell::RefCell<Option<DynType>> = const { std::cell::RefCell::new(None) };
}
struct TlDyn(DynVal);
impl<'de> serde::Deserialize<'de> for TlDyn {
    fn deserialize<D: serde::Deserializer<'de>>(d: D) -> Result<TlDyn, D::Error> {
        let ty = CURRENT_TYPE.with(|c| c.borrow().clone()).expect("harness: CURRENT_TYPE not set");
        serde::de::DeserializeSeed::deserialize(&ty, d).map(TlDyn)
    }
}
fn fn_entry_points(ty: &DynType, json_text: &str, smile: &[u8], orig: &DynVal, out: &mut serde_json::Map<String, Value>) {
    use conjure_serde::{json as cj, smile as cs};
    CURRENT_TYPE.with(|c| *c.borrow_mut() = Some(ty.clone()));
    let mut put = |name: &str, r: Result<TlDyn, String>| {
        out.insert(name.to_string(), res(r.map(|v| v.0), orig));
    };
    put("json_client_fn_str", cj::client_from_str::<TlDyn>(json_text).map_err(|e| e.to_string()));
    put("json_client_fn_slice", cj::client_from_slice::<TlDyn>(json_text.as_bytes()).map_err(|e| e.to_string()));
    put("json_client_fn_reader", cj::client_from_reader::<_, TlDyn>(json_text.as_bytes()).map_err(|e| e.to_string()));
    put("json_server_fn_str", cj::server_from_str::<TlDyn>(json_text).map_err(|e| e.to_string()));
    put("json_server_fn_slice", cj::server_from_slice::<TlDyn>(json_text.as_bytes()).map_err(|e| e.to_string()));
    put("json_server_fn_reader", cj::server_from_reader::<_, TlDyn>(json_text.as_bytes()).map_err(|e| e.to_string()));
    put("smile_client_fn_slice", cs::client_from_slice::<TlDyn>(smile).map_err(|e| e.to_string()));
    put("smile_client_fn_reader", cs::client_from_reader::<_, TlDyn>(smile).map_err(|e| e.to_string()));
    put("smile_server_fn_slice", cs::server_from_slice::<TlDyn>(smile).map_err(|e| e.to_string()));
    put("smile_server_fn_reader", cs::server_from_reader::<_, TlDyn>(smile).map_err(|e| e.to_string()));
    {
        let mut buf = smile.to_vec();
        put("smile_client_fn_mut_slice", cs::client_from_mut_slice::<TlDyn>(&mut buf).map_err(|e| e.to_string()));
    }
    {
        let mut buf = smile.to_vec();
        put("smile_server_fn_mut_slice", cs::server_from_mut_slice::<TlDyn>(&mut buf).map_err(|e| e.to_string()));
    }
    // the request-body deserializers conjure-http's registered encodings hand out (server rules, type-erased)
    {
        use conjure_http::server::{Encoding, JsonEncoding, SmileEncoding};
        let mut st = JsonEncoding.deserializer(json_text.as_bytes());
        let r = ty.deserialize(st.deserializer()).map_err(|e| e.to_string()).and_then(|v| st.end().map(|()| v).map_err(|e| e.to_string()));
        out.insert("json_server_http".to_string(), res(r, orig));
        let mut st = SmileEncoding.deserializer(smile);
        let r = ty.deserialize(st.deserializer()).map_err(|e| e.to_string()).and_then(|v| st.end().map(|()| v).map_err(|e| e.to_string()));
        out.insert("smile_server_http".to_string(), res(r, orig));
    }
}

fn de_all(ty: &DynType, json_text: &str, smile: &[u8], orig: &DynVal) -> Value {
    use conjure_serde::{json as cj, smile as cs};
    let mut out = serde_json::Map::new();
    macro_rules! run {
        ($name:expr, $de:expr) => {{
            let mut de = $de;
            let r = ty.deserialize(&mut de).map_err(|e| e.to_string()).and_then(|v| de.end().map(|()| v).map_err(|e| e.to_string()));
            out.insert($name.to_string(), res(r, orig));
        }};
    }
    run!("json_client_str", cj::ClientDeserializer::from_str(json_text));
    run!("json_client_slice", cj::ClientDeserializer::from_slice(json_text.as_bytes()));
    run!("json_client_reader", cj::ClientDeserializer::from_reader(json_text.as_bytes()));
    run!("json_server_str", cj::ServerDeserializer::from_str(json_text));
    run!("json_server_slice", cj::ServerDeserializer::from_slice(json_text.as_bytes()));
    run!("json_server_reader", cj::ServerDeserializer::from_reader(json_text.as_bytes()));
    run!("smile_client_slice", cs::ClientDeserializer::from_slice(smile));
    run!("smile_client_reader", cs::ClientDeserializer::from_reader(smile));
    run!("smile_server_slice", cs::ServerDeserializer::from_slice(smile));
    run!("smile_server_reader", cs::ServerDeserializer::from_reader(smile));
    {
        let mut buf = smile.to_vec();
        run!("smile_client_mut_slice", cs::ClientDeserializer::from_mut_slice(&mut buf));
    }
    {
        let mut buf = smile.to_vec();
        run!("smile_server_mut_slice", cs::ServerDeserializer::from_mut_slice(&mut buf));
    }
    fn_entry_points(ty, json_text, smile, orig, &mut out);
    Value::Object(out)
}

/// a value whose serialization fails after part of it was written
struct FailsMidway;
impl serde::Serialize for FailsMidway {
    fn serialize<S: serde::Serializer>(&self, s: S) -> Result<S::Ok, S::Error> {
        use serde::ser::SerializeStruct;
        let mut st = s.serialize_struct("FailsMidway", 2)?;
        st.serialize_field("written", &vec![1, 2, 3])?;
        Err(serde::ser::Error::custom("harness: deliberate failure after a field was written"))
    }
}

fn ser_all(val: &DynVal) -> Result<(String, String, Vec<u8>, Value), String> {
    use conjure_serde::{json as cj, smile as cs};
    // history: every entry point first sees a serialization that fails midway (the next one must start from scratch)
    let _ = cj::to_string(&FailsMidway);
    let _ = cj::to_vec(&FailsMidway);
    let _ = cs::to_vec(&FailsMidway);
    {
        let mut sink = vec![];
        let _ = cj::to_writer(&mut sink, &FailsMidway);
        let _ = cs::to_writer(&mut sink, &FailsMidway);
    }
    let compact = cj::to_string(val).map_err(|e| format!("json: {e}"))?;
    let via_vec = String::from_utf8(cj::to_vec(val).map_err(|e| format!("json vec: {e}"))?).map_err(|e| e.to_string())?;
    let mut w = vec![];
    cj::to_writer(&mut w, val).map_err(|e| format!("json writer: {e}"))?;
    let mut pretty = vec![];
    {
        let mut ser = cj::Serializer::pretty(&mut pretty);
        val.serialize(&mut ser).map_err(|e| format!("json pretty: {e}"))?;
    }
    let pretty = String::from_utf8(pretty).map_err(|e| e.to_string())?;
    let smile = cs::to_vec(val).map_err(|e| format!("smile: {e}"))?;
    let mut sw = vec![];
    cs::to_writer(&mut sw, val).map_err(|e| format!("smile writer: {e}"))?;
    let consistent = json!({"vec_eq_string": via_vec == compact, "writer_eq_string": w == compact.as_bytes(), "smile_writer_eq_vec": sw == smile});
    Ok((compact, pretty, smile, consistent))
}

/// the backend calls the real wrappers make for this value (recording backend under conjure_serde's Override)
fn recorded(val: &DynVal) -> Value {
    let j = val.serialize(hook::Override::<_, hook::JsonValueBehavior>::new(RecSer { human_readable: true }));
    let s = val.serialize(hook::Override::<_, hook::SmileValueBehavior>::new(RecSer { human_readable: false }));
    json!({"json": j.unwrap_or_else(|e| json!({"err": e.to_string()})), "smile": s.unwrap_or_else(|e| json!({"err": e.to_string()}))})
}

fn c01_case(case: &Value) -> Result<Value, String> {
    let mut rng = Rng::new(case["seed"].as_u64().unwrap_or(1));
    crate::dynval::set_key_style(case["seed"].as_u64().unwrap_or(0) / 3);
    let (val, ty, path): (DynVal, DynType, Vec<String>) = if case["val"].is_null() {
        let path: Vec<String> = case["path"].as_array().unwrap().iter().map(|s| s.as_str().unwrap().to_string()).collect();
        let (v, t) = build(&path, case["leaf"].as_str().unwrap(), &mut rng);
        (v, t, path)
    } else {
        (val_from_json(&case["val"])?, type_from_json(&case["ty"])?, vec![])
    };
    let (compact, pretty, smile, consistent) = match ser_all(&val) {
        Ok(x) => x,
        Err(e) => return Ok(json!({"ser_err": e, "value": val_to_json(&val)})),
    };
    let mut out = json!({"json": compact, "consistent": consistent, "smile_len": smile.len()});
    let strict: Result<Value, _> = serde_json::from_str(&compact);
    let strict_pretty: Result<Value, _> = serde_json::from_str(&pretty);
    out["standard_json"] = json!(strict.is_ok() && strict_pretty.is_ok() && strict.as_ref().ok() == strict_pretty.as_ref().ok());
    if case["val"].is_null() {
        if let Ok(v) = &strict {
            out["tok_json"] = walk_json(v, &path).unwrap_or_else(|e| json!({"k": "WalkErr", "text": e}));
        }
        match serde_smile::from_slice::<SV>(&smile) {
            Ok(sv) => out["tok_smile"] = walk_smile(&sv, &path).unwrap_or_else(|e| json!({"k": "WalkErr", "text": e})),
            Err(e) => out["tok_smile"] = json!({"k": "ParseErr", "text": e.to_string()}),
        }
        out["leaf_value"] = val_to_json(&leaf_of(&val, &path));
    }
    if case["record"].as_bool().unwrap_or(false) {
        out["recorded"] = recorded(&val);
    }
    out["de"] = de_all(&ty, &compact, &smile, &val);
    // the pretty document must decode as well
    let mut de = conjure_serde::json::ServerDeserializer::from_str(&pretty);
    let r = (&ty).deserialize(&mut de).map_err(|e| e.to_string()).and_then(|v| de.end().map(|()| v).map_err(|e| e.to_string()));
    out["de"]["json_server_pretty"] = res(r, &val);
    Ok(out)
}

fn leaf_of(v: &DynVal, path: &[String]) -> DynVal {
    let mut cur = v.clone();
    for step in path {
        cur = match (step.as_str(), cur) {
            ("some", DynVal::Some(x)) | ("newtype_struct", DynVal::NewtypeStruct(x)) | ("newtype_variant", DynVal::NewtypeVariant(_, x)) => *x,
            ("seq_elem", DynVal::Seq(mut x)) => x.remove(0),
            ("tuple_elem", DynVal::Tuple(mut x)) => x.remove(1),
            ("tuple_struct_field", DynVal::TupleStruct(mut x)) => x.remove(0),
            ("tuple_variant_field", DynVal::TupleVariant(_, mut x)) => x.remove(0),
            ("map_value", DynVal::Map(mut x)) => x.remove(0).1,
            ("map_key", DynVal::Map(mut x)) => x.remove(0).0,
            ("struct_field", DynVal::Struct(mut x)) => x.remove(1).1,
            ("struct_variant_field", DynVal::StructVariant(_, mut x)) => x.remove(0).1,
            (_, other) => other,
        };
    }
    cur
}

// ---------------------------------------------------------------------------------------------------------------
// C05: unknown fields

fn inject(v: &mut Value, path: &[String], names: &[String], payload: &Value) -> Result<(), String> {
    let mut cur = v;
    for step in path {
        cur = match step.as_str() {
            "some" | "newtype_struct" => cur,
            "newtype_variant" => cur.get_mut("B").ok_or("B")?,
            "seq_elem" | "tuple_struct_field" => cur.get_mut(0).ok_or("[0]")?,
            "tuple_elem" => cur.get_mut(1).ok_or("[1]")?,
            "tuple_variant_field" => cur.get_mut("C").and_then(|x| x.get_mut(0)).ok_or("C[0]")?,
            "map_value" => cur.get_mut("k").ok_or("k")?,
            "struct_field" => cur.get_mut("b").ok_or("b")?,
            "struct_variant_field" => cur.get_mut("D").and_then(|x| x.get_mut("x")).ok_or("D.x")?,
            other => return Err(format!("cannot inject below {other}")),
        };
    }
    let o = cur.as_object_mut().ok_or("target is not an object")?;
    for n in names {
        o.insert(n.clone(), payload.clone());
    }
    Ok(())
}

fn unquote_wide(text: &str) -> String {
    let mut out = String::new();
    let mut rest = text;
    while let Some(i) = rest.find("\"@wide:") {
        out.push_str(&rest[..i]);
        let tail = &rest[i + 7..];
        let j = tail.find('"').unwrap_or(tail.len());
        out.push_str(&tail[..j]);
        rest = &tail[(j + 1).min(tail.len())..];
    }
    out.push_str(rest);
    out
}

struct Wide<'a>(&'a Value);
impl serde::Serialize for Wide<'_> {
    fn serialize<S: serde::Serializer>(&self, s: S) -> Result<S::Ok, S::Error> {
        use serde::ser::{SerializeMap, SerializeSeq};
        match self.0 {
            Value::String(t) if t.starts_with("@wide:") => {
                let digits = &t[6..];
                match digits.strip_prefix('-') {
                    Some(_) => s.serialize_i128(digits.parse().map_err(serde::ser::Error::custom)?),
                    None => s.serialize_u128(digits.parse().map_err(serde::ser::Error::custom)?),
                }
            }
            Value::Array(a) => {
                let mut q = s.serialize_seq(Some(a.len()))?;
                for x in a {
                    q.serialize_element(&Wide(x))?;
                }
                q.end()
            }
            Value::Object(o) => {
                let mut m = s.serialize_map(Some(o.len()))?;
                for (k, v) in o {
                    m.serialize_entry(k, &Wide(v))?;
                }
                m.end()
            }
            other => other.serialize(s),
        }
    }
}

fn c05_case(case: &Value) -> Result<Value, String> {
    use conjure_serde::{json as cj, smile as cs};
    let mut rng = Rng::new(case["seed"].as_u64().unwrap_or(1));
    crate::dynval::set_key_style(case["seed"].as_u64().unwrap_or(0) / 3);
    let path: Vec<String> = case["path"].as_array().unwrap().iter().map(|s| s.as_str().unwrap().to_string()).collect();
    let names: Vec<String> = case["names"].as_array().unwrap().iter().map(|s| s.as_str().unwrap().to_string()).collect();
    let (val, ty) = build(&path, case["shape"].as_str().unwrap_or("struct"), &mut rng);
    let clean = cj::to_string(&val).map_err(|e| e.to_string())?;
    let mut doc: Value = serde_json::from_str(&clean).map_err(|e| e.to_string())?;
    inject(&mut doc, &path, &names, &case["payload"])?;
    // "@wide:<decimal>" strings stand for integers beyond 64 bits: a bare number in the JSON text, a BigInteger in Smile
    let json_text = unquote_wide(&serde_json::to_string(&doc).map_err(|e| e.to_string())?);
    let smile = serde_smile::to_vec(&Wide(&doc)).map_err(|e| e.to_string())?;
    let mut out = serde_json::Map::new();
    macro_rules! run {
        ($name:expr, $de:expr) => {{
            let mut de = $de;
            let r = (&ty).deserialize(&mut de).map_err(|e| e.to_string()).and_then(|v| de.end().map(|()| v).map_err(|e| e.to_string()));
            out.insert($name.to_string(), res(r, &val));
        }};
    }
    run!("json_client_str", cj::ClientDeserializer::from_str(&json_text));
    run!("json_client_slice", cj::ClientDeserializer::from_slice(json_text.as_bytes()));
    run!("json_client_reader", cj::ClientDeserializer::from_reader(json_text.as_bytes()));
    run!("json_server_str", cj::ServerDeserializer::from_str(&json_text));
    run!("json_server_slice", cj::ServerDeserializer::from_slice(json_text.as_bytes()));
    run!("json_server_reader", cj::ServerDeserializer::from_reader(json_text.as_bytes()));
    run!("smile_client_slice", cs::ClientDeserializer::from_slice(&smile));
    run!("smile_client_reader", cs::ClientDeserializer::from_reader(&smile[..]));
    run!("smile_server_slice", cs::ServerDeserializer::from_slice(&smile));
    run!("smile_server_reader", cs::ServerDeserializer::from_reader(&smile[..]));
    {
        let mut b = smile.clone();
        run!("smile_client_mut_slice", cs::ClientDeserializer::from_mut_slice(&mut b));
    }
    {
        let mut b = smile.clone();
        run!("smile_server_mut_slice", cs::ServerDeserializer::from_mut_slice(&mut b));
    }
    fn_entry_points(&ty, &json_text, &smile, &val, &mut out);
    // the same document with the undeclared keys spelled with \\uXXXX escapes
    let mut esc_text = json_text.clone();
    for n in &names {
        let plain = format!("{}:", serde_json::to_string(n).unwrap());
        let escaped = format!("\"{}\":", n.chars().map(|c| format!("\\u{:04x}", c as u32)).collect::<String>());
        esc_text = esc_text.replace(&plain, &escaped);
    }
    run!("json_server_str_esckey", cj::ServerDeserializer::from_str(&esc_text));
    run!("json_server_slice_esckey", cj::ServerDeserializer::from_slice(esc_text.as_bytes()));
    run!("json_client_str_esckey", cj::ClientDeserializer::from_str(&esc_text));
    run!("json_client_reader_esckey", cj::ClientDeserializer::from_reader(esc_text.as_bytes()));
    Ok(json!({"doc": json_text, "results": Value::Object(out)}))
}

pub fn serdewrap(args: &[String]) -> i32 {
    silence_panics();
    if args.first().map(|s| s.as_str()) == Some("probe-derived") {
        emit(&probe_derived());
        return 0;
    }
    let c05 = args.first().map(|s| s.as_str()) == Some("c05");
    for case in read_cases() {
        let id = case["id"].clone();
        let r = catch(|| if c05 { c05_case(&case) } else { c01_case(&case) });
        match r {
            Ok(Ok(mut v)) => {
                v["id"] = id;
                emit(&v);
            }
            Ok(Err(e)) => emit(&json!({"id": id, "skip": e})),
            Err(p) => emit(&json!({"id": id, "panic": p})),
        }
    }
    0
}

#[derive(serde::Serialize, serde::Deserialize, Debug, PartialEq)]
struct ProbeUuidHolder {
    id: conjure_object::Uuid,
}

/// Cross-check with real derived / std types: a uuid inside a struct, an option and a list through Smile.
pub fn probe_derived() -> Value {
    use conjure_serde::smile as cs;
    let id: conjure_object::Uuid = "6ba7b810-9dad-11d1-80b4-00c04fd430c8".parse().unwrap();
    let a = cs::to_vec(&ProbeUuidHolder { id }).map_err(|e| e.to_string())
        .and_then(|b| cs::client_from_slice::<ProbeUuidHolder>(&b).map_err(|e| e.to_string()));
    let b = cs::to_vec(&Some(id)).map_err(|e| e.to_string())
        .and_then(|b| cs::server_from_slice::<Option<conjure_object::Uuid>>(&b).map_err(|e| e.to_string()));
    let c = cs::to_vec(&vec![id]).map_err(|e| e.to_string())
        .and_then(|b| cs::client_from_slice::<Vec<conjure_object::Uuid>>(&b).map_err(|e| e.to_string()));
    let d = cs::to_vec(&id).map_err(|e| e.to_string())
        .and_then(|b| cs::client_from_slice::<conjure_object::Uuid>(&b).map_err(|e| e.to_string()));
    json!({
        "uuid_in_struct": match a { Ok(v) => json!({"ok": v.id == id}), Err(e) => json!({"err": e}) },
        "uuid_in_option": match b { Ok(v) => json!({"ok": v == Some(id)}), Err(e) => json!({"err": e}) },
        "uuid_in_list": match c { Ok(v) => json!({"ok": v == vec![id]}), Err(e) => json!({"err": e}) },
        "uuid_at_root": match d { Ok(v) => json!({"ok": v == id}), Err(e) => json!({"err": e}) },
    })
}
