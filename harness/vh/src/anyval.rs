//! C13: the dynamic `Any` value as a carrier of serializable data and of JSON.
use crate::dynval::{type_from_json, val_from_json, val_to_json, DynType, DynVal};
use crate::util::{catch, emit, read_cases, silence_panics};
use conjure_object::Any;
use serde::de::DeserializeSeed;
use serde_json::{json, Value};

fn direct_json(ty: &DynType, doc: &str) -> Result<DynVal, String> {
    let mut de = conjure_serde::json::ClientDeserializer::from_str(doc);
    let v = ty.deserialize(&mut de).map_err(|e| e.to_string())?;
    de.end().map_err(|e| e.to_string())?;
    Ok(v)
}

fn res(r: &Result<DynVal, String>) -> Value {
    match r {
        Ok(v) => json!({"ok": val_to_json(v)}),
        Err(e) => json!({"err": e}),
    }
}

fn one(case: &Value) -> Result<Value, String> {
    let mut out = json!({});
    if !case["val"].is_null() {
        let val = val_from_json(&case["val"])?;
        let ty = type_from_json(&case["ty"])?;
        // (a) value -> Any -> value
        match Any::new(&val) {
            Err(e) => out["to_any"] = json!({"err": e.to_string()}),
            Ok(any) => {
                out["any_shape"] = crate::recser::record(&any).unwrap_or_else(|e| json!({"err": e.to_string()}));
                let back = ty.deserialize(any.clone()).map_err(|e| e.to_string());
                out["roundtrip"] = json!({"equal": back.as_ref().ok() == Some(&val), "back": res(&back)});
                let again = any.clone().deserialize_into::<Any>();
                out["any_to_any"] = json!({"equal": again.as_ref().ok() == Some(&any), "err": again.err().map(|e| e.to_string())});
                // (b) same JSON document
                let ja = conjure_serde::json::to_string(&any).map_err(|e| e.to_string());
                let jv = conjure_serde::json::to_string(&val).map_err(|e| e.to_string());
                let same = match (&ja, &jv) {
                    (Ok(a), Ok(b)) => serde_json::from_str::<Value>(a).ok() == serde_json::from_str::<Value>(b).ok()
                        && serde_json::from_str::<Value>(a).is_ok(),
                    (Err(_), Err(_)) => true,
                    _ => false,
                };
                out["same_json"] = json!({"same": same, "any": ja.clone().unwrap_or_else(|e| format!("ERR {e}")), "direct": jv.clone().unwrap_or_else(|e| format!("ERR {e}"))});
                // (b') the JSON of the original parses back into the static type both directly and through Any
                if let Ok(doc) = &jv {
                    let via_any = conjure_serde::json::client_from_str::<Any>(doc).map_err(|e| e.to_string())
                        .and_then(|a| ty.deserialize(a).map_err(|e| e.to_string()));
                    let direct = direct_json(&ty, doc);
                    out["json_view"] = json!({"agree": via_any.as_ref().ok() == direct.as_ref().ok() && via_any.is_ok() == direct.is_ok(),
                        "equal_original": direct.as_ref().ok() == Some(&val), "via_any": res(&via_any), "direct": res(&direct)});
                }
            }
        }
    }
    if let Some(doc) = case["doc"].as_str() {
        // (c) document -> Any -> document
        match conjure_serde::json::client_from_str::<Any>(doc) {
            Err(e) => out["parse"] = json!({"err": e.to_string()}),
            Ok(any) => {
                let again = conjure_serde::json::to_string(&any).map_err(|e| e.to_string());
                let stable = again.as_ref().ok().and_then(|a| serde_json::from_str::<Value>(a).ok()) == serde_json::from_str::<Value>(doc).ok();
                out["json_stable"] = json!({"stable": stable, "again": again.unwrap_or_else(|e| format!("ERR {e}"))});
                // (c') the dynamic value viewed by self-describing consumers: as another Any and as a serde_json::Value; both must
                // see what direct parsing of the document sees (keys stay strings)
                let as_any = any.clone().deserialize_into::<Any>();
                let as_value = any.clone().deserialize_into::<Value>();
                out["self_describing"] = json!({
                    "any_equal": as_any.as_ref().ok() == Some(&any),
                    "any_json": as_any.ok().and_then(|a| conjure_serde::json::to_string(&a).ok()),
                    "value_equal": as_value.as_ref().ok() == serde_json::from_str::<Value>(doc).ok().as_ref(),
                    "value_json": as_value.map(|v| v.to_string()).unwrap_or_else(|e| format!("ERR {e}")),
                });
                // (d) coercions agree with direct parsing
                if !case["view_ty"].is_null() {
                    let ty = type_from_json(&case["view_ty"])?;
                    let via_any = ty.deserialize(any).map_err(|e| e.to_string());
                    let direct = direct_json(&ty, doc);
                    out["coercion"] = json!({"agree": via_any.as_ref().ok() == direct.as_ref().ok() && via_any.is_ok() == direct.is_ok(),
                        "via_any": res(&via_any), "direct": res(&direct)});
                }
            }
        }
    }
    Ok(out)
}

pub fn anyval(args: &[String]) -> i32 {
    silence_panics();
    if args.first().map(|s| s.as_str()) == Some("probe-derived") {
        emit(&probe_derived());
        return 0;
    }
    for case in read_cases() {
        let id = case["id"].clone();
        match catch(|| one(&case)) {
            Ok(Ok(mut v)) => {
                v["id"] = id;
                emit(&v);
            }
            Ok(Err(e)) => emit(&json!({"id": id, "skip": e})),
            Err(p) => emit(&json!({"id": id, "panic": p})),
        }
    }
    0
}

#[derive(serde::Serialize, serde::Deserialize, Debug, PartialEq)]
struct ProbeNewtype(i32);

#[derive(serde::Serialize, serde::Deserialize, Debug, PartialEq)]
struct ProbeHolder {
    n: ProbeNewtype,
    o: Option<ProbeNewtype>,
}

/// Cross-check of the dynamic value machinery with real derived types (used by the C13 check).
pub fn probe_derived() -> Value {
    let a = Any::new(ProbeNewtype(5)).unwrap().deserialize_into::<ProbeNewtype>();
    let b = Any::new(ProbeHolder { n: ProbeNewtype(1), o: Some(ProbeNewtype(2)) }).unwrap().deserialize_into::<ProbeHolder>();
    json!({
        "newtype_struct": match &a { Ok(v) => json!({"ok": *v == ProbeNewtype(5)}), Err(e) => json!({"err": e.to_string()}) },
        "newtype_struct_in_struct": match &b { Ok(v) => json!({"ok": *v == ProbeHolder { n: ProbeNewtype(1), o: Some(ProbeNewtype(2)) }}), Err(e) => json!({"err": e.to_string()}) },
    })
}
