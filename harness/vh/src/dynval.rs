//! A shape-directed dynamic value.  `DynVal: Serialize` calls exactly the serde entry points of its shape and
//! `&DynType: DeserializeSeed` requests exactly the hints a derived/static Rust type of that shape would request
//! (leaves delegate to the real `Deserialize` impls of the std / conjure-object types).  This lets TLC-enumerated
//! abstract values be turned into real serde traffic through the conjure-serde wrappers and through `Any`.
use conjure_object::{BearerToken, DoubleKey, ResourceIdentifier, SafeLong, Uuid};
use serde::de::{self, DeserializeSeed, Deserializer, EnumAccess, IgnoredAny, MapAccess, SeqAccess, VariantAccess, Visitor};
use serde::ser::{
    Serialize, SerializeMap, SerializeSeq, SerializeStruct, SerializeStructVariant, SerializeTuple,
    SerializeTupleStruct, SerializeTupleVariant, Serializer,
};
use serde::Deserialize;
use serde_json::{json, Value};
use std::collections::HashMap;
use std::fmt;
use std::sync::Mutex;

pub const ENUM_NAME: &str = "E";
pub const VARIANTS: [&str; 4] = ["A", "B", "C", "D"];

/// Interns a string as `&'static str` (serde wants static names for fields and variants).
pub fn intern(s: &str) -> &'static str {
    static POOL: Mutex<Option<HashMap<String, &'static str>>> = Mutex::new(None);
    let mut g = POOL.lock().unwrap();
    let m = g.get_or_insert_with(HashMap::new);
    if let Some(v) = m.get(s) {
        return v;
    }
    let leaked: &'static str = Box::leak(s.to_string().into_boxed_str());
    m.insert(s.to_string(), leaked);
    leaked
}

fn intern_slice(names: &[&'static str]) -> &'static [&'static str] {
    static POOL: Mutex<Option<HashMap<Vec<&'static str>, &'static [&'static str]>>> = Mutex::new(None);
    let mut g = POOL.lock().unwrap();
    let m = g.get_or_insert_with(HashMap::new);
    if let Some(v) = m.get(names) {
        return v;
    }
    let leaked: &'static [&'static str] = Box::leak(names.to_vec().into_boxed_slice());
    m.insert(names.to_vec(), leaked);
    leaked
}

#[derive(Debug, Clone)]
pub enum DynVal {
    Bool(bool),
    I8(i8),
    I16(i16),
    I32(i32),
    I64(i64),
    I128(i128),
    U8(u8),
    U16(u16),
    U32(u32),
    U64(u64),
    U128(u128),
    F32(f32),
    F64(f64),
    Char(char),
    Str(String),
    Bytes(Vec<u8>),
    Unit,
    // leaves carried by the real conjure-object types
    Uuid(Uuid),
    Rid(ResourceIdentifier),
    Bearer(BearerToken),
    SafeLong(SafeLong),
    DoubleKey(DoubleKey),
    DateTime(conjure_object::DateTime<conjure_object::Utc>),
    None,
    Some(Box<DynVal>),
    Seq(Vec<DynVal>),
    Tuple(Vec<DynVal>),
    TupleStruct(Vec<DynVal>),
    Map(Vec<(DynVal, DynVal)>),
    Struct(Vec<(&'static str, DynVal)>),
    NewtypeStruct(Box<DynVal>),
    /// a field declared `any` that holds the inner value: serialised through `conjure_object::Any`'s own Serialize impl
    ViaAny(Box<DynVal>),
    UnitStruct,
    UnitVariant(u32),
    NewtypeVariant(u32, Box<DynVal>),
    TupleVariant(u32, Vec<DynVal>),
    StructVariant(u32, Vec<(&'static str, DynVal)>),
}

#[derive(Debug, Clone)]
pub enum VariantType {
    Unit,
    Newtype(DynType),
    Tuple(Vec<DynType>),
    Struct(Vec<(&'static str, DynType)>),
}

#[derive(Debug, Clone)]
pub enum DynType {
    Bool,
    I8,
    I16,
    I32,
    I64,
    I128,
    U8,
    U16,
    U32,
    U64,
    U128,
    F32,
    F64,
    Char,
    Str,
    Bytes,
    Unit,
    Uuid,
    Rid,
    Bearer,
    SafeLong,
    DoubleKey,
    DateTime,
    Option(Box<DynType>),
    Seq(Box<DynType>),
    Tuple(Vec<DynType>),
    TupleStruct(Vec<DynType>),
    Map(Box<DynType>, Box<DynType>),
    Struct(Vec<(&'static str, DynType)>),
    NewtypeStruct(Box<DynType>),
    UnitStruct,
    Enum(Vec<VariantType>),
}

fn feq64(a: f64, b: f64) -> bool {
    (a.is_nan() && b.is_nan()) || a.to_bits() == b.to_bits()
}

impl PartialEq for DynVal {
    fn eq(&self, o: &DynVal) -> bool {
        use DynVal::*;
        match (self, o) {
            (Bool(a), Bool(b)) => a == b,
            (I8(a), I8(b)) => a == b,
            (I16(a), I16(b)) => a == b,
            (I32(a), I32(b)) => a == b,
            (I64(a), I64(b)) => a == b,
            (I128(a), I128(b)) => a == b,
            (U8(a), U8(b)) => a == b,
            (U16(a), U16(b)) => a == b,
            (U32(a), U32(b)) => a == b,
            (U64(a), U64(b)) => a == b,
            (U128(a), U128(b)) => a == b,
            (F32(a), F32(b)) => (a.is_nan() && b.is_nan()) || a.to_bits() == b.to_bits(),
            (F64(a), F64(b)) => feq64(*a, *b),
            (Char(a), Char(b)) => a == b,
            (Str(a), Str(b)) => a == b,
            (Bytes(a), Bytes(b)) => a == b,
            (Unit, Unit) | (None, None) | (UnitStruct, UnitStruct) => true,
            (Uuid(a), Uuid(b)) => a == b,
            (Rid(a), Rid(b)) => a == b,
            (Bearer(a), Bearer(b)) => a == b,
            (SafeLong(a), SafeLong(b)) => a == b,
            // equal bit-wise up to NaN payloads AND by the key type's own Eq
            (DoubleKey(a), DoubleKey(b)) => feq64(a.0, b.0) && a == b,
            (DateTime(a), DateTime(b)) => a == b,
            (Some(a), Some(b)) | (NewtypeStruct(a), NewtypeStruct(b)) | (ViaAny(a), ViaAny(b)) => a == b,
            (Seq(a), Seq(b)) | (Tuple(a), Tuple(b)) | (TupleStruct(a), TupleStruct(b)) => a == b,
            // map entries are compared as multisets (encodings may reorder them)
            (Map(a), Map(b)) => a.len() == b.len() && a.iter().all(|x| b.iter().any(|y| x == y)),
            (Struct(a), Struct(b)) => a == b,
            (UnitVariant(a), UnitVariant(b)) => a == b,
            (NewtypeVariant(i, a), NewtypeVariant(j, b)) => i == j && a == b,
            (TupleVariant(i, a), TupleVariant(j, b)) => i == j && a == b,
            (StructVariant(i, a), StructVariant(j, b)) => i == j && a == b,
            _ => false,
        }
    }
}

impl Serialize for DynVal {
    fn serialize<S: Serializer>(&self, s: S) -> Result<S::Ok, S::Error> {
        use DynVal::*;
        match self {
            Bool(v) => s.serialize_bool(*v),
            I8(v) => s.serialize_i8(*v),
            I16(v) => s.serialize_i16(*v),
            I32(v) => s.serialize_i32(*v),
            I64(v) => s.serialize_i64(*v),
            I128(v) => s.serialize_i128(*v),
            U8(v) => s.serialize_u8(*v),
            U16(v) => s.serialize_u16(*v),
            U32(v) => s.serialize_u32(*v),
            U64(v) => s.serialize_u64(*v),
            U128(v) => s.serialize_u128(*v),
            F32(v) => s.serialize_f32(*v),
            F64(v) => s.serialize_f64(*v),
            Char(v) => s.serialize_char(*v),
            Str(v) => s.serialize_str(v),
            Bytes(v) => s.serialize_bytes(v),
            Unit => s.serialize_unit(),
            Uuid(v) => v.serialize(s),
            Rid(v) => v.serialize(s),
            Bearer(v) => v.serialize(s),
            SafeLong(v) => v.serialize(s),
            DoubleKey(v) => v.serialize(s),
            DateTime(v) => v.serialize(s),
            None => s.serialize_none(),
            Some(v) => s.serialize_some(&**v),
            Seq(v) => {
                let mut q = s.serialize_seq(Option::Some(v.len()))?;
                for e in v {
                    q.serialize_element(e)?;
                }
                q.end()
            }
            Tuple(v) => {
                let mut q = s.serialize_tuple(v.len())?;
                for e in v {
                    q.serialize_element(e)?;
                }
                q.end()
            }
            TupleStruct(v) => {
                let mut q = s.serialize_tuple_struct("TS", v.len())?;
                for e in v {
                    q.serialize_field(e)?;
                }
                q.end()
            }
            Map(v) => {
                let mut q = s.serialize_map(Option::Some(v.len()))?;
                for (k, e) in v {
                    q.serialize_key(k)?;
                    q.serialize_value(e)?;
                }
                q.end()
            }
            Struct(v) => {
                let mut q = s.serialize_struct("S", v.len())?;
                for (k, e) in v {
                    q.serialize_field(k, e)?;
                }
                q.end()
            }
            NewtypeStruct(v) => s.serialize_newtype_struct("N", &**v),
            ViaAny(v) => conjure_object::Any::new(&**v).map_err(serde::ser::Error::custom)?.serialize(s),
            UnitStruct => s.serialize_unit_struct("U"),
            UnitVariant(i) => s.serialize_unit_variant(ENUM_NAME, *i, VARIANTS[*i as usize]),
            NewtypeVariant(i, v) => s.serialize_newtype_variant(ENUM_NAME, *i, VARIANTS[*i as usize], &**v),
            TupleVariant(i, v) => {
                let mut q = s.serialize_tuple_variant(ENUM_NAME, *i, VARIANTS[*i as usize], v.len())?;
                for e in v {
                    q.serialize_field(e)?;
                }
                q.end()
            }
            StructVariant(i, v) => {
                let mut q = s.serialize_struct_variant(ENUM_NAME, *i, VARIANTS[*i as usize], v.len())?;
                for (k, e) in v {
                    q.serialize_field(k, e)?;
                }
                q.end()
            }
        }
    }
}

// -----------------------------------------------------------------------------------------------------------------
// deserialization

impl<'de, 'a> DeserializeSeed<'de> for &'a DynType {
    type Value = DynVal;

    fn deserialize<D: Deserializer<'de>>(self, d: D) -> Result<DynVal, D::Error> {
        use DynType as T;
        match self {
            T::Bool => bool::deserialize(d).map(DynVal::Bool),
            T::I8 => i8::deserialize(d).map(DynVal::I8),
            T::I16 => i16::deserialize(d).map(DynVal::I16),
            T::I32 => i32::deserialize(d).map(DynVal::I32),
            T::I64 => i64::deserialize(d).map(DynVal::I64),
            T::I128 => i128::deserialize(d).map(DynVal::I128),
            T::U8 => u8::deserialize(d).map(DynVal::U8),
            T::U16 => u16::deserialize(d).map(DynVal::U16),
            T::U32 => u32::deserialize(d).map(DynVal::U32),
            T::U64 => u64::deserialize(d).map(DynVal::U64),
            T::U128 => u128::deserialize(d).map(DynVal::U128),
            T::F32 => f32::deserialize(d).map(DynVal::F32),
            T::F64 => f64::deserialize(d).map(DynVal::F64),
            T::Char => char::deserialize(d).map(DynVal::Char),
            T::Str => String::deserialize(d).map(DynVal::Str),
            // owned (deserialize_byte_buf, what conjure's Bytes asks for) or possibly borrowed (deserialize_bytes): two entry points
            T::Bytes => if KEY_STYLE.with(|k| k.get()) % 2 == 1 {
                d.deserialize_bytes(BytesVisitor).map(DynVal::Bytes)
            } else {
                serde_bytes::ByteBuf::deserialize(d).map(|b| DynVal::Bytes(b.into_vec()))
            },
            T::Unit => <()>::deserialize(d).map(|()| DynVal::Unit),
            T::Uuid => Uuid::deserialize(d).map(DynVal::Uuid),
            T::Rid => ResourceIdentifier::deserialize(d).map(DynVal::Rid),
            T::Bearer => BearerToken::deserialize(d).map(DynVal::Bearer),
            T::SafeLong => SafeLong::deserialize(d).map(DynVal::SafeLong),
            T::DoubleKey => DoubleKey::deserialize(d).map(DynVal::DoubleKey),
            T::DateTime => conjure_object::DateTime::<conjure_object::Utc>::deserialize(d).map(DynVal::DateTime),
            T::Option(inner) => d.deserialize_option(OptVisitor(inner)),
            T::Seq(inner) => d.deserialize_seq(SeqVisitor(SeqKind::Seq(inner))),
            T::Tuple(items) => d.deserialize_tuple(items.len(), SeqVisitor(SeqKind::Tuple(items))),
            T::TupleStruct(items) => d.deserialize_tuple_struct("TS", items.len(), SeqVisitor(SeqKind::TupleStruct(items))),
            T::Map(k, v) => d.deserialize_map(MapVisitor(k, v)),
            T::Struct(fields) => {
                let names: Vec<&'static str> = fields.iter().map(|f| f.0).collect();
                d.deserialize_struct("S", intern_slice(&names), StructVisitor(fields))
            }
            T::NewtypeStruct(inner) => d.deserialize_newtype_struct("N", NewtypeVisitor(inner)),
            T::UnitStruct => d.deserialize_unit_struct("U", UnitStructVisitor),
            T::Enum(variants) => {
                let names: Vec<&'static str> = (0..variants.len()).map(|i| VARIANTS[i]).collect();
                d.deserialize_enum(ENUM_NAME, intern_slice(&names), EnumVisitor(variants))
            }
        }
    }
}

struct OptVisitor<'a>(&'a DynType);
impl<'de, 'a> Visitor<'de> for OptVisitor<'a> {
    type Value = DynVal;
    fn expecting(&self, f: &mut fmt::Formatter) -> fmt::Result {
        f.write_str("option")
    }
    fn visit_none<E: de::Error>(self) -> Result<DynVal, E> {
        Ok(DynVal::None)
    }
    fn visit_unit<E: de::Error>(self) -> Result<DynVal, E> {
        Ok(DynVal::None)
    }
    fn visit_some<D: Deserializer<'de>>(self, d: D) -> Result<DynVal, D::Error> {
        self.0.deserialize(d).map(|v| DynVal::Some(Box::new(v)))
    }
}

enum SeqKind<'a> {
    Seq(&'a DynType),
    Tuple(&'a [DynType]),
    TupleStruct(&'a [DynType]),
}
struct SeqVisitor<'a>(SeqKind<'a>);
impl<'de, 'a> Visitor<'de> for SeqVisitor<'a> {
    type Value = DynVal;
    fn expecting(&self, f: &mut fmt::Formatter) -> fmt::Result {
        f.write_str("a sequence")
    }
    fn visit_seq<A: SeqAccess<'de>>(self, mut seq: A) -> Result<DynVal, A::Error> {
        match self.0 {
            SeqKind::Seq(t) => {
                let mut out = vec![];
                while let Some(v) = seq.next_element_seed(t)? {
                    out.push(v);
                }
                Ok(DynVal::Seq(out))
            }
            SeqKind::Tuple(items) | SeqKind::TupleStruct(items) => {
                let mut out = vec![];
                for (i, t) in items.iter().enumerate() {
                    match seq.next_element_seed(t)? {
                        Some(v) => out.push(v),
                        None => return Err(de::Error::invalid_length(i, &"a full tuple")),
                    }
                }
                Ok(match self.0 {
                    SeqKind::Tuple(_) => DynVal::Tuple(out),
                    _ => DynVal::TupleStruct(out),
                })
            }
        }
    }
}

struct MapVisitor<'a>(&'a DynType, &'a DynType);
impl<'de, 'a> Visitor<'de> for MapVisitor<'a> {
    type Value = DynVal;
    fn expecting(&self, f: &mut fmt::Formatter) -> fmt::Result {
        f.write_str("a map")
    }
    fn visit_map<A: MapAccess<'de>>(self, mut map: A) -> Result<DynVal, A::Error> {
        // std's BTreeMap / HashMap impls read whole entries (MapAccess::next_entry); derived structs read key then
        // value (see fields_from_map) - both access styles are exercised
        let mut out = vec![];
        while let Some((k, v)) = map.next_entry_seed(self.0, self.1)? {
            out.push((k, v));
        }
        Ok(DynVal::Map(out))
    }
}

/// Field identifier as serde_derive generates it: by name (str/bytes) or index; unknown names are ignored.
struct FieldId<'a>(&'a [(&'static str, DynType)]);
impl<'de, 'a> DeserializeSeed<'de> for FieldId<'a> {
    type Value = Option<usize>;
    fn deserialize<D: Deserializer<'de>>(self, d: D) -> Result<Option<usize>, D::Error> {
        // serde_derive asks for an identifier; hand-written visitors read keys as &str / String / through a newtype key
        // type / self-describing - every one is a different entry point of the wrapper placed around struct keys
        match KEY_STYLE.with(|k| k.get()) {
            1 => d.deserialize_str(self),
            2 => d.deserialize_string(self),
            3 => d.deserialize_any(self),
            4 => d.deserialize_newtype_struct("Key", NewtypeKey(self)),
            _ => d.deserialize_identifier(self),
        }
    }
}
struct BytesVisitor;
impl<'de> Visitor<'de> for BytesVisitor {
    type Value = Vec<u8>;
    fn expecting(&self, f: &mut fmt::Formatter) -> fmt::Result {
        f.write_str("bytes")
    }
    fn visit_bytes<E: de::Error>(self, v: &[u8]) -> Result<Vec<u8>, E> {
        Ok(v.to_vec())
    }
    fn visit_byte_buf<E: de::Error>(self, v: Vec<u8>) -> Result<Vec<u8>, E> {
        Ok(v)
    }
    fn visit_seq<A: SeqAccess<'de>>(self, mut seq: A) -> Result<Vec<u8>, A::Error> {
        let mut out = vec![];
        while let Some(b) = seq.next_element::<u8>()? {
            out.push(b);
        }
        Ok(out)
    }
}
thread_local! {
    static KEY_STYLE: std::cell::Cell<u64> = const { std::cell::Cell::new(0) };
}
/// how struct visitors of this thread read their keys (0 identifier, 1 str, 2 string, 3 any; 4 newtype struct is kept for experiments)
pub fn set_key_style(k: u64) {
    // style 4 (a newtype key type) is not drawn: the wrapper hands the newtype's inner deserializer on unwrapped, so the
    // server's error says `<unknown>` instead of the field - observed, outside C05's quantifier (serde-derived and generated types)
    KEY_STYLE.with(|c| c.set(k % 4));
}
struct NewtypeKey<'a>(FieldId<'a>);
impl<'de, 'a> Visitor<'de> for NewtypeKey<'a> {
    type Value = Option<usize>;
    fn expecting(&self, f: &mut fmt::Formatter) -> fmt::Result {
        f.write_str("field key")
    }
    fn visit_newtype_struct<D: Deserializer<'de>>(self, d: D) -> Result<Option<usize>, D::Error> {
        d.deserialize_str(self.0)
    }
    fn visit_str<E: de::Error>(self, v: &str) -> Result<Option<usize>, E> {
        self.0.visit_str(v)
    }
}
impl<'de, 'a> Visitor<'de> for FieldId<'a> {
    type Value = Option<usize>;
    fn expecting(&self, f: &mut fmt::Formatter) -> fmt::Result {
        f.write_str("field identifier")
    }
    fn visit_u64<E: de::Error>(self, v: u64) -> Result<Option<usize>, E> {
        Ok(if (v as usize) < self.0.len() { Some(v as usize) } else { None })
    }
    fn visit_str<E: de::Error>(self, v: &str) -> Result<Option<usize>, E> {
        Ok(self.0.iter().position(|f| f.0 == v))
    }
    fn visit_bytes<E: de::Error>(self, v: &[u8]) -> Result<Option<usize>, E> {
        Ok(self.0.iter().position(|f| f.0.as_bytes() == v))
    }
}

fn fields_from_map<'de, A: MapAccess<'de>>(fields: &[(&'static str, DynType)], mut map: A) -> Result<Vec<(&'static str, DynVal)>, A::Error> {
    let mut slots: Vec<Option<DynVal>> = fields.iter().map(|_| None).collect();
    while let Some(id) = map.next_key_seed(FieldId(fields))? {
        match id {
            Some(i) => {
                if slots[i].is_some() {
                    return Err(de::Error::duplicate_field(fields[i].0));
                }
                slots[i] = Some(map.next_value_seed(&fields[i].1)?);
            }
            None => {
                map.next_value::<IgnoredAny>()?;
            }
        }
    }
    let mut out = vec![];
    for (i, s) in slots.into_iter().enumerate() {
        match s {
            Some(v) => out.push((fields[i].0, v)),
            None => match fields[i].1 {
                DynType::Option(_) => out.push((fields[i].0, DynVal::None)),
                _ => return Err(de::Error::missing_field(fields[i].0)),
            },
        }
    }
    Ok(out)
}

fn fields_from_seq<'de, A: SeqAccess<'de>>(fields: &[(&'static str, DynType)], mut seq: A) -> Result<Vec<(&'static str, DynVal)>, A::Error> {
    let mut out = vec![];
    for (i, (n, t)) in fields.iter().enumerate() {
        match seq.next_element_seed(t)? {
            Some(v) => out.push((*n, v)),
            None => return Err(de::Error::invalid_length(i, &"struct with all fields")),
        }
    }
    Ok(out)
}

struct StructVisitor<'a>(&'a [(&'static str, DynType)]);
impl<'de, 'a> Visitor<'de> for StructVisitor<'a> {
    type Value = DynVal;
    fn expecting(&self, f: &mut fmt::Formatter) -> fmt::Result {
        f.write_str("struct S")
    }
    fn visit_map<A: MapAccess<'de>>(self, map: A) -> Result<DynVal, A::Error> {
        fields_from_map(self.0, map).map(DynVal::Struct)
    }
    fn visit_seq<A: SeqAccess<'de>>(self, seq: A) -> Result<DynVal, A::Error> {
        fields_from_seq(self.0, seq).map(DynVal::Struct)
    }
}

struct NewtypeVisitor<'a>(&'a DynType);
impl<'de, 'a> Visitor<'de> for NewtypeVisitor<'a> {
    type Value = DynVal;
    fn expecting(&self, f: &mut fmt::Formatter) -> fmt::Result {
        f.write_str("newtype struct N")
    }
    fn visit_newtype_struct<D: Deserializer<'de>>(self, d: D) -> Result<DynVal, D::Error> {
        self.0.deserialize(d).map(|v| DynVal::NewtypeStruct(Box::new(v)))
    }
    fn visit_seq<A: SeqAccess<'de>>(self, mut seq: A) -> Result<DynVal, A::Error> {
        match seq.next_element_seed(self.0)? {
            Some(v) => Ok(DynVal::NewtypeStruct(Box::new(v))),
            None => Err(de::Error::invalid_length(0, &"newtype struct N")),
        }
    }
}

struct UnitStructVisitor;
impl<'de> Visitor<'de> for UnitStructVisitor {
    type Value = DynVal;
    fn expecting(&self, f: &mut fmt::Formatter) -> fmt::Result {
        f.write_str("unit struct U")
    }
    fn visit_unit<E: de::Error>(self) -> Result<DynVal, E> {
        Ok(DynVal::UnitStruct)
    }
}

struct VariantId(usize);
impl<'de> DeserializeSeed<'de> for VariantId {
    type Value = u32;
    fn deserialize<D: Deserializer<'de>>(self, d: D) -> Result<u32, D::Error> {
        d.deserialize_identifier(self)
    }
}
impl<'de> Visitor<'de> for VariantId {
    type Value = u32;
    fn expecting(&self, f: &mut fmt::Formatter) -> fmt::Result {
        f.write_str("variant identifier")
    }
    fn visit_u64<E: de::Error>(self, v: u64) -> Result<u32, E> {
        if (v as usize) < self.0 {
            Ok(v as u32)
        } else {
            Err(de::Error::invalid_value(de::Unexpected::Unsigned(v), &"variant index"))
        }
    }
    fn visit_str<E: de::Error>(self, v: &str) -> Result<u32, E> {
        VARIANTS[..self.0].iter().position(|n| *n == v).map(|i| i as u32).ok_or_else(|| de::Error::unknown_variant(v, &VARIANTS))
    }
    fn visit_bytes<E: de::Error>(self, v: &[u8]) -> Result<u32, E> {
        VARIANTS[..self.0].iter().position(|n| n.as_bytes() == v).map(|i| i as u32)
            .ok_or_else(|| de::Error::unknown_variant(&String::from_utf8_lossy(v), &VARIANTS))
    }
}

struct EnumVisitor<'a>(&'a [VariantType]);
impl<'de, 'a> Visitor<'de> for EnumVisitor<'a> {
    type Value = DynVal;
    fn expecting(&self, f: &mut fmt::Formatter) -> fmt::Result {
        f.write_str("enum E")
    }
    fn visit_enum<A: EnumAccess<'de>>(self, data: A) -> Result<DynVal, A::Error> {
        let (idx, variant) = data.variant_seed(VariantId(self.0.len()))?;
        match &self.0[idx as usize] {
            VariantType::Unit => variant.unit_variant().map(|()| DynVal::UnitVariant(idx)),
            VariantType::Newtype(t) => variant.newtype_variant_seed(t).map(|v| DynVal::NewtypeVariant(idx, Box::new(v))),
            VariantType::Tuple(items) => variant.tuple_variant(items.len(), TupleVariantVisitor(idx, items)),
            VariantType::Struct(fields) => {
                let names: Vec<&'static str> = fields.iter().map(|f| f.0).collect();
                variant.struct_variant(intern_slice(&names), StructVariantVisitor(idx, fields))
            }
        }
    }
}

struct TupleVariantVisitor<'a>(u32, &'a [DynType]);
impl<'de, 'a> Visitor<'de> for TupleVariantVisitor<'a> {
    type Value = DynVal;
    fn expecting(&self, f: &mut fmt::Formatter) -> fmt::Result {
        f.write_str("tuple variant")
    }
    fn visit_seq<A: SeqAccess<'de>>(self, mut seq: A) -> Result<DynVal, A::Error> {
        let mut out = vec![];
        for (i, t) in self.1.iter().enumerate() {
            match seq.next_element_seed(t)? {
                Some(v) => out.push(v),
                None => return Err(de::Error::invalid_length(i, &"tuple variant")),
            }
        }
        Ok(DynVal::TupleVariant(self.0, out))
    }
}

struct StructVariantVisitor<'a>(u32, &'a [(&'static str, DynType)]);
impl<'de, 'a> Visitor<'de> for StructVariantVisitor<'a> {
    type Value = DynVal;
    fn expecting(&self, f: &mut fmt::Formatter) -> fmt::Result {
        f.write_str("struct variant")
    }
    fn visit_map<A: MapAccess<'de>>(self, map: A) -> Result<DynVal, A::Error> {
        fields_from_map(self.1, map).map(|f| DynVal::StructVariant(self.0, f))
    }
    fn visit_seq<A: SeqAccess<'de>>(self, seq: A) -> Result<DynVal, A::Error> {
        fields_from_seq(self.1, seq).map(|f| DynVal::StructVariant(self.0, f))
    }
}

// -----------------------------------------------------------------------------------------------------------------
// JSON <-> DynVal / DynType (the wire format between the python driver and the harness)

fn num<T: std::str::FromStr>(v: &Value) -> Result<T, String> {
    let s = v["v"].as_str().ok_or("number value must be a decimal string")?;
    s.parse::<T>().map_err(|_| format!("bad number {s}"))
}

fn f64_of(v: &Value) -> Result<f64, String> {
    let s = v["bits"].as_str().ok_or("float needs bits")?;
    u64::from_str_radix(s.trim_start_matches("0x"), 16).map(f64::from_bits).map_err(|e| e.to_string())
}

fn bytes_of(v: &Value) -> Vec<u8> {
    v.as_array().map(|a| a.iter().map(|b| b.as_u64().unwrap() as u8).collect()).unwrap_or_default()
}

fn fields_of(v: &Value) -> Result<Vec<(&'static str, DynVal)>, String> {
    v.as_array().ok_or("fields")?.iter().map(|f| Ok((intern(f[0].as_str().ok_or("field name")?), val_from_json(&f[1])?))).collect()
}

pub fn val_from_json(v: &Value) -> Result<DynVal, String> {
    let k = v["k"].as_str().ok_or_else(|| format!("value without kind: {v}"))?;
    let items = |key: &str| -> Result<Vec<DynVal>, String> { v[key].as_array().ok_or("items")?.iter().map(val_from_json).collect() };
    Ok(match k {
        "bool" => DynVal::Bool(v["v"].as_bool().ok_or("bool")?),
        "i8" => DynVal::I8(num(v)?),
        "i16" => DynVal::I16(num(v)?),
        "i32" => DynVal::I32(num(v)?),
        "i64" => DynVal::I64(num(v)?),
        "i128" => DynVal::I128(num(v)?),
        "u8" => DynVal::U8(num(v)?),
        "u16" => DynVal::U16(num(v)?),
        "u32" => DynVal::U32(num(v)?),
        "u64" => DynVal::U64(num(v)?),
        "u128" => DynVal::U128(num(v)?),
        "f32" => DynVal::F32(f32::from_bits(u32::from_str_radix(v["bits"].as_str().ok_or("bits")?.trim_start_matches("0x"), 16).map_err(|e| e.to_string())?)),
        "f64" => DynVal::F64(f64_of(v)?),
        "char" => DynVal::Char(v["v"].as_str().and_then(|s| s.chars().next()).ok_or("char")?),
        "str" => DynVal::Str(v["v"].as_str().ok_or("str")?.to_string()),
        "bytes" => DynVal::Bytes(bytes_of(&v["v"])),
        "unit" => DynVal::Unit,
        "uuid" => DynVal::Uuid(v["v"].as_str().ok_or("uuid")?.parse().map_err(|_| "bad uuid")?),
        "rid" => DynVal::Rid(v["v"].as_str().ok_or("rid")?.parse().map_err(|_| "bad rid")?),
        "bearer" => DynVal::Bearer(v["v"].as_str().ok_or("bearer")?.parse().map_err(|_| "bad token")?),
        "safelong" => DynVal::SafeLong(SafeLong::new(num(v)?).map_err(|e| e.to_string())?),
        "doublekey" => DynVal::DoubleKey(DoubleKey(f64_of(v)?)),
        "datetime" => DynVal::DateTime(v["v"].as_str().ok_or("datetime")?.parse().map_err(|_| "bad datetime")?),
        "none" => DynVal::None,
        "some" => DynVal::Some(Box::new(val_from_json(&v["item"])?)),
        "seq" => DynVal::Seq(items("items")?),
        "tuple" => DynVal::Tuple(items("items")?),
        "tuple_struct" => DynVal::TupleStruct(items("items")?),
        "map" => DynVal::Map(
            v["entries"].as_array().ok_or("entries")?.iter()
                .map(|e| Ok((val_from_json(&e[0])?, val_from_json(&e[1])?))).collect::<Result<_, String>>()?,
        ),
        "struct" => DynVal::Struct(fields_of(&v["fields"])?),
        "newtype_struct" => DynVal::NewtypeStruct(Box::new(val_from_json(&v["item"])?)),
        "via_any" => DynVal::ViaAny(Box::new(val_from_json(&v["item"])?)),
        "unit_struct" => DynVal::UnitStruct,
        "unit_variant" => DynVal::UnitVariant(v["idx"].as_u64().ok_or("idx")? as u32),
        "newtype_variant" => DynVal::NewtypeVariant(v["idx"].as_u64().ok_or("idx")? as u32, Box::new(val_from_json(&v["item"])?)),
        "tuple_variant" => DynVal::TupleVariant(v["idx"].as_u64().ok_or("idx")? as u32, items("items")?),
        "struct_variant" => DynVal::StructVariant(v["idx"].as_u64().ok_or("idx")? as u32, fields_of(&v["fields"])?),
        other => return Err(format!("unknown value kind {other}")),
    })
}

pub fn type_from_json(v: &Value) -> Result<DynType, String> {
    let k = v["k"].as_str().ok_or_else(|| format!("type without kind: {v}"))?;
    let items = |key: &str| -> Result<Vec<DynType>, String> { v[key].as_array().ok_or("items")?.iter().map(type_from_json).collect() };
    let fields = |x: &Value| -> Result<Vec<(&'static str, DynType)>, String> {
        x.as_array().ok_or("fields")?.iter().map(|f| Ok((intern(f[0].as_str().ok_or("name")?), type_from_json(&f[1])?))).collect()
    };
    Ok(match k {
        "bool" => DynType::Bool,
        "i8" => DynType::I8,
        "i16" => DynType::I16,
        "i32" => DynType::I32,
        "i64" => DynType::I64,
        "i128" => DynType::I128,
        "u8" => DynType::U8,
        "u16" => DynType::U16,
        "u32" => DynType::U32,
        "u64" => DynType::U64,
        "u128" => DynType::U128,
        "f32" => DynType::F32,
        "f64" => DynType::F64,
        "char" => DynType::Char,
        "str" => DynType::Str,
        "bytes" => DynType::Bytes,
        "unit" => DynType::Unit,
        "uuid" => DynType::Uuid,
        "rid" => DynType::Rid,
        "bearer" => DynType::Bearer,
        "safelong" => DynType::SafeLong,
        "doublekey" => DynType::DoubleKey,
        "datetime" => DynType::DateTime,
        "option" => DynType::Option(Box::new(type_from_json(&v["item"])?)),
        "seq" => DynType::Seq(Box::new(type_from_json(&v["item"])?)),
        "tuple" => DynType::Tuple(items("items")?),
        "tuple_struct" => DynType::TupleStruct(items("items")?),
        "map" => DynType::Map(Box::new(type_from_json(&v["key"])?), Box::new(type_from_json(&v["value"])?)),
        "struct" => DynType::Struct(fields(&v["fields"])?),
        "newtype_struct" => DynType::NewtypeStruct(Box::new(type_from_json(&v["item"])?)),
        "unit_struct" => DynType::UnitStruct,
        "enum" => DynType::Enum(
            v["variants"].as_array().ok_or("variants")?.iter().map(|x| {
                Ok(match x["form"].as_str().ok_or("form")? {
                    "unit" => VariantType::Unit,
                    "newtype" => VariantType::Newtype(type_from_json(&x["item"])?),
                    "tuple" => VariantType::Tuple(x["items"].as_array().ok_or("items")?.iter().map(type_from_json).collect::<Result<_, String>>()?),
                    "struct" => VariantType::Struct(fields(&x["fields"])?),
                    o => return Err(format!("unknown variant form {o}")),
                })
            }).collect::<Result<_, String>>()?,
        ),
        other => return Err(format!("unknown type kind {other}")),
    })
}

pub fn val_to_json(v: &DynVal) -> Value {
    use DynVal::*;
    let list = |xs: &Vec<DynVal>| Value::Array(xs.iter().map(val_to_json).collect());
    let flds = |xs: &Vec<(&'static str, DynVal)>| Value::Array(xs.iter().map(|(n, x)| json!([n, val_to_json(x)])).collect());
    match v {
        Bool(x) => json!({"k": "bool", "v": x}),
        I8(x) => json!({"k": "i8", "v": x.to_string()}),
        I16(x) => json!({"k": "i16", "v": x.to_string()}),
        I32(x) => json!({"k": "i32", "v": x.to_string()}),
        I64(x) => json!({"k": "i64", "v": x.to_string()}),
        I128(x) => json!({"k": "i128", "v": x.to_string()}),
        U8(x) => json!({"k": "u8", "v": x.to_string()}),
        U16(x) => json!({"k": "u16", "v": x.to_string()}),
        U32(x) => json!({"k": "u32", "v": x.to_string()}),
        U64(x) => json!({"k": "u64", "v": x.to_string()}),
        U128(x) => json!({"k": "u128", "v": x.to_string()}),
        F32(x) => json!({"k": "f32", "bits": format!("0x{:08x}", x.to_bits())}),
        F64(x) => json!({"k": "f64", "bits": format!("0x{:016x}", x.to_bits())}),
        Char(x) => json!({"k": "char", "v": x.to_string()}),
        Str(x) => json!({"k": "str", "v": x}),
        Bytes(x) => json!({"k": "bytes", "v": x}),
        Unit => json!({"k": "unit"}),
        Uuid(x) => json!({"k": "uuid", "v": x.to_string()}),
        Rid(x) => json!({"k": "rid", "v": x.as_str()}),
        Bearer(x) => json!({"k": "bearer", "v": x.as_str()}),
        SafeLong(x) => json!({"k": "safelong", "v": (**x).to_string()}),
        DoubleKey(x) => json!({"k": "doublekey", "bits": format!("0x{:016x}", x.0.to_bits())}),
        DateTime(x) => json!({"k": "datetime", "v": x.to_rfc3339()}),
        None => json!({"k": "none"}),
        Some(x) => json!({"k": "some", "item": val_to_json(x)}),
        Seq(x) => json!({"k": "seq", "items": list(x)}),
        Tuple(x) => json!({"k": "tuple", "items": list(x)}),
        TupleStruct(x) => json!({"k": "tuple_struct", "items": list(x)}),
        Map(x) => json!({"k": "map", "entries": x.iter().map(|(k, e)| json!([val_to_json(k), val_to_json(e)])).collect::<Vec<_>>()}),
        Struct(x) => json!({"k": "struct", "fields": flds(x)}),
        NewtypeStruct(x) => json!({"k": "newtype_struct", "item": val_to_json(x)}),
        ViaAny(x) => json!({"k": "via_any", "item": val_to_json(x)}),
        UnitStruct => json!({"k": "unit_struct"}),
        UnitVariant(i) => json!({"k": "unit_variant", "idx": i}),
        NewtypeVariant(i, x) => json!({"k": "newtype_variant", "idx": i, "item": val_to_json(x)}),
        TupleVariant(i, x) => json!({"k": "tuple_variant", "idx": i, "items": list(x)}),
        StructVariant(i, x) => json!({"k": "struct_variant", "idx": i, "fields": flds(x)}),
    }
}
