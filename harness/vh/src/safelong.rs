//! C15: every construction / deserialization route of SafeLong, driven with exact decimal values.
use crate::util::{catch, emit, read_cases, silence_panics};
use conjure_object::{Any, FromPlain, SafeLong};
use serde::Deserialize;
use serde_json::{json, Value};
use std::collections::BTreeMap;
use std::convert::TryFrom;
use std::str::FromStr;

#[derive(Deserialize)]
struct Holder {
    v: SafeLong,
}

fn ok(v: SafeLong) -> Result<String, String> {
    Ok((*v).to_string())
}

fn e<T: std::fmt::Display>(x: T) -> String {
    x.to_string()
}

fn run(route: &str, text: &str, lit: &str) -> Result<Result<String, String>, String> {
    // Err(outer) = the value is outside the route's input type (harness-side skip)
    macro_rules! parse {
        ($t:ty) => {
            match <$t>::from_str(text) {
                Ok(v) => v,
                Err(_) => return Err(format!("{text} not representable as {}", stringify!($t))),
            }
        };
    }
    Ok(match route {
        "new" => SafeLong::new(parse!(i64)).map_err(e).and_then(ok),
        "try_from_i64" => SafeLong::try_from(parse!(i64)).map_err(e).and_then(ok),
        "try_from_u64" => SafeLong::try_from(parse!(u64)).map_err(e).and_then(ok),
        "try_from_i128" => SafeLong::try_from(parse!(i128)).map_err(e).and_then(ok),
        "try_from_u128" => SafeLong::try_from(parse!(u128)).map_err(e).and_then(ok),
        "try_from_isize" => SafeLong::try_from(parse!(isize)).map_err(e).and_then(ok),
        "try_from_usize" => SafeLong::try_from(parse!(usize)).map_err(e).and_then(ok),
        "from_i32" => {
            let v = parse!(i32);
            if let Ok(b) = i8::try_from(v) {
                assert_eq!(*SafeLong::from(b), v as i64);
            }
            if let Ok(b) = i16::try_from(v) {
                assert_eq!(*SafeLong::from(b), v as i64);
            }
            ok(SafeLong::from(v))
        }
        "from_u32" => {
            let v = parse!(u32);
            if let Ok(b) = u8::try_from(v) {
                assert_eq!(*SafeLong::from(b), v as i64);
            }
            if let Ok(b) = u16::try_from(v) {
                assert_eq!(*SafeLong::from(b), v as i64);
            }
            ok(SafeLong::from(v))
        }
        "from_str" => SafeLong::from_str(lit).map_err(e).and_then(ok),
        "from_plain" => SafeLong::from_plain(lit).map_err(e).and_then(ok),
        "json_client" => conjure_serde::json::client_from_str::<SafeLong>(text).map_err(e).and_then(ok),
        "json_server" => conjure_serde::json::server_from_slice::<SafeLong>(text.as_bytes()).map_err(e).and_then(ok),
        "json_key" => conjure_serde::json::client_from_str::<BTreeMap<SafeLong, i32>>(&format!("{{\"{text}\":1}}"))
            .map_err(e)
            .and_then(|m| ok(*m.keys().next().unwrap())),
        "object_field" => conjure_serde::json::server_from_str::<Holder>(&format!("{{\"v\":{text}}}"))
            .map_err(e)
            .and_then(|h| ok(h.v)),
        "smile" => {
            let b = conjure_serde::smile::to_vec(&parse!(i64)).map_err(e)?;
            conjure_serde::smile::server_from_slice::<SafeLong>(&b).map_err(e).and_then(ok)
        }
        "smile_u64" => {
            let b = conjure_serde::smile::to_vec(&parse!(u64)).map_err(e)?;
            conjure_serde::smile::client_from_slice::<SafeLong>(&b).map_err(e).and_then(ok)
        }
        "smile_key" => {
            let mut m = BTreeMap::new();
            m.insert(parse!(i64), 1i32);
            let b = conjure_serde::smile::to_vec(&m).map_err(e)?;
            conjure_serde::smile::client_from_slice::<BTreeMap<SafeLong, i32>>(&b)
                .map_err(e)
                .and_then(|m| ok(*m.keys().next().unwrap()))
        }
        "any_i64" => Any::new(parse!(i64)).map_err(e)?.deserialize_into::<SafeLong>().map_err(e).and_then(ok),
        "any_u64" => Any::new(parse!(u64)).map_err(e)?.deserialize_into::<SafeLong>().map_err(e).and_then(ok),
        "any_i128" => Any::new(parse!(i128)).map_err(e)?.deserialize_into::<SafeLong>().map_err(e).and_then(ok),
        "any_key" => {
            let mut m = BTreeMap::new();
            m.insert(parse!(i64), 1i32);
            Any::new(m)
                .map_err(e)?
                .deserialize_into::<BTreeMap<SafeLong, i32>>()
                .map_err(e)
                .and_then(|m| ok(*m.keys().next().unwrap()))
        }
        "json_any" => conjure_serde::json::client_from_str::<Any>(text).map_err(e)?.deserialize_into::<SafeLong>().map_err(e).and_then(ok),
        "json_any_key" => conjure_serde::json::server_from_str::<Any>(&format!("{{\"{text}\":1}}"))
            .map_err(e)?
            .deserialize_into::<BTreeMap<SafeLong, i32>>()
            .map_err(e)
            .and_then(|m| ok(*m.keys().next().unwrap())),
        "json_any_nested" => conjure_serde::json::client_from_str::<Any>(&format!("{{\"v\":[{text}]}}"))
            .map_err(e)?
            .deserialize_into::<BTreeMap<String, Vec<SafeLong>>>()
            .map_err(e)
            .and_then(|m| ok(m["v"][0])),
        "smile_any" => {
            let b = conjure_serde::smile::to_vec(&parse!(u64)).map_err(e)?;
            conjure_serde::smile::client_from_slice::<Any>(&b).map_err(e)?.deserialize_into::<SafeLong>().map_err(e).and_then(ok)
        }
        "smile_i128" => {
            let b = conjure_serde::smile::to_vec(&parse!(i128)).map_err(e)?;
            conjure_serde::smile::server_from_slice::<SafeLong>(&b).map_err(e).and_then(ok)
        }
        "smile_u128" => {
            let b = conjure_serde::smile::to_vec(&parse!(u128)).map_err(e)?;
            conjure_serde::smile::client_from_reader::<_, SafeLong>(&b[..]).map_err(e).and_then(ok)
        }
        "smile_any_u128" => {
            let b = conjure_serde::smile::to_vec(&parse!(u128)).map_err(e)?;
            conjure_serde::smile::client_from_slice::<Any>(&b).map_err(e)?.deserialize_into::<SafeLong>().map_err(e).and_then(ok)
        }
        "smile_list_u128" => {
            let b = conjure_serde::smile::to_vec(&vec![parse!(u128)]).map_err(e)?;
            conjure_serde::smile::server_from_slice::<Vec<SafeLong>>(&b).map_err(e).and_then(|v| ok(v[0]))
        }
        // the parameter decoders of generated servers: path / query values and header values, single and optional.
        // "absent" (an optional decoder answering None for a value that is there) is an answer of its own: not an error.
        "dec_param" | "dec_param_opt" | "dec_param_seq" | "dec_header" | "dec_header_opt" => {
            use conjure_http::server::conjure::{FromPlainDecoder, FromPlainOptionDecoder, FromPlainSeqDecoder};
            use conjure_http::server::{DecodeHeader, DecodeParam};
            let rt = conjure_http::server::ConjureRuntime::new();
            let hv = http::HeaderValue::from_str(lit).map_err(e)?;
            let ce = |x: conjure_error::Error| format!("{:?}", x.cause());
            let absent = || Ok("absent".to_string());
            match route {
                "dec_param" => <FromPlainDecoder as DecodeParam<SafeLong>>::decode(&rt, [lit]).map_err(ce).and_then(ok),
                "dec_param_opt" => <FromPlainOptionDecoder as DecodeParam<Option<SafeLong>>>::decode(&rt, [lit]).map_err(ce).and_then(|o| o.map(ok).unwrap_or_else(absent)),
                "dec_param_seq" => <FromPlainSeqDecoder<SafeLong> as DecodeParam<Vec<SafeLong>>>::decode(&rt, [lit, lit]).map_err(ce).and_then(|v| v.first().cloned().map(ok).unwrap_or_else(absent)),
                "dec_header" => <FromPlainDecoder as DecodeHeader<SafeLong>>::decode(&rt, [&hv]).map_err(ce).and_then(ok),
                _ => <FromPlainOptionDecoder as DecodeHeader<Option<SafeLong>>>::decode(&rt, [&hv]).map_err(ce).and_then(|o| o.map(ok).unwrap_or_else(absent)),
            }
        }
        other => return Err(format!("unknown route {other}")),
    })
}

/// stdin: {"id":.., "route":.., "value": "<decimal>", "lit": "<spelling of the value for text routes>"}
pub fn safelong(_args: &[String]) -> i32 {
    silence_panics();
    for case in read_cases() {
        let id = case["id"].clone();
        let route = case["route"].as_str().unwrap();
        let text = case["value"].as_str().unwrap();
        let lit = case["lit"].as_str().unwrap_or(text);
        match catch(|| run(route, text, lit)) {
            Err(p) => emit(&json!({"id": id, "panic": p})),
            Ok(Err(skip)) => emit(&json!({"id": id, "skip": skip})),
            Ok(Ok(Ok(v))) => emit(&json!({"id": id, "ok": v})),
            Ok(Ok(Err(err))) => emit(&json!({"id": id, "err": err})),
        }
    }
    let _: Option<Value> = None;
    0
}
