//! Drives the real `conjure_codegen` library on IR documents and extracts observable facts from its output.
use crate::util::{catch, emit, read_cases, silence_panics};
use serde_json::{json, Value};
use std::fs;
use std::path::{Path, PathBuf};

fn scratch(tag: &str) -> PathBuf {
    let base = std::env::var("VERIF_SCRATCH").unwrap_or_else(|_| "/verif/out/scratch".to_string());
    let p = Path::new(&base).join(format!("{}-{}", tag, std::process::id()));
    let _ = fs::remove_dir_all(&p);
    fs::create_dir_all(&p).expect("scratch");
    p
}

pub fn collect_rs(dir: &Path, out: &mut Vec<PathBuf>) {
    if let Ok(rd) = fs::read_dir(dir) {
        let mut entries: Vec<_> = rd.filter_map(|e| e.ok()).map(|e| e.path()).collect();
        entries.sort();
        for p in entries {
            if p.is_dir() {
                collect_rs(&p, out);
            } else if p.extension().map(|e| e == "rs").unwrap_or(false) {
                out.push(p);
            }
        }
    }
}

/// Splits the tokens of an attribute argument list on top-level commas and reports `key` / `key = value` entries.
fn attr_entries(tokens: proc_macro2_shim::TokenStream) -> Vec<(String, Option<String>)> {
    let mut out = vec![];
    let mut cur: Vec<String> = vec![];
    let flush = |cur: &mut Vec<String>, out: &mut Vec<(String, Option<String>)>| {
        if cur.is_empty() {
            return;
        }
        let key = cur[0].clone();
        let val = if cur.len() >= 3 && cur[1] == "=" { Some(cur[2..].join(" ")) } else { None };
        out.push((key, val));
        cur.clear();
    };
    for tt in tokens {
        match &tt {
            proc_macro2_shim::TokenTree::Punct(p) if p.as_char() == ',' => flush(&mut cur, &mut out),
            other => cur.push(other.to_string()),
        }
    }
    flush(&mut cur, &mut out);
    out
}

mod proc_macro2_shim {
    pub use proc_macro2::{TokenStream, TokenTree};
}

/// Facts about one endpoint argument of a generated server trait.
fn trait_args(file: &syn::File) -> Vec<Value> {
    let mut out = vec![];
    for item in &file.items {
        let syn::Item::Trait(tr) = item else { continue };
        let is_endpoints = tr.attrs.iter().any(|a| {
            a.path().segments.last().map(|s| s.ident == "conjure_endpoints").unwrap_or(false)
        });
        if !is_endpoints {
            continue;
        }
        for ti in &tr.items {
            let syn::TraitItem::Fn(f) = ti else { continue };
            for input in &f.sig.inputs {
                let syn::FnArg::Typed(pt) = input else { continue };
                for attr in &pt.attrs {
                    let kind = attr.path().segments.last().map(|s| s.ident.to_string()).unwrap_or_default();
                    if !matches!(kind.as_str(), "path" | "query" | "header" | "body") {
                        continue;
                    }
                    let entries = match &attr.meta {
                        syn::Meta::List(l) => attr_entries(l.tokens.clone()),
                        _ => vec![],
                    };
                    let safe = entries.iter().any(|(k, v)| k == "safe" && v.is_none());
                    let get = |name: &str| {
                        entries.iter().find(|(k, _)| k == name).and_then(|(_, v)| v.clone())
                    };
                    let ident = match &*pt.pat {
                        syn::Pat::Ident(i) => i.ident.to_string(),
                        other => quote_str(other),
                    };
                    out.push(json!({
                        "trait": tr.ident.to_string(),
                        "method": f.sig.ident.to_string(),
                        "ident": ident,
                        "kind": kind,
                        "safe": safe,
                        "log_as": get("log_as"),
                        "name": get("name"),
                    }));
                }
            }
        }
    }
    out
}

fn quote_str<T: quote::ToTokens>(t: &T) -> String {
    t.to_token_stream().to_string()
}

fn take_events() -> Vec<String> {
    conjure_codegen::verif_take_events()
}

/// stdin: {"id":.., "ir": <IR document>, "config": {"exhaustive":bool, "serialize_empty_collections":bool, "strip_prefix":str|null}}
/// stdout: {"id":.., "ok":bool, "error":str|null, "args":[..], "events":[..]}
pub fn codegen_safe(_args: &[String]) -> i32 {
    silence_panics();
    let dir = scratch("codegen-safe");
    for case in read_cases() {
        let id = case["id"].clone();
        let ir_path = dir.join("ir.json");
        fs::write(&ir_path, serde_json::to_vec(&case["ir"]).unwrap()).unwrap();
        let out_dir = dir.join("out");
        let _ = fs::remove_dir_all(&out_dir);
        let mut config = conjure_codegen::Config::new();
        if let Some(c) = case.get("config") {
            config.exhaustive(c["exhaustive"].as_bool().unwrap_or(false));
            config.serialize_empty_collections(c["serialize_empty_collections"].as_bool().unwrap_or(false));
            if let Some(p) = c["strip_prefix"].as_str() {
                config.strip_prefix(p.to_string());
            }
        }
        let _ = take_events();
        let r = catch(|| config.generate_files(&ir_path, &out_dir));
        let events = take_events();
        let (ok, error) = match r {
            Ok(Ok(())) => (true, Value::Null),
            Ok(Err(e)) => (false, json!(format!("{e:#}"))),
            Err(p) => (false, json!(format!("panic: {p}"))),
        };
        let mut args = vec![];
        if ok {
            let mut files = vec![];
            collect_rs(&out_dir, &mut files);
            for f in files {
                let text = fs::read_to_string(&f).unwrap();
                if !text.contains("conjure_endpoints") {
                    continue;
                }
                match syn::parse_file(&text) {
                    Ok(file) => args.extend(trait_args(&file)),
                    Err(e) => {
                        emit(&json!({"id": id, "ok": false, "error": format!("generated file does not parse: {e}"), "args": [], "events": []}));
                        continue;
                    }
                }
            }
        }
        emit(&json!({"id": id, "ok": ok, "error": error, "args": args, "events": events}));
    }
    let _ = fs::remove_dir_all(&dir);
    0
}
