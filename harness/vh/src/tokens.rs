//! C16: every entry path of BearerToken and ResourceIdentifier.
use crate::util::{catch, emit, read_cases, silence_panics};
use conjure_object::{Any, BearerToken, FromPlain, ResourceIdentifier, ToPlain};
use serde_json::{json, Value};
use std::str::FromStr;

fn text(v: &Value) -> String {
    let b: Vec<u8> = v.as_array().unwrap().iter().map(|x| x.as_u64().unwrap() as u8).collect();
    String::from_utf8(b).expect("case strings are valid UTF-8")
}

fn verdict<T, E>(r: Result<T, E>, render: impl Fn(&T) -> Vec<String>) -> Value {
    match r {
        Ok(v) => json!({"ok": true, "renders": render(&v)}),
        Err(_) => json!({"ok": false}),
    }
}

/// the server's auth entry paths: `Authorization: Bearer <s>` and `Cookie: sid=<s>` (null when <s> cannot be a header value)
fn auth_path(s: &str, cookie: bool, r: impl Fn(&BearerToken) -> Vec<String>) -> Value {
    let text = if cookie { format!("sid={s}") } else { format!("Bearer {s}") };
    let Ok(value) = http::HeaderValue::from_bytes(text.as_bytes()) else { return Value::Null };
    let mut req = http::Request::new(());
    req.headers_mut().insert(if cookie { http::header::COOKIE } else { http::header::AUTHORIZATION }, value);
    let (parts, ()) = req.into_parts();
    let res = if cookie { conjure_http::private::parse_cookie_auth(&parts, "sid=") } else { conjure_http::private::parse_header_auth(&parts) };
    verdict(res, r)
}

/// the parameter decoders generated servers and macro servers use: one / optional / list, header and path-query flavours
fn decoder_paths<T>(s: &str, r: impl Fn(&T) -> Vec<String> + Copy, out: &mut serde_json::Map<String, Value>)
where
    T: conjure_object::FromPlain + std::str::FromStr,
    <T as conjure_object::FromPlain>::Err: std::error::Error + Sync + Send + 'static,
    <T as std::str::FromStr>::Err: std::error::Error + Sync + Send + 'static,
{
    use conjure_http::server::conjure::{FromPlainDecoder, FromPlainOptionDecoder, FromPlainSeqDecoder};
    use conjure_http::server::{DecodeHeader, DecodeParam, FromStrDecoder, FromStrOptionDecoder, FromStrSeqDecoder};
    let rt = conjure_http::server::ConjureRuntime::new();
    let opt = |x: Result<Option<T>, conjure_error::Error>| x.and_then(|o| o.ok_or_else(|| conjure_error::Error::internal_safe("absent")));
    let first = |x: Result<Vec<T>, conjure_error::Error>| x.and_then(|mut v| if v.len() == 1 { Ok(v.remove(0)) } else { Err(conjure_error::Error::internal_safe("count")) });
    out.insert("param_plain".into(), verdict(<FromPlainDecoder as DecodeParam<T>>::decode(&rt, [s]), r));
    out.insert("param_plain_opt".into(), verdict(opt(<FromPlainOptionDecoder as DecodeParam<Option<T>>>::decode(&rt, [s])), r));
    out.insert("param_plain_seq".into(), verdict(first(<FromPlainSeqDecoder<T> as DecodeParam<Vec<T>>>::decode(&rt, [s])), r));
    out.insert("param_str".into(), verdict(<FromStrDecoder as DecodeParam<T>>::decode(&rt, [s]), r));
    out.insert("param_str_opt".into(), verdict(opt(<FromStrOptionDecoder as DecodeParam<Option<T>>>::decode(&rt, [s])), r));
    out.insert("param_str_seq".into(), verdict(first(<FromStrSeqDecoder<T> as DecodeParam<Vec<T>>>::decode(&rt, [s])), r));
    if let Ok(hv) = http::HeaderValue::from_bytes(s.as_bytes()) {
        out.insert("header_plain".into(), verdict(<FromPlainDecoder as DecodeHeader<T>>::decode(&rt, [&hv]), r));
        out.insert("header_plain_opt".into(), verdict(opt(<FromPlainOptionDecoder as DecodeHeader<Option<T>>>::decode(&rt, [&hv])), r));
        out.insert("header_str".into(), verdict(<FromStrDecoder as DecodeHeader<T>>::decode(&rt, [&hv]), r));
        out.insert("header_str_opt".into(), verdict(opt(<FromStrOptionDecoder as DecodeHeader<Option<T>>>::decode(&rt, [&hv])), r));
    }
}

fn token_paths(s: &str) -> Value {
    let doc = serde_json::to_string(s).unwrap();
    let smile = conjure_serde::smile::to_vec(&s).unwrap();
    let r = |t: &BearerToken| {
        vec![t.as_str().to_string(), t.to_plain(), serde_json::from_str::<String>(&conjure_serde::json::to_string(t).unwrap()).unwrap(),
             AsRef::<str>::as_ref(t).to_string(), t.clone().into_string()]
    };
    let mut dec = serde_json::Map::new();
    decoder_paths::<BearerToken>(s, r, &mut dec);
    let mut v = json!({
        "from_str": verdict(BearerToken::from_str(s), r),
        "new": verdict(BearerToken::new(s), r),
        "json_client": verdict(conjure_serde::json::client_from_str::<BearerToken>(&doc), r),
        "json_server": verdict(conjure_serde::json::server_from_slice::<BearerToken>(doc.as_bytes()), r),
        "smile": verdict(conjure_serde::smile::server_from_slice::<BearerToken>(&smile), r),
        "any": verdict(Any::new(s).unwrap().deserialize_into::<BearerToken>(), r),
        "from_plain": verdict(BearerToken::from_plain(s), r),
        "auth_header": auth_path(s, false, r),
        "auth_cookie": auth_path(s, true, r),
        "debug_redacted": BearerToken::from_str(s).map(|t| !format!("{t:?}").contains(s) || s == "REDACTED" || "BearerToken(\"REDACTED\")".contains(s)).unwrap_or(true),
    });
    v["decoders"] = Value::Object(dec);
    v
}

fn rid_paths(s: &str) -> Value {
    let doc = serde_json::to_string(s).unwrap();
    let smile = conjure_serde::smile::to_vec(&s).unwrap();
    let r = |t: &ResourceIdentifier| {
        // the value's own components, on whatever path it was built: they must be accepted componentwise and give the value
        // back, and only the locator may contain a dot
        let again = ResourceIdentifier::from_components(t.service(), t.instance(), t.type_(), t.locator())
            .map(|x| x.into_string()).unwrap_or_else(|e| format!("own components rejected: {e}"));
        let shape = if t.service().contains('.') || t.instance().contains('.') || t.type_().contains('.') {
            format!("dotted component: {:?}", [t.service(), t.instance(), t.type_(), t.locator()])
        } else {
            t.as_str().to_string()
        };
        vec![t.as_str().to_string(), t.to_string(), t.to_plain(),
             serde_json::from_str::<String>(&conjure_serde::json::to_string(t).unwrap()).unwrap(), t.clone().into_string(), again, shape]
    };
    let comps = ResourceIdentifier::from_str(s).ok().map(|t| {
        json!([t.service().as_bytes(), t.instance().as_bytes(), t.type_().as_bytes(), t.locator().as_bytes()])
    });
    let mut dec = serde_json::Map::new();
    decoder_paths::<ResourceIdentifier>(s, r, &mut dec);
    let mut v = json!({
        "from_str": verdict(ResourceIdentifier::from_str(s), r),
        "new": verdict(ResourceIdentifier::new(s), r),
        "json_client": verdict(conjure_serde::json::client_from_str::<ResourceIdentifier>(&doc), r),
        "json_server": verdict(conjure_serde::json::server_from_slice::<ResourceIdentifier>(doc.as_bytes()), r),
        "smile": verdict(conjure_serde::smile::client_from_slice::<ResourceIdentifier>(&smile), r),
        "any": verdict(Any::new(s).unwrap().deserialize_into::<ResourceIdentifier>(), r),
        "from_plain": verdict(ResourceIdentifier::from_plain(s), r),
        "clone_from": verdict(ResourceIdentifier::from_str(s).map(|t| {
            let mut slot: ResourceIdentifier = "ri.some-service.an-instance.a-type.and.a.locator".parse().unwrap();
            slot.clone_from(&t);
            let mut list = vec![slot.clone(), "ri.x..y.z".parse().unwrap()];
            list.clone_from(&vec![t.clone(), t.clone()]);
            list.pop().unwrap()
        }), r),
        "components": comps,
    });
    v["decoders"] = Value::Object(dec);
    v
}

/// stdin: {"id", "mode": "token"|"rid"|"components", "s": bytes, "parts": [bytes x4]}
pub fn tokens(_args: &[String]) -> i32 {
    silence_panics();
    for case in read_cases() {
        let id = case["id"].clone();
        let mode = case["mode"].as_str().unwrap().to_string();
        let r = catch(|| match mode.as_str() {
            "token" => token_paths(&text(&case["s"])),
            "rid" => rid_paths(&text(&case["s"])),
            _ => {
                let p: Vec<String> = case["parts"].as_array().unwrap().iter().map(text).collect();
                let r = ResourceIdentifier::from_components(&p[0], &p[1], &p[2], &p[3]);
                json!({"from_components": match r {
                    Ok(t) => json!({"ok": true, "renders": [t.as_str()],
                        "components": [t.service().as_bytes(), t.instance().as_bytes(), t.type_().as_bytes(), t.locator().as_bytes()]}),
                    Err(_) => json!({"ok": false}),
                }})
            }
        });
        match r {
            Ok(v) => emit(&json!({"id": id, "paths": v})),
            Err(p) => emit(&json!({"id": id, "panic": p})),
        }
    }
    0
}
