//! A recording serde backend: serializing a value with `RecSer` yields the tree of serde calls the value made
//! ({"c": <method>, ...}).  Used to observe the exact variant tags of `Any` (C13) and, placed under the real
//! conjure-serde `Override` wrappers, the exact backend calls they make (C01).
use serde::ser::{self, Serialize};
use serde_json::{json, Value};
use std::fmt;

#[derive(Debug)]
pub struct RecError(pub String);
impl fmt::Display for RecError {
    fn fmt(&self, f: &mut fmt::Formatter) -> fmt::Result {
        f.write_str(&self.0)
    }
}
impl std::error::Error for RecError {}
impl ser::Error for RecError {
    fn custom<T: fmt::Display>(msg: T) -> Self {
        RecError(msg.to_string())
    }
}

#[derive(Clone, Copy)]
pub struct RecSer {
    pub human_readable: bool,
}

pub fn record<T: Serialize + ?Sized>(v: &T) -> Result<Value, RecError> {
    v.serialize(RecSer { human_readable: true })
}

pub struct Items {
    call: &'static str,
    name: Option<&'static str>,
    variant: Option<&'static str>,
    items: Vec<Value>,
    ser: RecSer,
}
pub struct Entries {
    entries: Vec<Value>,
    key: Option<Value>,
    ser: RecSer,
}
pub struct Fields {
    call: &'static str,
    name: &'static str,
    variant: Option<&'static str>,
    fields: Vec<Value>,
    ser: RecSer,
}

macro_rules! leaf {
    ($m:ident, $t:ty, $c:expr) => {
        fn $m(self, v: $t) -> Result<Value, RecError> {
            Ok(json!({"c": $c, "v": v.to_string()}))
        }
    };
}

impl ser::Serializer for RecSer {
    type Ok = Value;
    type Error = RecError;
    type SerializeSeq = Items;
    type SerializeTuple = Items;
    type SerializeTupleStruct = Items;
    type SerializeTupleVariant = Items;
    type SerializeMap = Entries;
    type SerializeStruct = Fields;
    type SerializeStructVariant = Fields;

    leaf!(serialize_i8, i8, "i8");
    leaf!(serialize_i16, i16, "i16");
    leaf!(serialize_i32, i32, "i32");
    leaf!(serialize_i64, i64, "i64");
    leaf!(serialize_i128, i128, "i128");
    leaf!(serialize_u8, u8, "u8");
    leaf!(serialize_u16, u16, "u16");
    leaf!(serialize_u32, u32, "u32");
    leaf!(serialize_u64, u64, "u64");
    leaf!(serialize_u128, u128, "u128");

    fn serialize_bool(self, v: bool) -> Result<Value, RecError> {
        Ok(json!({"c": "bool", "v": v}))
    }
    fn serialize_f32(self, v: f32) -> Result<Value, RecError> {
        Ok(json!({"c": "f32", "bits": format!("0x{:08x}", v.to_bits())}))
    }
    fn serialize_f64(self, v: f64) -> Result<Value, RecError> {
        Ok(json!({"c": "f64", "bits": format!("0x{:016x}", v.to_bits())}))
    }
    fn serialize_char(self, v: char) -> Result<Value, RecError> {
        Ok(json!({"c": "char", "v": v.to_string()}))
    }
    fn serialize_str(self, v: &str) -> Result<Value, RecError> {
        Ok(json!({"c": "str", "v": v}))
    }
    fn serialize_bytes(self, v: &[u8]) -> Result<Value, RecError> {
        Ok(json!({"c": "bytes", "v": v}))
    }
    fn serialize_none(self) -> Result<Value, RecError> {
        Ok(json!({"c": "none"}))
    }
    fn serialize_some<T: ?Sized + Serialize>(self, value: &T) -> Result<Value, RecError> {
        Ok(json!({"c": "some", "item": value.serialize(self)?}))
    }
    fn serialize_unit(self) -> Result<Value, RecError> {
        Ok(json!({"c": "unit"}))
    }
    fn serialize_unit_struct(self, name: &'static str) -> Result<Value, RecError> {
        Ok(json!({"c": "unit_struct", "name": name}))
    }
    fn serialize_unit_variant(self, name: &'static str, idx: u32, variant: &'static str) -> Result<Value, RecError> {
        Ok(json!({"c": "unit_variant", "name": name, "idx": idx, "variant": variant}))
    }
    fn serialize_newtype_struct<T: ?Sized + Serialize>(self, name: &'static str, value: &T) -> Result<Value, RecError> {
        Ok(json!({"c": "newtype_struct", "name": name, "item": value.serialize(self)?}))
    }
    fn serialize_newtype_variant<T: ?Sized + Serialize>(self, name: &'static str, idx: u32, variant: &'static str, value: &T) -> Result<Value, RecError> {
        Ok(json!({"c": "newtype_variant", "name": name, "idx": idx, "variant": variant, "item": value.serialize(self)?}))
    }
    fn serialize_seq(self, _len: Option<usize>) -> Result<Items, RecError> {
        Ok(Items { call: "seq", name: None, variant: None, items: vec![], ser: self })
    }
    fn serialize_tuple(self, _len: usize) -> Result<Items, RecError> {
        Ok(Items { call: "tuple", name: None, variant: None, items: vec![], ser: self })
    }
    fn serialize_tuple_struct(self, name: &'static str, _len: usize) -> Result<Items, RecError> {
        Ok(Items { call: "tuple_struct", name: Some(name), variant: None, items: vec![], ser: self })
    }
    fn serialize_tuple_variant(self, name: &'static str, _idx: u32, variant: &'static str, _len: usize) -> Result<Items, RecError> {
        Ok(Items { call: "tuple_variant", name: Some(name), variant: Some(variant), items: vec![], ser: self })
    }
    fn serialize_map(self, _len: Option<usize>) -> Result<Entries, RecError> {
        Ok(Entries { entries: vec![], key: None, ser: self })
    }
    fn serialize_struct(self, name: &'static str, _len: usize) -> Result<Fields, RecError> {
        Ok(Fields { call: "struct", name, variant: None, fields: vec![], ser: self })
    }
    fn serialize_struct_variant(self, name: &'static str, _idx: u32, variant: &'static str, _len: usize) -> Result<Fields, RecError> {
        Ok(Fields { call: "struct_variant", name, variant: Some(variant), fields: vec![], ser: self })
    }
    fn collect_str<T: ?Sized + fmt::Display>(self, value: &T) -> Result<Value, RecError> {
        Ok(json!({"c": "collect_str", "v": value.to_string()}))
    }
    fn is_human_readable(&self) -> bool {
        self.human_readable
    }
}

impl Items {
    fn push<T: ?Sized + Serialize>(&mut self, v: &T) -> Result<(), RecError> {
        self.items.push(v.serialize(self.ser)?);
        Ok(())
    }
    fn finish(self) -> Result<Value, RecError> {
        Ok(json!({"c": self.call, "name": self.name, "variant": self.variant, "items": self.items}))
    }
}
impl ser::SerializeSeq for Items {
    type Ok = Value;
    type Error = RecError;
    fn serialize_element<T: ?Sized + Serialize>(&mut self, v: &T) -> Result<(), RecError> {
        self.push(v)
    }
    fn end(self) -> Result<Value, RecError> {
        self.finish()
    }
}
impl ser::SerializeTuple for Items {
    type Ok = Value;
    type Error = RecError;
    fn serialize_element<T: ?Sized + Serialize>(&mut self, v: &T) -> Result<(), RecError> {
        self.push(v)
    }
    fn end(self) -> Result<Value, RecError> {
        self.finish()
    }
}
impl ser::SerializeTupleStruct for Items {
    type Ok = Value;
    type Error = RecError;
    fn serialize_field<T: ?Sized + Serialize>(&mut self, v: &T) -> Result<(), RecError> {
        self.push(v)
    }
    fn end(self) -> Result<Value, RecError> {
        self.finish()
    }
}
impl ser::SerializeTupleVariant for Items {
    type Ok = Value;
    type Error = RecError;
    fn serialize_field<T: ?Sized + Serialize>(&mut self, v: &T) -> Result<(), RecError> {
        self.push(v)
    }
    fn end(self) -> Result<Value, RecError> {
        self.finish()
    }
}
impl ser::SerializeMap for Entries {
    type Ok = Value;
    type Error = RecError;
    fn serialize_key<T: ?Sized + Serialize>(&mut self, k: &T) -> Result<(), RecError> {
        // like serde_json's and serde_smile's map key serializers, the key position is always human readable
        self.key = Some(k.serialize(RecSer { human_readable: true })?);
        Ok(())
    }
    fn serialize_value<T: ?Sized + Serialize>(&mut self, v: &T) -> Result<(), RecError> {
        let k = self.key.take().ok_or_else(|| RecError("value without key".into()))?;
        self.entries.push(json!([k, v.serialize(self.ser)?]));
        Ok(())
    }
    fn end(self) -> Result<Value, RecError> {
        Ok(json!({"c": "map", "entries": self.entries}))
    }
}
impl ser::SerializeStruct for Fields {
    type Ok = Value;
    type Error = RecError;
    fn serialize_field<T: ?Sized + Serialize>(&mut self, k: &'static str, v: &T) -> Result<(), RecError> {
        self.fields.push(json!([k, v.serialize(self.ser)?]));
        Ok(())
    }
    fn end(self) -> Result<Value, RecError> {
        Ok(json!({"c": self.call, "name": self.name, "variant": self.variant, "fields": self.fields}))
    }
}
impl ser::SerializeStructVariant for Fields {
    type Ok = Value;
    type Error = RecError;
    fn serialize_field<T: ?Sized + Serialize>(&mut self, k: &'static str, v: &T) -> Result<(), RecError> {
        self.fields.push(json!([k, v.serialize(self.ser)?]));
        Ok(())
    }
    fn end(self) -> Result<Value, RecError> {
        Ok(json!({"c": self.call, "name": self.name, "variant": self.variant, "fields": self.fields}))
    }
}
