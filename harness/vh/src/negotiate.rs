//! C11: drives the real ConjureRuntime content negotiation.
use crate::util::{catch, emit, read_cases, silence_panics};
use conjure_http::server::{
    ConjureRuntime, DeserializerState, Encoding, JsonEncoding, ResponseBody, SerializeResponse, SerializerState,
    StdResponseSerializer,
};
use http::header::{HeaderMap, HeaderValue, ACCEPT, CONTENT_TYPE};
use serde_json::{json, Value};

/// An encoding with an arbitrary media type (JSON on the wire); `id` travels as a media type parameter, which
/// negotiation ignores, so that the chosen registration can be identified.
struct TestEncoding {
    content_type: String,
}

impl Encoding for TestEncoding {
    fn content_type(&self) -> HeaderValue {
        HeaderValue::from_str(&self.content_type).unwrap()
    }
    fn serializer<'a>(&self, w: &'a mut Vec<u8>) -> Box<dyn SerializerState<'a> + 'a> {
        JsonEncoding.serializer(w)
    }
    fn deserializer<'a>(&self, buf: &'a [u8]) -> Box<dyn DeserializerState<'a> + 'a> {
        JsonEncoding.deserializer(buf)
    }
}

fn id_of(ct: &HeaderValue) -> i64 {
    let s = ct.to_str().unwrap_or("");
    s.rsplit("id=").next().and_then(|t| t.trim().parse().ok()).unwrap_or(-1)
}

fn runtime(encs: &[Value]) -> ConjureRuntime {
    let mut b = ConjureRuntime::builder();
    for e in encs {
        b = b.encoding(TestEncoding { content_type: e.as_str().unwrap().to_string() });
    }
    b.build()
}

pub fn negotiate(_args: &[String]) -> i32 {
    silence_panics();
    for case in read_cases() {
        let id = case["id"].clone();
        let encs = case["encs"].as_array().cloned().unwrap_or_default();
        let r = catch(|| {
            let rt = runtime(&encs);
            let mut headers = HeaderMap::new();
            if case["kind"] == "response" {
                for h in case["accept"].as_array().unwrap() {
                    headers.append(ACCEPT, HeaderValue::from_str(h.as_str().unwrap()).unwrap());
                }
                let direct = match rt.response_body_encoding(&headers) {
                    Ok(e) => json!({"chosen": id_of(&e.content_type())}),
                    Err(e) => json!({"chosen": 0, "code": format!("{:?}", err_code(&e)), "safe_msg": e.cause_safe()}),
                };
                // the same decision observed end to end through the response serializer
                let ser = match <StdResponseSerializer as SerializeResponse<_, Vec<u8>>>::serialize(&rt, &headers, 42i32) {
                    Ok(resp) => {
                        let ct = resp.headers().get(CONTENT_TYPE).cloned();
                        let body_ok = matches!(resp.body(), ResponseBody::Fixed(b) if &b[..] == b"42");
                        json!({"chosen": ct.as_ref().map(id_of).unwrap_or(-2), "body_ok": body_ok})
                    }
                    Err(e) => json!({"chosen": 0, "code": format!("{:?}", err_code(&e))}),
                };
                json!({"direct": direct, "ser": ser})
            } else {
                if let Some(ct) = case["ctype"].as_str() {
                    headers.insert(CONTENT_TYPE, HeaderValue::from_str(ct).unwrap());
                }
                let direct = match rt.request_body_encoding(&headers) {
                    Ok(e) => json!({"chosen": id_of(&e.content_type())}),
                    Err(e) => json!({"chosen": 0, "code": format!("{:?}", err_code(&e))}),
                };
                json!({"direct": direct})
            }
        });
        match r {
            Ok(v) => emit(&json!({"id": id, "obs": v})),
            Err(p) => emit(&json!({"id": id, "panic": p})),
        }
    }
    0
}

pub fn err_code(e: &conjure_error::Error) -> Option<conjure_error::ErrorCode> {
    match e.kind() {
        conjure_error::ErrorKind::Service(s) => Some(s.error_code().clone()),
        _ => None,
    }
}
