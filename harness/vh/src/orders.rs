//! C14: DoubleKey and the DoubleOps helpers, driven with exact bit patterns (NaN payloads, signed zeros).
use crate::util::{catch, emit, read_cases, silence_panics};
use conjure_object::private::DoubleOps;
use conjure_object::DoubleKey;
use serde_json::{json, Value};
use std::cmp::Ordering;
use std::collections::hash_map::DefaultHasher;
use std::collections::{BTreeMap, BTreeSet, HashSet};
use std::hash::{Hash, Hasher};

fn f(v: &Value) -> f64 {
    f64::from_bits(u64::from_str_radix(v.as_str().unwrap().trim_start_matches("0x"), 16).unwrap())
}

fn ord(o: Ordering) -> i32 {
    match o {
        Ordering::Less => -1,
        Ordering::Equal => 0,
        Ordering::Greater => 1,
    }
}

fn matrix<T>(vals: &[T], cmp: impl Fn(&T, &T) -> Ordering, eq: impl Fn(&T, &T) -> bool, hash: impl Fn(&T) -> u64) -> Value {
    let n = vals.len();
    let mut e = vec![vec![false; n]; n];
    let mut c = vec![vec![0; n]; n];
    for i in 0..n {
        for j in 0..n {
            e[i][j] = eq(&vals[i], &vals[j]);
            c[i][j] = ord(cmp(&vals[i], &vals[j]));
        }
    }
    let h: Vec<String> = vals.iter().map(|v| format!("{:016x}", hash(v))).collect();
    json!({"eq": e, "cmp": c, "hash": h})
}

fn dh<T: DoubleOps>(v: &T) -> u64 {
    let mut s = DefaultHasher::new();
    v.hash(&mut s);
    s.finish()
}

fn one(case: &Value) -> Value {
    let vals = case["values"].as_array().unwrap();
    match case["kind"].as_str().unwrap() {
        "doublekey" => {
            let v: Vec<DoubleKey> = vals.iter().map(|x| DoubleKey(f(x))).collect();
            let mut m = matrix(&v, |a, b| a.cmp(b), |a, b| a == b, |a| {
                let mut s = DefaultHasher::new();
                Hash::hash(a, &mut s);
                s.finish()
            });
            let pc: Vec<Vec<i32>> = v.iter().map(|a| v.iter().map(|b| a.partial_cmp(b).map(ord).unwrap_or(99)).collect()).collect();
            let bs: BTreeSet<DoubleKey> = v.iter().cloned().collect();
            let hs: HashSet<DoubleKey> = v.iter().cloned().collect();
            m["pcmp"] = json!(pc);
            m["in_btreeset"] = json!(v.iter().map(|x| bs.contains(x)).collect::<Vec<_>>());
            m["in_hashset"] = json!(v.iter().map(|x| hs.contains(x)).collect::<Vec<_>>());
            m["btree_len"] = json!(bs.len());
            m["hash_len"] = json!(hs.len());
            m
        }
        "f64" => {
            let v: Vec<f64> = vals.iter().map(f).collect();
            matrix(&v, DoubleOps::cmp, DoubleOps::eq, dh)
        }
        "opt" => {
            let v: Vec<Option<f64>> = vals.iter().map(|x| if x.is_null() { None } else { Some(f(x)) }).collect();
            matrix(&v, DoubleOps::cmp, DoubleOps::eq, dh)
        }
        "vec" => {
            let v: Vec<Vec<f64>> = vals.iter().map(|x| x.as_array().unwrap().iter().map(f).collect()).collect();
            matrix(&v, DoubleOps::cmp, DoubleOps::eq, dh)
        }
        "vecopt" => {
            let v: Vec<Vec<Option<f64>>> = vals.iter().map(|x| x.as_array().unwrap().iter().map(|y| if y.is_null() { None } else { Some(f(y)) }).collect()).collect();
            matrix(&v, DoubleOps::cmp, DoubleOps::eq, dh)
        }
        "map" => {
            let v: Vec<BTreeMap<String, f64>> = vals.iter().map(|x| x.as_array().unwrap().iter().map(|e| (e[0].as_str().unwrap().to_string(), f(&e[1]))).collect()).collect();
            matrix(&v, DoubleOps::cmp, DoubleOps::eq, dh)
        }
        other => json!({"skip": format!("unknown kind {other}")}),
    }
}

pub fn orders(_args: &[String]) -> i32 {
    silence_panics();
    for case in read_cases() {
        let id = case["id"].clone();
        match catch(|| one(&case)) {
            Ok(mut v) => {
                v["id"] = id;
                emit(&v);
            }
            Err(p) => emit(&json!({"id": id, "panic": p})),
        }
    }
    0
}
