//! C07: drives the real UriBuilder and the real server-side path/query decoding.
use crate::util::{catch, emit, read_cases, silence_panics};
use conjure_http::private::{parse_query_params, path_param, query_param, UriBuilder};
use conjure_http::server::conjure::{FromPlainDecoder, FromPlainOptionDecoder, FromPlainSeqDecoder};
use conjure_http::server::ConjureRuntime;
use conjure_http::PathParams;
use serde_json::{json, Value};
use std::collections::BTreeSet;

fn bytes_of(v: &Value) -> Vec<u8> {
    v.as_array().map(|a| a.iter().map(|b| b.as_u64().unwrap() as u8).collect()).unwrap_or_default()
}

fn text_of(v: &Value) -> String {
    // values are valid UTF-8 by construction; "long:<n>" is a compact spelling of n times 'a'
    if let Some(s) = v.as_str() {
        if let Some(n) = s.strip_prefix("long:") {
            return "a".repeat(n.parse().unwrap());
        }
        return s.to_string();
    }
    String::from_utf8(bytes_of(v)).expect("case values are valid UTF-8")
}

fn err_str(e: conjure_error::Error) -> Value {
    json!({"err": format!("{:?}", crate::negotiate::err_code(&e)), "safe_params": format!("{:?}", e.safe_params())})
}

/// stdin: {"id":.., "ops":[{"k":..,"key":bytes|str,"vals":[bytes|str..]}..]}
pub fn uri(_args: &[String]) -> i32 {
    silence_panics();
    let runtime = ConjureRuntime::new();
    for case in read_cases() {
        let id = case["id"].clone();
        let ops = case["ops"].as_array().cloned().unwrap_or_default();
        let built = catch(|| {
            let mut b = UriBuilder::new();
            for op in &ops {
                let key = text_of(&op["key"]);
                let vals: Vec<String> = op["vals"].as_array().map(|a| a.iter().map(text_of).collect()).unwrap_or_default();
                match op["k"].as_str().unwrap() {
                    "lit" => b.push_literal(&key),
                    "path" => b.push_path_parameter(&vals[0]),
                    "path_raw" => b.push_path_parameter_raw(&vals[0]),
                    "q1" => b.push_query_parameter(&key, &vals[0]),
                    "q1_raw" => b.push_query_parameter_raw(&key, &vals[0]),
                    "qopt" => b.push_optional_query_parameter(&key, &vals.first().cloned()),
                    "qlist" => b.push_list_query_parameter(&key, &vals),
                    "qset" => b.push_set_query_parameter(&key, &vals.iter().cloned().collect::<BTreeSet<String>>()),
                    other => panic!("harness: unknown op {other}"),
                }
            }
            b.build()
        });
        let uri = match built {
            Ok(u) => u,
            Err(p) => {
                emit(&json!({"id": id, "panic": p}));
                continue;
            }
        };
        let uri_text = uri.to_string();
        let path = uri.path().to_string();
        let query = uri.query().map(|q| q.to_string());
        // loopback routing: the framework splits the raw path on '/' and hands the raw segments over
        let segs: Vec<String> = path.split('/').skip(1).map(|s| s.to_string()).collect();
        let mut expected = vec![]; // (is_literal, text)
        for op in &ops {
            match op["k"].as_str().unwrap() {
                "lit" => {
                    for s in text_of(&op["key"]).split('/').skip(1) {
                        expected.push((true, s.to_string()));
                    }
                }
                "path" | "path_raw" => expected.push((false, String::new())),
                _ => {}
            }
        }
        let routed = segs.len() == expected.len()
            && expected.iter().zip(&segs).all(|((lit, text), seg)| !*lit || text == seg);
        let mut path_vals = vec![];
        let mut request = http::Request::new(());
        *request.uri_mut() = uri.clone();
        if routed {
            let mut pp = PathParams::new();
            let mut n = 0;
            for ((lit, _), seg) in expected.iter().zip(&segs) {
                if !*lit {
                    n += 1;
                    pp.insert(format!("p{n}"), seg.clone());
                }
            }
            request.extensions_mut().insert(pp);
        }
        let (parts, _) = request.into_parts();
        if routed {
            let nparams = expected.iter().filter(|(l, _)| !*l).count();
            for n in 1..=nparams {
                let name = format!("p{n}");
                let r = catch(|| path_param::<String, FromPlainDecoder>(&runtime, &parts, &name, &name));
                path_vals.push(match r {
                    Ok(Ok(v)) => json!({"ok": v.as_bytes()}),
                    Ok(Err(e)) => err_str(e),
                    Err(p) => json!({"panic": p}),
                });
            }
        }
        let qp = parse_query_params(&parts);
        let mut query_vals = vec![];
        for op in &ops {
            let kind = op["k"].as_str().unwrap();
            if matches!(kind, "lit" | "path" | "path_raw") {
                continue;
            }
            let key = text_of(&op["key"]);
            let to_json = |r: Result<Vec<String>, conjure_error::Error>| match r {
                Ok(v) => json!({"ok": v.iter().map(|s| s.as_bytes().to_vec()).collect::<Vec<_>>()}),
                Err(e) => err_str(e),
            };
            let v = match kind {
                "q1" | "q1_raw" => to_json(query_param::<String, FromPlainDecoder>(&runtime, &qp, &key, &key).map(|v| vec![v])),
                "qopt" => to_json(
                    query_param::<Option<String>, FromPlainOptionDecoder>(&runtime, &qp, &key, &key)
                        .map(|v| v.into_iter().collect()),
                ),
                "qlist" => to_json(query_param::<Vec<String>, FromPlainSeqDecoder<String>>(&runtime, &qp, &key, &key)),
                _ => to_json(
                    query_param::<BTreeSet<String>, FromPlainSeqDecoder<String>>(&runtime, &qp, &key, &key)
                        .map(|v| v.into_iter().collect()),
                ),
            };
            query_vals.push(json!({"key": key, "kind": kind, "val": v}));
        }
        let nkeys: usize = qp.values().map(|v| v.len()).sum();
        let long = uri_text.len() > 2000;
        emit(&json!({
            "id": id,
            "uri": if long { Value::Null } else { json!(uri_text.as_bytes()) },
            "uri_len": uri_text.len(),
            "path_len": path.len(),
            "query": if long { Value::Null } else { json!(query) },
            "has_query": query.is_some(),
            "nsegs": segs.len(),
            "routed": routed,
            "path_vals": path_vals,
            "query_vals": query_vals,
            "npairs_decoded": nkeys,
        }));
    }
    0
}
