//! C17: conjure_error::encode and Error::service* driven with dynamically defined error types.
use crate::dynval::{intern, val_from_json, DynVal};
use crate::util::{catch, emit, read_cases, silence_panics};
use conjure_error::{Error, ErrorCode, ErrorKind, ErrorType, SerializableError};
use conjure_object::Uuid;
use serde::{Serialize, Serializer};
use serde_json::{json, Value};
use std::collections::HashMap;
use std::sync::Mutex;

struct DynError {
    code: ErrorCode,
    name: String,
    instance: Option<Uuid>,
    safe_args: &'static [&'static str],
    fields: DynVal,
}

impl Serialize for DynError {
    fn serialize<S: Serializer>(&self, s: S) -> Result<S::Ok, S::Error> {
        self.fields.serialize(s)
    }
}

impl ErrorType for DynError {
    fn code(&self) -> ErrorCode {
        self.code.clone()
    }
    fn name(&self) -> &str {
        &self.name
    }
    fn instance_id(&self) -> Option<Uuid> {
        self.instance
    }
    fn safe_args(&self) -> &'static [&'static str] {
        self.safe_args
    }
}

fn intern_slice(names: Vec<&'static str>) -> &'static [&'static str] {
    static POOL: Mutex<Option<HashMap<Vec<&'static str>, &'static [&'static str]>>> = Mutex::new(None);
    let mut g = POOL.lock().unwrap();
    let m = g.get_or_insert_with(HashMap::new);
    if let Some(v) = m.get(&names) {
        return v;
    }
    let leaked: &'static [&'static str] = Box::leak(names.clone().into_boxed_slice());
    m.insert(names, leaked);
    leaked
}

fn code_of(s: &str) -> ErrorCode {
    match s {
        "PERMISSION_DENIED" => ErrorCode::PermissionDenied,
        "INVALID_ARGUMENT" => ErrorCode::InvalidArgument,
        "NOT_FOUND" => ErrorCode::NotFound,
        "CONFLICT" => ErrorCode::Conflict,
        "REQUEST_ENTITY_TOO_LARGE" => ErrorCode::RequestEntityTooLarge,
        "FAILED_PRECONDITION" => ErrorCode::FailedPrecondition,
        "INTERNAL" => ErrorCode::Internal,
        "TIMEOUT" => ErrorCode::Timeout,
        "CUSTOM_CLIENT" => ErrorCode::CustomClient,
        _ => ErrorCode::CustomServer,
    }
}

fn params(p: conjure_error::Params<'_>) -> Value {
    let mut m = serde_json::Map::new();
    for (k, v) in p.iter() {
        m.insert(k.to_string(), json!(conjure_serde::json::to_string(v).unwrap_or_else(|e| format!("ERR {e}"))));
    }
    Value::Object(m)
}

fn ser_err(e: &SerializableError) -> Value {
    json!({"code": conjure_serde::json::to_string(e.error_code()).unwrap().trim_matches('"'), "name": e.error_name(),
           "instance": e.error_instance_id().to_string(), "parameters": e.parameters()})
}

fn one(case: &Value) -> Result<Value, String> {
    let mut fields = vec![];
    let mut safe = vec![];
    for p in case["params"].as_array().ok_or("params")? {
        let name = intern(p[0].as_str().ok_or("name")?);
        if p[1].as_bool().unwrap_or(false) {
            safe.push(name);
        }
        fields.push((name, val_from_json(&p[2])?));
    }
    safe.sort();
    let mk = || DynError {
        code: code_of(case["code"].as_str().unwrap_or("INTERNAL")),
        name: case["name"].as_str().unwrap_or("Verif:Err").to_string(),
        instance: case["instance"].as_str().map(|s| s.parse().unwrap()),
        safe_args: intern_slice(safe.clone()),
        fields: DynVal::Struct(fields.clone()),
    };
    let by_ref = case["by_ref"].as_bool().unwrap_or(false);
    // the instance id supplied through the library's own wrapper (ErrorType::with_instance_id) instead of the type itself
    let wrap = case["wrap_id"].as_bool().unwrap_or(false) && !case["instance"].is_null();
    if wrap {
        let id: Uuid = case["instance"].as_str().unwrap().parse().unwrap();
        let bare = || DynError { instance: None, ..mk() };
        return finish_one(case, conjure_error::encode(&bare().with_instance_id(id)), conjure_error::encode(&bare().with_instance_id(id)),
            |mode| match mode {
                "service" => Error::service("cause", bare().with_instance_id(id)),
                "service_safe" => Error::service_safe("cause", bare().with_instance_id(id)),
                "propagated" => Error::propagated_service("cause", conjure_error::encode(&bare().with_instance_id(id))),
                _ => Error::propagated_service_safe("cause", conjure_error::encode(&bare().with_instance_id(id))),
            });
    }
    let encoded = if by_ref { conjure_error::encode(&&mk()) } else { conjure_error::encode(&mk()) };
    let encoded2 = conjure_error::encode(&mk());
    finish_one(case, encoded, encoded2, |mode| match mode {
        "service" if by_ref => Error::service("cause", &mk()),
        "service_safe" if by_ref => Error::service_safe("cause", &mk()),
        "service" => Error::service("cause", mk()),
        "service_safe" => Error::service_safe("cause", mk()),
        "propagated" => Error::propagated_service("cause", conjure_error::encode(&mk())),
        _ => Error::propagated_service_safe("cause", conjure_error::encode(&mk())),
    })
}

fn finish_one(case: &Value, encoded: SerializableError, encoded2: SerializableError, build: impl Fn(&str) -> Error) -> Result<Value, String> {
    // JSON round trip of the serializable form
    let text = conjure_serde::json::to_string(&encoded).map_err(|e| e.to_string())?;
    let back = conjure_serde::json::client_from_str::<SerializableError>(&text).map_err(|e| e.to_string())?;
    let text2 = conjure_serde::json::to_string(&back).map_err(|e| e.to_string())?;
    let smile = conjure_serde::smile::to_vec(&encoded).map_err(|e| e.to_string())?;
    let back_smile = conjure_serde::smile::server_from_slice::<SerializableError>(&smile).map_err(|e| e.to_string())?;
    let mode = case["mode"].as_str().unwrap_or("service");
    let err = build(mode);
    let (kind_code, status) = match err.kind() {
        ErrorKind::Service(s) => (ser_err(s), s.error_code().status_code()),
        _ => (Value::Null, 0),
    };
    Ok(json!({
        "encoded": ser_err(&encoded),
        "fresh_ids_differ": encoded.error_instance_id() != encoded2.error_instance_id(),
        "json": text, "json_roundtrip": text == text2 && back == encoded, "smile_roundtrip": back_smile == encoded,
        "safe_params": params(err.safe_params()), "unsafe_params": params(err.unsafe_params()),
        "kind": kind_code, "status": status, "cause_safe": err.cause_safe(),
    }))
}

pub fn errors(_args: &[String]) -> i32 {
    silence_panics();
    for case in read_cases() {
        let id = case["id"].clone();
        match catch(|| one(&case)) {
            Ok(Ok(mut v)) => {
                v["id"] = id;
                emit(&v);
            }
            Ok(Err(e)) => emit(&json!({"id": id, "skip": e})),
            Err(p) => emit(&json!({"id": id, "panic": p})),
        }
    }
    0
}

// ---------------------------------------------------------------------------------------------------------------
// X05 (spec/ErrorObject.tla): one Error object threaded through a history of builder calls; the projection of its
// state is reported after the constructor and after every call.

fn project(e: &Error, customs: &[String]) -> Value {
    let (kind, wire, duration) = match e.kind() {
        ErrorKind::Service(s) => ("service", json!({"code": conjure_serde::json::to_string(s.error_code()).unwrap().trim_matches('"'),
                                                     "name": s.error_name(), "parameters": s.parameters()}), Value::Null),
        ErrorKind::Throttle(t) => (if t.duration().is_some() { "throttle_for" } else { "throttle" }, Value::Null,
                                   json!(t.duration().map(|d| d.as_millis() as u64))),
        ErrorKind::Unavailable(_) => ("unavailable", Value::Null, Value::Null),
        _ => ("other", Value::Null, Value::Null),
    };
    let bts: Vec<String> = e.backtraces().iter().map(|b| {
        let text = format!("{b:?}");
        if customs.contains(&text) { text } else { "captured".to_string() }
    }).collect();
    json!({"kind": kind, "wire": wire, "duration_ms": duration, "cause_safe": e.cause_safe(), "cause": e.cause().to_string(),
           "safe": params(e.safe_params()), "unsafe": params(e.unsafe_params()),
           "safe_len": e.safe_params().len(), "unsafe_len": e.unsafe_params().len(),
           "safe_empty": e.safe_params().is_empty(), "unsafe_empty": e.unsafe_params().is_empty(), "bts": bts})
}

fn errobj_one(case: &Value) -> Result<Value, String> {
    let mut fields = vec![];
    let mut safe = vec![];
    let decl_val = case["decl_val"].as_str().unwrap_or("v1");
    for p in case["decl"].as_array().ok_or("decl")? {
        let name = intern(p["k"].as_str().ok_or("k")?);
        match p["d"].as_str().unwrap_or("absent") {
            "safe" => {
                safe.push(name);
                fields.push((name, val_from_json(&json!({"k": "str", "v": decl_val}))?));
            }
            "unsafe" => fields.push((name, val_from_json(&json!({"k": "str", "v": decl_val}))?)),
            _ => {}
        }
    }
    safe.sort();
    let mk = || DynError {
        code: ErrorCode::Conflict,
        name: "Verif:Obj".to_string(),
        instance: None,
        safe_args: intern_slice(safe.clone()),
        fields: DynVal::Struct(fields.clone()),
    };
    let d = std::time::Duration::from_millis(1500);
    let mut e = match case["ctor"].as_str().unwrap_or("") {
        "service" => Error::service("cause", mk()),
        "service_safe" => Error::service_safe("cause", mk()),
        "propagated" => Error::propagated_service("cause", conjure_error::encode(&mk())),
        "propagated_safe" => Error::propagated_service_safe("cause", conjure_error::encode(&mk())),
        "throttle" => Error::throttle("cause"),
        "throttle_safe" => Error::throttle_safe("cause"),
        "throttle_for" => Error::throttle_for("cause", d),
        "throttle_for_safe" => Error::throttle_for_safe("cause", d),
        "unavailable" => Error::unavailable("cause"),
        "unavailable_safe" => Error::unavailable_safe("cause"),
        "internal" => Error::internal("cause"),
        "internal_safe" => Error::internal_safe("cause"),
        other => return Err(format!("unknown constructor {other}")),
    };
    let customs: Vec<String> = case["customs"].as_array().map(|a| a.iter().filter_map(|v| v.as_str().map(String::from)).collect()).unwrap_or_default();
    let mut states = vec![project(&e, &customs)];
    for c in case["hist"].as_array().ok_or("hist")? {
        let k = intern(c["k"].as_str().unwrap_or("-"));
        let v = c["v"].as_str().unwrap_or("-").to_string();
        e = match c["op"].as_str().unwrap_or("") {
            "safe" => e.with_safe_param(k, v),
            "unsafe" => e.with_unsafe_param(k, v),
            "bt" => e.with_backtrace(),
            "custom" => e.with_custom_safe_backtrace(v),
            other => return Err(format!("unknown call {other}")),
        };
        states.push(project(&e, &customs));
    }
    Ok(json!({"states": states}))
}

pub fn errobj(_args: &[String]) -> i32 {
    silence_panics();
    for case in read_cases() {
        let id = case["id"].clone();
        match catch(|| errobj_one(&case)) {
            Ok(Ok(mut v)) => {
                v["id"] = id;
                emit(&v);
            }
            Ok(Err(e)) => emit(&json!({"id": id, "skip": e})),
            Err(p) => emit(&json!({"id": id, "panic": p})),
        }
    }
    0
}
