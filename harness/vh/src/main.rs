//! Conformance harness binding the TLA+ specifications in /verif/spec to the real conjure-rust crates.
//! Every subcommand reads NDJSON cases (emitted by TLC or by the seeded drivers in /verif/lib) on stdin
//! and prints one NDJSON verdict/observation per case on stdout.  Panics of the code under test are data.
mod anyval;
mod body;
mod codegen;
mod dynval;
mod errors;
mod gentree;
mod negotiate;
mod orders;
mod plain;
mod recser;
mod safelong;
mod serdewrap;
mod tokens;
mod uri;
mod util;

fn main() {
    let args: Vec<String> = std::env::args().collect();
    let cmd = args.get(1).map(|s| s.as_str()).unwrap_or("");
    let rest = &args[2.min(args.len())..];
    let code = match cmd {
        "codegen-safe" => codegen::codegen_safe(rest),
        "negotiate" => negotiate::negotiate(rest),
        "uri" => uri::uri(rest),
        "plain" => plain::plain(rest),
        "errors" => errors::errors(rest),
        "errobj" => errors::errobj(rest),
        "orders" => orders::orders(rest),
        "serde" => serdewrap::serdewrap(rest),
        "any" => anyval::anyval(rest),
        "tokens" => tokens::tokens(rest),
        "safelong" => safelong::safelong(rest),
        "body" => body::body(rest),
        "gen-tree" => gentree::gen_tree(rest),
        "gen-seq" => gentree::gen_seq(rest),
        _ => {
            eprintln!("unknown subcommand {cmd:?}");
            2
        }
    };
    std::process::exit(code);
}
