//! C06 / C18: request-body and response-body framing against the real code.
//!
//! Each case names an abstract history (chunk lengths in units, -1 = stream error), a content class, a Content-Type
//! class, a size-limit relation and a flavour; the harness concretises it into real JSON / Smile bytes cut at byte
//! level, runs the real deserializers (directly and through a `#[conjure_endpoints]` endpoint, which counts handler
//! invocations) and reports the observable verdict plus the read_body hook events.
use crate::util::{catch, emit, read_cases, silence_panics, Rng};
use bytes::Bytes;
use conjure_error::{Error, ErrorKind};
use conjure_http::private as p;
use conjure_http::server::conjure::OptionalRequestDeserializer;
use conjure_http::server::{
    AsyncDeserializeRequest, AsyncEndpoint, AsyncService, ConjureRuntime, DeserializeRequest, Endpoint,
    EndpointMetadata, Service, StdRequestDeserializer,
};
use conjure_http::{conjure_endpoints, endpoint};
use futures::executor::block_on;
use futures::Stream;
use http::header::{HeaderValue, CONTENT_TYPE};
use http::{Extensions, HeaderMap, Request, Response, StatusCode};
use serde::{Deserialize, Serialize};
use serde_json::{json, Value};
use std::collections::BTreeMap;
use std::pin::Pin;
use std::sync::atomic::{AtomicUsize, Ordering};
use std::sync::Arc;
use std::task::{Context, Poll};

pub const LIMIT: usize = 48;
const FAULT: &str = "verif-stream-fault";

#[derive(Serialize, Deserialize, Debug, PartialEq, Clone)]
pub struct Req {
    a: Num,
    s: String,
    /// an optional binary (Base64 text in JSON); never present in well-formed documents of this harness
    #[serde(default, skip_serializing_if = "Option::is_none")]
    b: Option<serde_bytes::ByteBuf>,
}

/// A number whose text form ("7") is valid in human-readable encodings only - the way conjure's uuid (text in JSON, 16
/// bytes in Smile) branches on `Deserializer::is_human_readable`.  A Smile document that spells it as text is of the
/// wrong type for a server.
#[derive(Debug, PartialEq, Clone)]
pub struct Num(i32);

impl Serialize for Num {
    fn serialize<S: serde::Serializer>(&self, s: S) -> Result<S::Ok, S::Error> {
        s.serialize_i32(self.0)
    }
}

impl<'de> Deserialize<'de> for Num {
    fn deserialize<D: serde::Deserializer<'de>>(d: D) -> Result<Num, D::Error> {
        struct V(bool);
        impl<'de> serde::de::Visitor<'de> for V {
            type Value = Num;
            fn expecting(&self, f: &mut std::fmt::Formatter) -> std::fmt::Result {
                f.write_str("a number")
            }
            fn visit_i64<E: serde::de::Error>(self, v: i64) -> Result<Num, E> {
                i32::try_from(v).map(Num).map_err(|_| E::custom("out of range"))
            }
            fn visit_u64<E: serde::de::Error>(self, v: u64) -> Result<Num, E> {
                i32::try_from(v).map(Num).map_err(|_| E::custom("out of range"))
            }
            fn visit_str<E: serde::de::Error>(self, v: &str) -> Result<Num, E> {
                if !self.0 {
                    return Err(E::custom("text form in a binary encoding"));
                }
                v.parse().map(Num).map_err(|_| E::custom("not a number"))
            }
        }
        let hr = d.is_human_readable();
        d.deserialize_any(V(hr))
    }
}

#[derive(Serialize)]
struct ReqExtra {
    a: i32,
    s: String,
    zz: i32,
}

#[derive(Serialize)]
struct ReqWrong {
    a: String,
    s: String,
}

/// A body: scripted chunks, usable as blocking iterator and as async stream (optionally Pending once per item).
pub struct Script {
    items: std::vec::IntoIter<Option<Vec<u8>>>,
    pending_first: bool,
    armed: bool,
}

impl Script {
    fn new(items: Vec<Option<Vec<u8>>>, pending_first: bool) -> Script {
        Script { items: items.into_iter(), pending_first, armed: pending_first }
    }
    fn item(&mut self) -> Option<Result<Bytes, Error>> {
        self.items.next().map(|i| match i {
            Some(b) => Ok(Bytes::from(b)),
            None => Err(Error::internal_safe(FAULT)),
        })
    }
}

impl Iterator for Script {
    type Item = Result<Bytes, Error>;
    fn next(&mut self) -> Option<Self::Item> {
        self.item()
    }
}

impl Stream for Script {
    type Item = Result<Bytes, Error>;
    fn poll_next(mut self: Pin<&mut Self>, cx: &mut Context<'_>) -> Poll<Option<Self::Item>> {
        if self.pending_first && self.armed {
            self.armed = false;
            cx.waker().wake_by_ref();
            return Poll::Pending;
        }
        self.armed = true;
        Poll::Ready(self.item())
    }
}

fn is_fault(e: &Error) -> bool {
    format!("{:?}", e.cause()).contains(FAULT) || e.cause().to_string().contains(FAULT)
}

fn classify_err(e: &Error) -> Value {
    if is_fault(e) {
        return json!({"verdict": "reject", "why": "stream"});
    }
    match e.kind() {
        ErrorKind::Service(s) => json!({"verdict": "reject", "why": format!("{:?}", s.error_code())}),
        _ => json!({"verdict": "reject", "why": "non-service-error"}),
    }
}

// ---------------------------------------------------------------------------------------------------------------
// concrete documents

fn encode<T: Serialize>(enc: &str, v: &T) -> Vec<u8> {
    if enc == "smile" {
        conjure_serde::smile::to_vec(v).unwrap()
    } else {
        conjure_serde::json::to_vec(v).unwrap()
    }
}

/// Body bytes of class `cls`; when `target` is given the length is exactly `target`.
fn make_body(enc: &str, cls: &str, target: Option<usize>, rng: &mut Rng) -> Result<(Vec<u8>, Option<Req>), String> {
    if cls == "empty" {
        return Ok((vec![], None));
    }
    let lens: Vec<usize> = match target {
        Some(_) => (0..120).collect(),
        None => vec![rng.below(40) as usize],
    };
    for n in lens {
        let s: String = (0..n).map(|i| (b'a' + ((i as u64 + rng.0 % 26) % 26) as u8) as char).collect();
        let req = Req { a: Num(7), s: s.clone(), b: None };
        let doc = encode(enc, &req);
        let mut body = match cls {
            "doc" => doc.clone(),
            "docws" => {
                if enc == "smile" {
                    doc.clone()
                } else {
                    let mut b = vec![b' ', b'\n'];
                    b.extend_from_slice(&doc);
                    b.extend_from_slice(b"\t \r\n");
                    b
                }
            }
            "trailing" => {
                let mut b = doc.clone();
                // text, structure, and bytes that are not UTF-8 (alone, after white space, a cut multi-byte sequence)
                let tails: [&[u8]; 9] = [b" 1", b"}", b"x", b" {}", b"]", b"\xff", b" \xfe\xff", b"\xe2\x82", b"\n\xc3"];
                if enc == "smile" {
                    b.extend_from_slice([&b"zz"[..], &b"\xfe"[..], &b"\x00"[..]][(rng.0 % 3) as usize]);
                } else {
                    b.extend_from_slice(tails[(rng.0 % 9) as usize]);
                }
                b
            }
            "truncated" => {
                let cut = if enc == "smile" { 2 } else { 1 + (rng.0 % 3) as usize };
                doc[..doc.len() - cut.min(doc.len() - 1)].to_vec()
            }
            "malformed" => {
                if enc == "smile" {
                    let mut b = b"zzzz".to_vec();
                    b.extend_from_slice(s.as_bytes());
                    b
                } else {
                    let mut b = doc.clone();
                    b.insert(6, b','); // {"a":7,,"s":...
                    b
                }
            }
            "unknown" => encode(enc, &ReqExtra { a: 7, s: s.clone(), zz: 1 }),
            // JSON, free length: a binary field holding text that is not Base64 - long, with multi-byte characters around byte 64
            "wrongtype" if enc == "json" && target.is_none() && rng.0 % 3 == 0 => {
                let junk = [format!("{}\u{e9}AAAA", "A".repeat(63)), "\u{e9}".repeat(70), format!("{}\u{2603}!", "AQID".repeat(16))][(rng.0 / 3 % 3) as usize].clone();
                format!("{{\"a\":7,\"s\":\"{s}\",\"b\":\"{junk}\"}}").into_bytes()
            }
            // Smile: alternately the text form of the number, which only human-readable encodings admit
            "wrongtype" => encode(enc, &ReqWrong { a: if enc == "smile" && rng.0 % 2 == 0 { "7" } else { "q" }.into(), s: s.clone() }),
            "otherenc" => encode(if enc == "smile" { "json" } else { "smile" }, &req),
            other => return Err(format!("unknown class {other}")),
        };
        if let Some(t) = target {
            if body.len() != t {
                continue;
            }
        }
        let _ = &mut body;
        let value = if matches!(cls, "doc" | "docws" | "trailing" | "unknown") { Some(req) } else { None };
        return Ok((body, value));
    }
    Err(format!("cannot build a {cls} body of {target:?} bytes in {enc}"))
}

/// Cuts `body` into the chunks prescribed by the abstract history (proportional or random cut points, byte level).
fn cut(body: &[u8], h: &[i64], rng: &mut Rng, random: bool) -> Result<Vec<Option<Vec<u8>>>, String> {
    let data: Vec<i64> = h.iter().cloned().filter(|n| *n >= 0).collect();
    let total: i64 = data.iter().sum();
    let nonzero = data.iter().filter(|n| **n > 0).count();
    if (total == 0) != body.is_empty() || nonzero > body.len() {
        return Err(format!("history {h:?} inconsistent with a body of {} bytes", body.len()));
    }
    // cut points for the non-empty chunks
    let mut points: Vec<usize> = vec![];
    if nonzero > 1 {
        if random {
            let mut set = std::collections::BTreeSet::new();
            while set.len() < nonzero - 1 {
                set.insert(1 + rng.below(body.len() as u64 - 1) as usize);
            }
            points = set.into_iter().collect();
        } else {
            let mut acc = 0i64;
            let mut last = 0usize;
            let nz: Vec<i64> = data.iter().cloned().filter(|n| *n > 0).collect();
            for (i, n) in nz.iter().enumerate() {
                if i + 1 == nz.len() {
                    break;
                }
                acc += n;
                let mut pnt = (body.len() as i64 * acc / total) as usize;
                let remaining = nz.len() - 1 - i;
                pnt = pnt.max(last + 1).min(body.len() - remaining);
                points.push(pnt);
                last = pnt;
            }
        }
    }
    let mut out = vec![];
    let mut start = 0usize;
    let mut k = 0usize;
    for n in h {
        if *n < 0 {
            out.push(None);
        } else if *n == 0 {
            out.push(Some(vec![]));
        } else {
            let end = if k < points.len() { points[k] } else { body.len() };
            out.push(Some(body[start..end].to_vec()));
            start = end;
            k += 1;
        }
    }
    Ok(out)
}

fn ctype_value(ct: &str, enc: &str, rng: &mut Rng) -> Option<String> {
    let base = if enc == "smile" { "application/x-jackson-smile" } else { "application/json" };
    match ct {
        "exact" | "json" => Some(base.to_string()),
        "params" | "jsonparams" => Some(format!("{base}{}", ["; charset=utf-8", ";charset=UTF-8", "; v=1"][(rng.0 % 3) as usize])),
        "other" => Some(["text/plain", "application/xml", "application/jsonx", "application/cbor"][(rng.0 % 4) as usize].to_string()),
        "near" => {
            let sub = if enc == "smile" { "x-jackson-smile" } else { "json" };
            let v = [format!("application/{sub}+xml"), format!("application/{sub}+json"), format!("text/{sub}"), format!("application/{sub}-seq"),
                     format!("application/vnd.api+{sub}"), format!("application/{sub}+xml; charset=utf-8")];
            Some(v[(rng.0 % 6) as usize].clone())
        }
        "octet" => Some("application/octet-stream".to_string()),
        "wildcard" => Some(["*/*", "application/*"][(rng.0 % 2) as usize].to_string()),
        "garbage" => Some(["garbage", "", "/", "application/", "application/js\u{f6}n", " "][(rng.0 % 6) as usize].to_string()),
        _ => None,
    }
}

// ---------------------------------------------------------------------------------------------------------------
// endpoint level (handler invocation count)

#[conjure_endpoints]
pub trait BodyService {
    #[endpoint(method = POST, path = "/limited")]
    fn limited(&self, #[body(deserializer = StdRequestDeserializer<LIMIT>)] body: Req) -> Result<(), Error>;

    #[endpoint(method = POST, path = "/unlimited")]
    fn unlimited(&self, #[body] body: Req) -> Result<(), Error>;

    #[endpoint(method = POST, path = "/optional")]
    fn optional(&self, #[body(deserializer = OptionalRequestDeserializer)] body: Option<Req>) -> Result<(), Error>;
}

#[conjure_endpoints]
pub trait AsyncBodyService {
    #[endpoint(method = POST, path = "/limited")]
    async fn limited(&self, #[body(deserializer = StdRequestDeserializer<LIMIT>)] body: Req) -> Result<(), Error>;

    #[endpoint(method = POST, path = "/unlimited")]
    async fn unlimited(&self, #[body] body: Req) -> Result<(), Error>;

    #[endpoint(method = POST, path = "/optional")]
    async fn optional(&self, #[body(deserializer = OptionalRequestDeserializer)] body: Option<Req>) -> Result<(), Error>;
}

#[derive(Clone, Default)]
struct Handler {
    calls: Arc<AtomicUsize>,
    got: Arc<std::sync::Mutex<Option<Option<Req>>>>,
}

impl Handler {
    fn record(&self, v: Option<Req>) {
        self.calls.fetch_add(1, Ordering::SeqCst);
        *self.got.lock().unwrap() = Some(v);
    }
}

impl BodyService for Handler {
    fn limited(&self, body: Req) -> Result<(), Error> {
        self.record(Some(body));
        Ok(())
    }
    fn unlimited(&self, body: Req) -> Result<(), Error> {
        self.record(Some(body));
        Ok(())
    }
    fn optional(&self, body: Option<Req>) -> Result<(), Error> {
        self.record(body);
        Ok(())
    }
}

impl AsyncBodyService for Handler {
    async fn limited(&self, body: Req) -> Result<(), Error> {
        self.record(Some(body));
        Ok(())
    }
    async fn unlimited(&self, body: Req) -> Result<(), Error> {
        self.record(Some(body));
        Ok(())
    }
    async fn optional(&self, body: Option<Req>) -> Result<(), Error> {
        self.record(body);
        Ok(())
    }
}

fn events() -> Vec<Value> {
    p::verif_take_body_events().into_iter().map(|(s, _c, b)| json!([s, b])).collect()
}

fn server_case(case: &Value) -> Result<Value, String> {
    let seed = case["seed"].as_u64().unwrap_or(1);
    let mut rng = Rng::new(seed);
    let enc = case["enc"].as_str().unwrap_or("json");
    let par = &case["par"];
    let kind = par["kind"].as_str().unwrap();
    let cls = par["cls"].as_str().unwrap();
    let ct = par["ct"].as_str().unwrap();
    let flavour = case["flavour"].as_str().unwrap_or("blocking");
    let h: Vec<i64> = case["h"].as_array().unwrap().iter().map(|v| v.as_i64().unwrap()).collect();
    let total: i64 = h.iter().filter(|n| **n >= 0).sum();
    let limit = par["limit"].as_i64().unwrap();
    // limit relative to the body length: the endpoint limit is the constant LIMIT, so the body is sized around it
    let (target, limited) = if limit < 0 {
        (None, false)
    } else if limit < total {
        (Some(LIMIT + 1), true)
    } else if limit == total {
        (Some(LIMIT), true)
    } else {
        (Some(LIMIT - 1), true)
    };
    let (body, value) = make_body(enc, cls, if cls == "empty" { None } else { target }, &mut rng)?;
    let chunks = cut(&body, &h, &mut rng, case["random_cut"].as_bool().unwrap_or(false))?;
    let mut headers = HeaderMap::new();
    if let Some(v) = ctype_value(ct, enc, &mut rng) {
        headers.insert(CONTENT_TYPE, HeaderValue::from_bytes(v.as_bytes()).map_err(|e| e.to_string())?);
    }
    let runtime = Arc::new(ConjureRuntime::new());
    let pending = flavour == "async-pending";
    let hbytes: Vec<i64> = chunks.iter().map(|c| c.as_ref().map(|b| b.len() as i64).unwrap_or(-1)).collect();

    // (a) the deserializer itself
    let _ = p::verif_take_body_events();
    let script = Script::new(chunks.clone(), pending);
    let direct: Result<Result<Option<Req>, Error>, String> = catch(|| match (kind, limited, flavour) {
        ("optional", _, "blocking") => <OptionalRequestDeserializer as DeserializeRequest<Option<Req>, _>>::deserialize(&runtime, &headers, script),
        ("optional", _, _) => block_on(<OptionalRequestDeserializer as AsyncDeserializeRequest<Option<Req>, _>>::deserialize(&runtime, &headers, script)),
        (_, true, "blocking") => <StdRequestDeserializer<LIMIT> as DeserializeRequest<Req, _>>::deserialize(&runtime, &headers, script).map(Some),
        (_, true, _) => block_on(<StdRequestDeserializer<LIMIT> as AsyncDeserializeRequest<Req, _>>::deserialize(&runtime, &headers, script)).map(Some),
        (_, false, "blocking") => <StdRequestDeserializer as DeserializeRequest<Req, _>>::deserialize(&runtime, &headers, script).map(Some),
        (_, false, _) => block_on(<StdRequestDeserializer as AsyncDeserializeRequest<Req, _>>::deserialize(&runtime, &headers, script)).map(Some),
    });
    let ev = events();
    let direct_json = match &direct {
        Err(pn) => json!({"verdict": "panic", "why": pn}),
        Ok(Ok(None)) => json!({"verdict": "absent", "why": "ok"}),
        Ok(Ok(Some(v))) => json!({"verdict": "accept", "why": "ok", "value_ok": Some(v) == value.as_ref()}),
        Ok(Err(e)) => classify_err(e),
    };

    // (b) through a #[conjure_endpoints] endpoint: is the handler invoked, and with what
    let name = match (kind, limited) {
        ("optional", _) => "optional",
        (_, true) => "limited",
        _ => "unlimited",
    };
    let handler = Handler::default();
    let mut request = Request::new(Script::new(chunks, pending));
    *request.uri_mut() = format!("/{name}").parse().unwrap();
    *request.headers_mut() = headers.clone();
    request.extensions_mut().insert(conjure_http::PathParams::new());
    let mut ext = Extensions::new();
    let h2 = handler.clone();
    let rt2 = runtime.clone();
    let endpoint_result = catch(move || {
        if flavour == "blocking" {
            let eps: Vec<Box<dyn Endpoint<Script, Vec<u8>> + Sync + Send>> = Service::endpoints(&BodyServiceEndpoints::new(h2), &rt2);
            let ep = eps.into_iter().find(|e| e.name() == name).unwrap();
            ep.handle(request, &mut ext).map(|r| r.status())
        } else {
            let eps = AsyncService::<Script, Vec<u8>>::endpoints(&AsyncBodyServiceEndpoints::new(h2), &rt2);
            let ep = eps.into_iter().find(|e| e.name() == name).unwrap();
            block_on(ep.handle(request, &mut ext)).map(|r| r.status())
        }
    });
    let _ = p::verif_take_body_events();
    let calls = handler.calls.load(Ordering::SeqCst);
    let got = handler.got.lock().unwrap().clone();
    let endpoint_json = match &endpoint_result {
        Err(pn) => json!({"verdict": "panic", "why": pn, "calls": calls}),
        Ok(Ok(status)) => json!({
            "verdict": if got == Some(None) { "absent" } else { "accept" }, "why": "ok", "calls": calls,
            "status": status.as_u16(),
            "value_ok": got.as_ref().map(|g| g.as_ref() == value.as_ref() || (g.is_none() && kind == "optional")),
        }),
        Ok(Err(e)) => {
            let mut j = classify_err(e);
            j["calls"] = json!(calls);
            j["param"] = json!(e.safe_params().iter().find(|(k, _)| *k == "param").map(|(_, v)| format!("{v:?}")));
            j
        }
    };
    Ok(json!({"direct": direct_json, "endpoint": endpoint_json, "ev": ev, "body_len": body.len(),
              "hbytes": hbytes, "enc": enc, "limit_bytes": if limited { LIMIT as i64 } else { -1 }}))
}

// ---------------------------------------------------------------------------------------------------------------
// client side

fn client_case(case: &Value) -> Result<Value, String> {
    let seed = case["seed"].as_u64().unwrap_or(1);
    let mut rng = Rng::new(seed);
    let par = &case["par"];
    let ret = par["ret"].as_str().unwrap();
    let cls = par["cls"].as_str().unwrap();
    let ct = par["ct"].as_str().unwrap();
    let status = par["status"].as_u64().unwrap() as u16;
    let flavour = case["flavour"].as_str().unwrap_or("blocking");
    let h: Vec<i64> = case["h"].as_array().unwrap().iter().map(|v| v.as_i64().unwrap()).collect();
    // "default" return class: a map (collection); the documents are the same Req shape viewed as a map for it
    let (body, value) = if ret == "default" && cls != "empty" {
        // collection return type: BTreeMap<String, i32>; documents built from the Req-shaped ones would be wrongly
        // typed, so build map-shaped ones
        let (b, _) = make_map_body(cls, &mut rng)?;
        (b, None)
    } else {
        make_body("json", cls, None, &mut rng)?
    };
    let chunks = cut(&body, &h, &mut rng, case["random_cut"].as_bool().unwrap_or(false))?;
    let pending = flavour == "async-pending";
    let hbytes: Vec<i64> = chunks.iter().map(|c| c.as_ref().map(|b| b.len() as i64).unwrap_or(-1)).collect();
    let mk = |chunks: Vec<Option<Vec<u8>>>| {
        let mut r = Response::new(Script::new(chunks, pending));
        *r.status_mut() = StatusCode::from_u16(status).unwrap();
        if let Some(v) = ctype_value(ct, "json", &mut Rng::new(seed)) {
            r.headers_mut().insert(CONTENT_TYPE, HeaderValue::from_bytes(v.as_bytes()).unwrap());
        }
        r
    };
    let _ = p::verif_take_body_events();
    let blocking = flavour == "blocking";
    let out: Result<Value, String> = catch(|| {
        let resp = mk(chunks.clone());
        let to_v = |r: Result<Value, Error>| match r {
            Ok(v) => v,
            Err(e) => json!({"verdict": "error", "stream": is_fault(&e)}),
        };
        match ret {
            "unit" => to_v(if blocking { p::decode_empty_response(resp) } else { block_on(p::async_decode_empty_response(resp)) }
                .map(|()| json!({"verdict": if status == 204 { "empty" } else { "value" }}))),
            "value" => to_v(if blocking { p::decode_serializable_response::<Req, _>(resp) } else { block_on(p::async_decode_serializable_response::<Req, _>(resp)) }
                .map(|v| json!({"verdict": "value", "value_ok": Some(&v) == value.as_ref()}))),
            "default" => to_v(if blocking { p::decode_default_serializable_response::<BTreeMap<String, i32>, _>(resp) }
                else { block_on(p::async_decode_default_serializable_response::<BTreeMap<String, i32>, _>(resp)) }
                .map(|v| json!({"verdict": if status == 204 { "empty" } else { "value" }, "value_ok": if status == 204 { v.is_empty() } else { v.get("a") == Some(&7) }}))),
            "binary" => to_v(p::decode_binary_response(resp).map(|_| json!({"verdict": "stream-handle"}))),
            "optbinary" => to_v(p::decode_optional_binary_response(resp)
                .map(|o| json!({"verdict": if o.is_some() { "stream-handle" } else { "empty" }}))),
            other => panic!("harness: unknown ret {other}"),
        }
    });
    let ev = events();
    Ok(match out {
        Ok(v) => json!({"client": v, "ev": ev, "body_len": body.len(), "hbytes": hbytes}),
        Err(pn) => json!({"client": {"verdict": "panic", "why": pn}, "ev": ev, "body_len": body.len(), "hbytes": hbytes}),
    })
}

fn make_map_body(cls: &str, rng: &mut Rng) -> Result<(Vec<u8>, ()), String> {
    let n = rng.below(12) as usize;
    let key: String = (0..n).map(|i| (b'b' + (i as u8 % 20)) as char).collect();
    let doc = format!("{{\"a\":7,\"k{key}\":1}}").into_bytes();
    let b = match cls {
        "doc" | "unknown" => doc,
        "docws" => [b" \n".to_vec(), doc, b"\t ".to_vec()].concat(),
        "trailing" => [doc, b" 1".to_vec()].concat(),
        "truncated" => doc[..doc.len() - 1].to_vec(),
        "malformed" => {
            let mut b = doc;
            b.insert(6, b',');
            b
        }
        "wrongtype" => format!("{{\"a\":\"q\",\"k{key}\":1}}").into_bytes(),
        other => return Err(format!("unknown class {other}")),
    };
    Ok((b, ()))
}

pub fn body(_args: &[String]) -> i32 {
    silence_panics();
    for case in read_cases() {
        let id = case["id"].clone();
        let r = if case["side"] == "client" { client_case(&case) } else { server_case(&case) };
        match r {
            Ok(mut v) => {
                v["id"] = id;
                emit(&v);
            }
            Err(e) => emit(&json!({"id": id, "skip": e})),
        }
    }
    0
}
