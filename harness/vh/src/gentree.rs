//! C20: ONE generation through the library entry point per process (`vh gen-tree <ir> <out> <config-json>`), so that
//! every run has its own hash seeds.  The configuration is the record spec/Generate.tla computes (LibConfig).
use serde_json::Value;

pub fn gen_tree(args: &[String]) -> i32 {
    if args.len() != 3 {
        eprintln!("usage: gen-tree <ir.json> <out-dir> <config-json>");
        return 2;
    }
    let cfg: Value = match serde_json::from_str(&args[2]) {
        Ok(v) => v,
        Err(e) => {
            eprintln!("bad config: {e}");
            return 2;
        }
    };
    let mut config = conjure_codegen::Config::new();
    config.exhaustive(cfg["exhaustive"].as_bool().unwrap_or(false));
    config.serialize_empty_collections(cfg["serialize_empty_collections"].as_bool().unwrap_or(false));
    if let Some(p) = cfg["strip_prefix"].as_str() {
        config.strip_prefix(p.to_string());
    }
    if let (Some(n), Some(v)) = (cfg["crate_name"].as_str(), cfg["crate_version"].as_str()) {
        config.build_crate(n, v);
    }
    if let Some(v) = cfg["version"].as_str() {
        config.version(v.to_string());
    }
    match config.generate_files(&args[0], &args[1]) {
        Ok(()) => 0,
        Err(e) => {
            eprintln!("{e:?}");
            1
        }
    }
}
