//! C20: ONE generation through the library entry point per process (`vh gen-tree <ir> <out> <config-json>`), so that
//! every run has its own hash seeds.  The configuration is the record spec/Generate.tla computes (LibConfig).
use serde_json::Value;

pub fn gen_tree(args: &[String]) -> i32 {
    if args.len() != 3 {
        eprintln!("usage: gen-tree <ir.json> <out-dir> <config-json>");
        return 2;
    }
    let cfg: Value = match serde_json::from_str(&args[2]) {
        Ok(v) => v,
        Err(e) => {
            eprintln!("bad config: {e}");
            return 2;
        }
    };
    let mut config = conjure_codegen::Config::new();
    apply(&mut config, &cfg);
    match config.generate_files(&args[0], &args[1]) {
        Ok(()) => 0,
        Err(e) => {
            eprintln!("{e:?}");
            1
        }
    }
}

fn apply(config: &mut conjure_codegen::Config, cfg: &Value) {
    config.exhaustive(cfg["exhaustive"].as_bool().unwrap_or(false));
    config.serialize_empty_collections(cfg["serialize_empty_collections"].as_bool().unwrap_or(false));
    if let Some(p) = cfg["strip_prefix"].as_str() {
        config.strip_prefix(p.to_string());
    }
    if let (Some(n), Some(v)) = (cfg["crate_name"].as_str(), cfg["crate_version"].as_str()) {
        config.build_crate(n, v);
    }
    if let Some(v) = cfg["version"].as_str() {
        config.version(v.to_string());
    }
}

/// C20 (histories): SEVERAL generations in one process and on one thread (`vh gen-seq <steps.json>`); a step with
/// `same_config` applies its setters to the Config object of the previous step instead of a fresh one.  Prints one
/// JSON line per step.
pub fn gen_seq(args: &[String]) -> i32 {
    let steps: Vec<Value> = match args.first().and_then(|p| std::fs::read_to_string(p).ok()).and_then(|t| serde_json::from_str(&t).ok()) {
        Some(v) => v,
        None => {
            eprintln!("usage: gen-seq <steps.json>");
            return 2;
        }
    };
    let mut config = conjure_codegen::Config::new();
    for (k, st) in steps.iter().enumerate() {
        if !st["same_config"].as_bool().unwrap_or(false) {
            config = conjure_codegen::Config::new();
        }
        apply(&mut config, &st["config"]);
        let r = config.generate_files(st["ir"].as_str().unwrap_or(""), st["out"].as_str().unwrap_or(""));
        println!("{}", serde_json::json!({"step": k, "ok": r.is_ok(), "error": r.err().map(|e| format!("{e:?}"))}));
    }
    0
}
