//! C12: ToPlain / FromPlain of every runtime PLAIN type, driven with exact values.
use crate::util::{catch, emit, read_cases, silence_panics};
use conjure_object::{BearerToken, DateTime, FromPlain, ResourceIdentifier, SafeLong, ToPlain, Utc, Uuid};
use serde_json::{json, Value};

fn rt<T: FromPlain + ToPlain + PartialEq>(v: T, eq: impl Fn(&T, &T) -> bool) -> Value
where
    T::Err: std::fmt::Display,
{
    let text = v.to_plain();
    // history: texts every PLAIN type refuses (after consuming part of them) are parsed first on the same thread
    for junk in ["aGVsbG8gd29ybGQ*", "AQID!", "12x", "2017-01-02T03:04:0", "ri.a.b", "\u{e9}", "=", "1e", "tru"] {
        let _ = T::from_plain(junk);
        let _ = bytes::Bytes::from_plain(junk);
    }
    match T::from_plain(&text) {
        Ok(w) => json!({"text": text, "back": true, "equal": eq(&w, &v), "reprint_same": w.to_plain() == text}),
        Err(e) => json!({"text": text, "back": false, "err": e.to_string()}),
    }
}

fn one(c: &Value) -> Result<Value, String> {
    let v = &c["v"];
    Ok(match c["ty"].as_str().ok_or("ty")? {
        "string" => rt(v.as_str().ok_or("str")?.to_string(), |a, b| a == b),
        "integer" => rt(v.as_str().ok_or("int")?.parse::<i32>().map_err(|e| e.to_string())?, |a, b| a == b),
        "safelong" => {
            let n = v.as_str().ok_or("long")?.parse::<i64>().map_err(|e| e.to_string())?;
            // the extremes are taken from the type's own constants so that a value exists even if a checked
            // constructor is wrong (that would be C15's business); everything else goes through `new`
            let x = if n == (1 << 53) - 1 {
                SafeLong::max_value()
            } else if n == -(1 << 53) + 1 {
                SafeLong::min_value()
            } else {
                SafeLong::new(n).map_err(|e| e.to_string())?
            };
            rt(x, |a, b| a == b)
        }
        "double" => {
            let x = f64::from_bits(u64::from_str_radix(v.as_str().ok_or("bits")?.trim_start_matches("0x"), 16).map_err(|e| e.to_string())?);
            rt(x, |a, b| (a.is_nan() && b.is_nan()) || a.to_bits() == b.to_bits())
        }
        "boolean" => rt(v.as_bool().ok_or("bool")?, |a, b| a == b),
        "uuid" => rt(v.as_str().ok_or("uuid")?.parse::<Uuid>().map_err(|e| e.to_string())?, |a, b| a == b),
        "rid" => rt(v.as_str().ok_or("rid")?.parse::<ResourceIdentifier>().map_err(|e| e.to_string())?, |a, b| a == b),
        "bearertoken" => rt(v.as_str().ok_or("tok")?.parse::<BearerToken>().map_err(|e| e.to_string())?, |a, b| a == b),
        "binary" => {
            let b: Vec<u8> = v.as_array().ok_or("bytes")?.iter().map(|x| x.as_u64().unwrap() as u8).collect();
            rt(bytes::Bytes::from(b), |a, b| a == b)
        }
        "datetime" => {
            let secs = v["secs"].as_i64().ok_or("secs")?;
            let nanos = v["nanos"].as_u64().ok_or("nanos")? as u32;
            let dt: DateTime<Utc> = DateTime::from_timestamp(secs, nanos).ok_or("timestamp out of range")?;
            rt(dt, |a, b| a == b)
        }
        other => return Err(format!("unknown type {other}")),
    })
}

pub fn plain(_args: &[String]) -> i32 {
    silence_panics();
    for case in read_cases() {
        let id = case["id"].clone();
        match catch(|| one(&case)) {
            Ok(Ok(mut v)) => {
                v["id"] = id;
                emit(&v);
            }
            Ok(Err(e)) => emit(&json!({"id": id, "skip": e})),
            Err(p) => emit(&json!({"id": id, "panic": p})),
        }
    }
    0
}
