//! A hand-written twin of part of the generated Matrix service, defined with `#[conjure_client]` / `#[conjure_endpoints]`
//! (conjure-macros) on the same routes, so that generated and macro-derived clients and endpoints can be paired.
use crate::rpc::{Handler, Loop};
use conjure_error::Error;
use conjure_http::client::{AsyncService as _, ConjureResponseDeserializer, DisplaySeqEncoder, Service as _};
use conjure_http::server::conjure::{FromPlainDecoder, FromPlainOptionDecoder, FromPlainSeqDecoder};
use conjure_http::server::{FromStrOptionDecoder, FromStrSeqDecoder, StdRequestDeserializer, StdResponseSerializer};
use conjure_http::{conjure_client, conjure_endpoints, endpoint};
use conjure_object::{BearerToken, Uuid};
use crate::rpc::block_on;
use serde_json::{json, Value};

/// A parameter type whose parse error echoes the offending input (as user-defined FromStr types commonly do).
#[derive(Debug, Clone, PartialEq)]
pub struct Echo(pub String);

#[derive(Debug)]
pub struct EchoError(String);
impl std::fmt::Display for EchoError {
    fn fmt(&self, f: &mut std::fmt::Formatter<'_>) -> std::fmt::Result {
        write!(f, "cannot parse {:?} as Echo", self.0)
    }
}
impl std::error::Error for EchoError {}
impl std::str::FromStr for Echo {
    type Err = EchoError;
    fn from_str(s: &str) -> Result<Echo, EchoError> {
        if s.starts_with("ok:") { Ok(Echo(s.to_string())) } else { Err(EchoError(s.to_string())) }
    }
}
impl std::fmt::Display for Echo {
    fn fmt(&self, f: &mut std::fmt::Formatter<'_>) -> std::fmt::Result {
        f.write_str(&self.0)
    }
}
impl serde::Serialize for Echo {
    fn serialize<S: serde::Serializer>(&self, s: S) -> Result<S::Ok, S::Error> {
        s.serialize_str(&self.0)
    }
}
impl conjure_object::FromPlain for Echo {
    type Err = EchoError;
    fn from_plain(s: &str) -> Result<Echo, EchoError> {
        s.parse()
    }
}

#[conjure_client]
pub trait MacroApi {
    #[endpoint(method = GET, path = "/m/echo/{pe}", accept = ConjureResponseDeserializer)]
    fn echo(
        &self,
        #[path(name = "pe")] pe: &Echo,
        #[query(name = "qe")] qe: &Echo,
        #[query(name = "qo", encoder = DisplaySeqEncoder)] qo: Option<&Echo>,
        #[query(name = "ql", encoder = DisplaySeqEncoder)] ql: &[Echo],
        #[header(name = "X-He")] he: &Echo,
        #[header(name = "X-Ho", encoder = DisplaySeqEncoder)] ho: Option<&Echo>,
        #[query(name = "pq")] pq: &Echo,
        #[query(name = "po", encoder = DisplaySeqEncoder)] po: Option<&Echo>,
        #[query(name = "pl", encoder = DisplaySeqEncoder)] pl: &[Echo],
        #[header(name = "X-Ph")] ph: &Echo,
        #[header(name = "X-Pho", encoder = DisplaySeqEncoder)] pho: Option<&Echo>,
    ) -> Result<String, Error>;

    #[endpoint(method = GET, path = "/m/headers", accept = ConjureResponseDeserializer)]
    fn headers(
        &self,
        #[header(name = "X-Str")] hs: &str,
        #[header(name = "X-Opt", encoder = DisplaySeqEncoder)] ho: Option<i32>,
        #[header(name = "X-Uuid")] hu: Uuid,
        #[header(name = "X-Alias")] ha: &str,
        #[header(name = "X-Enum", encoder = DisplaySeqEncoder)] he: Option<&str>,
        #[header(name = "X-Dbl")] hd: f64,
    ) -> Result<String, Error>;

    #[endpoint(method = GET, path = "/m/query", accept = ConjureResponseDeserializer)]
    fn query_params(
        &self,
        #[query(name = "qs")] qs: &str,
        #[query(name = "q-opt", encoder = DisplaySeqEncoder)] qo: Option<i32>,
        #[query(name = "ql", encoder = DisplaySeqEncoder)] ql: &[f64],
        #[query(name = "qb", encoder = DisplaySeqEncoder)] qb: &[bool],
    ) -> Result<String, Error>;

    #[endpoint(method = GET, path = "/m/auth", accept = ConjureResponseDeserializer)]
    fn auth_header(&self, #[auth] auth: &BearerToken, #[query(name = "q")] q: &str) -> Result<String, Error>;

    #[endpoint(method = GET, path = "/m/cookie", accept = ConjureResponseDeserializer)]
    fn auth_cookie(&self, #[auth(cookie_name = "sid")] auth: &BearerToken) -> Result<String, Error>;

    #[endpoint(method = POST, path = "/m/unit")]
    fn unit(&self, #[body] body: &str) -> Result<(), Error>;

    #[endpoint(method = GET, path = "/m/names/{type}/{fooBar}", accept = ConjureResponseDeserializer)]
    fn names(
        &self,
        #[path(name = "type")] type_: i32,
        #[path(name = "fooBar")] foo_bar: Uuid,
        #[query(name = "async")] async_: i32,
        #[query(name = "camel-case", encoder = DisplaySeqEncoder)] camel_case: Option<i32>,
        #[header(name = "X-Self")] self_: i32,
        #[query(name = "snake_arg", encoder = DisplaySeqEncoder)] snake_arg: &[i32],
        #[header(name = "X-Match", encoder = DisplaySeqEncoder)] match_: Option<bool>,
    ) -> Result<String, Error>;

    /// attribute forms: path parameters without `name`, `log_as` naming a different template parameter
    #[endpoint(method = GET, path = "/m/attrs/{a}/{b}/{c}", accept = ConjureResponseDeserializer)]
    fn attrs(
        &self,
        // declared in another order than the template names them (arguments are matched by name, not by position)
        #[path(name = "c")] c: i32,
        #[query(name = "q1")] q: &Echo,
        #[path] b: &Echo,
        #[header(name = "X-H1")] h: &Echo,
        #[path] a: &Echo,
        #[query(name = "ls", encoder = DisplaySeqEncoder)] ls: &[String],
    ) -> Result<String, Error>;

    /// an optional return value through the macro's response deserializer
    #[endpoint(method = GET, path = "/m/optret", accept = ConjureResponseDeserializer)]
    fn opt_ret(&self) -> Result<Option<String>, Error>;

    /// a list-valued path parameter (server side: regex segment, one element per raw segment)
    #[endpoint(method = GET, path = "/m/ids/{ids}", accept = ConjureResponseDeserializer)]
    fn ids_path(&self, #[path] ids: i32) -> Result<String, Error>;
}

#[conjure_client]
pub trait AsyncMacroApi {
    #[endpoint(method = GET, path = "/m/echo/{pe}", accept = ConjureResponseDeserializer)]
    async fn echo(
        &self,
        #[path(name = "pe")] pe: &Echo,
        #[query(name = "qe")] qe: &Echo,
        #[query(name = "qo", encoder = DisplaySeqEncoder)] qo: Option<&Echo>,
        #[query(name = "ql", encoder = DisplaySeqEncoder)] ql: &[Echo],
        #[header(name = "X-He")] he: &Echo,
        #[header(name = "X-Ho", encoder = DisplaySeqEncoder)] ho: Option<&Echo>,
        #[query(name = "pq")] pq: &Echo,
        #[query(name = "po", encoder = DisplaySeqEncoder)] po: Option<&Echo>,
        #[query(name = "pl", encoder = DisplaySeqEncoder)] pl: &[Echo],
        #[header(name = "X-Ph")] ph: &Echo,
        #[header(name = "X-Pho", encoder = DisplaySeqEncoder)] pho: Option<&Echo>,
    ) -> Result<String, Error>;

    #[endpoint(method = GET, path = "/m/headers", accept = ConjureResponseDeserializer)]
    async fn headers(
        &self,
        #[header(name = "X-Str")] hs: &str,
        #[header(name = "X-Opt", encoder = DisplaySeqEncoder)] ho: Option<i32>,
        #[header(name = "X-Uuid")] hu: Uuid,
        #[header(name = "X-Alias")] ha: &str,
        #[header(name = "X-Enum", encoder = DisplaySeqEncoder)] he: Option<&str>,
        #[header(name = "X-Dbl")] hd: f64,
    ) -> Result<String, Error>;

    #[endpoint(method = GET, path = "/m/query", accept = ConjureResponseDeserializer)]
    async fn query_params(
        &self,
        #[query(name = "qs")] qs: &str,
        #[query(name = "q-opt", encoder = DisplaySeqEncoder)] qo: Option<i32>,
        #[query(name = "ql", encoder = DisplaySeqEncoder)] ql: &[f64],
        #[query(name = "qb", encoder = DisplaySeqEncoder)] qb: &[bool],
    ) -> Result<String, Error>;

    #[endpoint(method = GET, path = "/m/auth", accept = ConjureResponseDeserializer)]
    async fn auth_header(&self, #[auth] auth: &BearerToken, #[query(name = "q")] q: &str) -> Result<String, Error>;

    #[endpoint(method = GET, path = "/m/cookie", accept = ConjureResponseDeserializer)]
    async fn auth_cookie(&self, #[auth(cookie_name = "sid")] auth: &BearerToken) -> Result<String, Error>;

    #[endpoint(method = POST, path = "/m/unit")]
    async fn unit(&self, #[body] body: &str) -> Result<(), Error>;

    #[endpoint(method = GET, path = "/m/names/{type}/{fooBar}", accept = ConjureResponseDeserializer)]
    async fn names(
        &self,
        #[path(name = "type")] type_: i32,
        #[path(name = "fooBar")] foo_bar: Uuid,
        #[query(name = "async")] async_: i32,
        #[query(name = "camel-case", encoder = DisplaySeqEncoder)] camel_case: Option<i32>,
        #[header(name = "X-Self")] self_: i32,
        #[query(name = "snake_arg", encoder = DisplaySeqEncoder)] snake_arg: &[i32],
        #[header(name = "X-Match", encoder = DisplaySeqEncoder)] match_: Option<bool>,
    ) -> Result<String, Error>;

    /// attribute forms: path parameters without `name`, `log_as` naming a different template parameter
    #[endpoint(method = GET, path = "/m/attrs/{a}/{b}/{c}", accept = ConjureResponseDeserializer)]
    async fn attrs(
        &self,
        // declared in another order than the template names them (arguments are matched by name, not by position)
        #[path(name = "c")] c: i32,
        #[query(name = "q1")] q: &Echo,
        #[path] b: &Echo,
        #[header(name = "X-H1")] h: &Echo,
        #[path] a: &Echo,
        #[query(name = "ls", encoder = DisplaySeqEncoder)] ls: &[String],
    ) -> Result<String, Error>;

    /// an optional return value through the macro's response deserializer
    #[endpoint(method = GET, path = "/m/optret", accept = ConjureResponseDeserializer)]
    async fn opt_ret(&self) -> Result<Option<String>, Error>;

    /// a list-valued path parameter (server side: regex segment, one element per raw segment)
    #[endpoint(method = GET, path = "/m/ids/{ids}", accept = ConjureResponseDeserializer)]
    async fn ids_path(&self, #[path] ids: i32) -> Result<String, Error>;
}

macro_rules! macro_endpoints {
    ($name:ident, $($asyncness:tt)?) => {
        #[conjure_endpoints]
        pub trait $name {
            #[endpoint(method = GET, path = "/m/echo/{pe}", produces = StdResponseSerializer)]
            $($asyncness)? fn echo(
                &self,
                #[path(name = "pe")] pe: Echo,
                #[query(name = "qe")] qe: Echo,
                #[query(name = "qo", decoder = FromStrOptionDecoder)] qo: Option<Echo>,
                #[query(name = "ql", decoder = FromStrSeqDecoder<_>)] ql: Vec<Echo>,
                #[header(name = "X-He")] he: Echo,
                #[header(name = "X-Ho", decoder = FromStrOptionDecoder)] ho: Option<Echo>,
                #[query(name = "pq", decoder = FromPlainDecoder)] pq: Echo,
                #[query(name = "po", decoder = FromPlainOptionDecoder)] po: Option<Echo>,
                #[query(name = "pl", decoder = FromPlainSeqDecoder<_>)] pl: Vec<Echo>,
                #[header(name = "X-Ph", decoder = FromPlainDecoder)] ph: Echo,
                #[header(name = "X-Pho", decoder = FromPlainOptionDecoder)] pho: Option<Echo>,
            ) -> Result<String, Error>;

            #[endpoint(method = GET, path = "/m/headers", produces = StdResponseSerializer)]
            $($asyncness)? fn headers(
                &self,
                #[header(name = "X-Str")] hs: String,
                #[header(name = "X-Opt", decoder = FromStrOptionDecoder)] ho: Option<i32>,
                #[header(name = "X-Uuid", log_as = "hu")] hu_renamed: Uuid,
                #[header(name = "X-Alias")] ha: String,
                #[header(name = "X-Enum", decoder = FromStrOptionDecoder, safe)] he: Option<String>,
                #[header(name = "X-Dbl", decoder = FromPlainDecoder)] hd: f64,
            ) -> Result<String, Error>;

            #[endpoint(method = GET, path = "/m/query", produces = StdResponseSerializer)]
            $($asyncness)? fn query_params(
                &self,
                #[query(name = "qs", decoder = FromPlainDecoder)] qs: String,
                #[query(name = "q-opt", decoder = FromPlainOptionDecoder, log_as = "qo")] q_opt: Option<i32>,
                #[query(name = "ql", decoder = FromPlainSeqDecoder<_>)] ql: Vec<f64>,
                #[query(name = "qb", decoder = FromPlainSeqDecoder<_>)] qb: Vec<bool>,
            ) -> Result<String, Error>;

            #[endpoint(method = GET, path = "/m/auth", produces = StdResponseSerializer)]
            $($asyncness)? fn auth_header(&self, #[auth] auth: BearerToken, #[query(name = "q", decoder = FromPlainDecoder)] q: String) -> Result<String, Error>;

            #[endpoint(method = GET, path = "/m/cookie", produces = StdResponseSerializer)]
            $($asyncness)? fn auth_cookie(&self, #[auth(cookie_name = "sid")] auth: BearerToken) -> Result<String, Error>;

            #[endpoint(method = POST, path = "/m/unit")]
            $($asyncness)? fn unit(&self, #[body(deserializer = StdRequestDeserializer)] body: String) -> Result<(), Error>;

            #[endpoint(method = GET, path = "/m/names/{type}/{fooBar}", produces = StdResponseSerializer)]
            $($asyncness)? fn names(
                &self,
                #[path(name = "type", log_as = "type")] type_: i32,
                #[path(name = "fooBar", log_as = "fooBar", safe)] foo_bar: Uuid,
                #[query(name = "async", log_as = "async")] async_: i32,
                #[query(name = "camel-case", decoder = FromStrOptionDecoder, log_as = "camelCase", safe)] camel_case: Option<i32>,
                #[header(name = "X-Self", log_as = "self")] self_: i32,
                #[query(name = "snake_arg", log_as = "snakeArg", decoder = FromStrSeqDecoder<_>)] snake_arg: Vec<i32>,
                #[header(name = "X-Match", decoder = FromStrOptionDecoder, log_as = "match", safe)] match_: Option<bool>,
            ) -> Result<String, Error>;

            #[endpoint(method = GET, path = "/m/attrs/{a}/{b}/{c}", produces = StdResponseSerializer)]
            $($asyncness)? fn attrs(
                &self,
                #[path(safe, log_as = "b")] a: Echo,
                #[path(log_as = "bee")] b: Echo,
                #[path(name = "c", log_as = "sea")] c_renamed: i32,
                #[query(name = "q1", log_as = "pq", safe)] q: Echo,
                #[header(name = "X-H1", log_as = "hh")] h: Echo,
                #[query(name = "ls", decoder = FromStrSeqDecoder<_>)] ls: Vec<String>,
            ) -> Result<String, Error>;

            #[endpoint(method = GET, path = "/m/optret", produces = StdResponseSerializer)]
            $($asyncness)? fn opt_ret(&self) -> Result<Option<String>, Error>;

            #[endpoint(method = GET, path = "/m/ids/{ids:.*}", produces = StdResponseSerializer)]
            $($asyncness)? fn ids_path(&self, #[path(name = "ids", decoder = FromStrSeqDecoder<_>)] ids: Vec<i32>) -> Result<String, Error>;
        }
    };
}

macro_endpoints!(MacroMatrix,);
macro_endpoints!(AsyncMacroMatrix, async);

fn jv<T: serde::Serialize>(v: &T) -> Value {
    conjure_serde::json::to_string(v).ok().and_then(|s| serde_json::from_str(&s).ok()).unwrap_or(Value::Null)
}

macro_rules! macro_handler {
    ($tr:ident, $($asyncness:tt)?) => {
        impl $tr for Handler {
            $($asyncness)? fn echo(&self, pe: Echo, qe: Echo, qo: Option<Echo>, ql: Vec<Echo>, he: Echo, ho: Option<Echo>, pq: Echo, po: Option<Echo>,
                pl: Vec<Echo>, ph: Echo, pho: Option<Echo>) -> Result<String, Error> {
                let l = |v: &Vec<Echo>| v.iter().map(|e| e.0.clone()).collect::<Vec<_>>();
                self.rec.lock().unwrap().calls.push(json!({"endpoint": "echo", "args": {"pe": pe.0, "qe": qe.0, "qo": qo.map(|e| e.0), "ql": l(&ql),
                    "he": he.0, "ho": ho.map(|e| e.0), "pq": pq.0, "po": po.map(|e| e.0), "pl": l(&pl), "ph": ph.0, "pho": pho.map(|e| e.0)}}));
                conjure_serde::json::client_from_str(&self.ret.to_string()).map_err(Error::internal_safe)
            }
            $($asyncness)? fn headers(&self, hs: String, ho: Option<i32>, hu: Uuid, ha: String, he: Option<String>, hd: f64) -> Result<String, Error> {
                self.rec.lock().unwrap().calls.push(json!({"endpoint": "headers", "args": {"hs": hs, "ho": ho, "hu": jv(&hu), "ha": ha, "he": he, "hd": jv(&hd)}}));
                conjure_serde::json::client_from_str(&self.ret.to_string()).map_err(Error::internal_safe)
            }
            $($asyncness)? fn query_params(&self, qs: String, qo: Option<i32>, ql: Vec<f64>, qb: Vec<bool>) -> Result<String, Error> {
                self.rec.lock().unwrap().calls.push(json!({"endpoint": "queryParams", "args": {"qs": qs, "qo": qo, "ql": jv(&ql), "qb": qb}}));
                conjure_serde::json::client_from_str(&self.ret.to_string()).map_err(Error::internal_safe)
            }
            $($asyncness)? fn auth_header(&self, auth: BearerToken, q: String) -> Result<String, Error> {
                self.rec.lock().unwrap().calls.push(json!({"endpoint": "authHeader", "args": {"auth": auth.as_str(), "q": q}}));
                conjure_serde::json::client_from_str(&self.ret.to_string()).map_err(Error::internal_safe)
            }
            $($asyncness)? fn auth_cookie(&self, auth: BearerToken) -> Result<String, Error> {
                self.rec.lock().unwrap().calls.push(json!({"endpoint": "authCookie", "args": {"auth": auth.as_str()}}));
                conjure_serde::json::client_from_str(&self.ret.to_string()).map_err(Error::internal_safe)
            }
            $($asyncness)? fn unit(&self, body: String) -> Result<(), Error> {
                self.rec.lock().unwrap().calls.push(json!({"endpoint": "unit", "args": {"body": body}}));
                Ok(())
            }
            $($asyncness)? fn names(&self, type_: i32, foo_bar: Uuid, async_: i32, camel_case: Option<i32>, self_: i32, snake_arg: Vec<i32>, match_: Option<bool>) -> Result<String, Error> {
                self.rec.lock().unwrap().calls.push(json!({"endpoint": "names", "args": {"type": type_, "fooBar": jv(&foo_bar), "async": async_,
                    "camelCase": camel_case, "self": self_, "snakeArg": snake_arg, "match": match_}}));
                conjure_serde::json::client_from_str(&self.ret.to_string()).map_err(Error::internal_safe)
            }
            $($asyncness)? fn attrs(&self, a: Echo, b: Echo, c: i32, q: Echo, h: Echo, ls: Vec<String>) -> Result<String, Error> {
                self.rec.lock().unwrap().calls.push(json!({"endpoint": "attrs", "args": {"b": a.0, "bee": b.0, "sea": c, "pq": q.0, "hh": h.0, "ls": ls}}));
                conjure_serde::json::client_from_str(&self.ret.to_string()).map_err(Error::internal_safe)
            }
            $($asyncness)? fn opt_ret(&self) -> Result<Option<String>, Error> {
                self.rec.lock().unwrap().calls.push(json!({"endpoint": "optRet", "args": {}}));
                conjure_serde::json::client_from_str(&self.ret.to_string()).map_err(Error::internal_safe)
            }
            $($asyncness)? fn ids_path(&self, ids: Vec<i32>) -> Result<String, Error> {
                self.rec.lock().unwrap().calls.push(json!({"endpoint": "idsPath", "args": {"ids": ids}}));
                conjure_serde::json::client_from_str(&self.ret.to_string()).map_err(Error::internal_safe)
            }
        }
    };
}
macro_handler!(MacroMatrix,);
macro_handler!(AsyncMacroMatrix, async);

fn arg<T: serde::de::DeserializeOwned>(args: &Value, name: &str) -> Result<T, String> {
    conjure_serde::json::client_from_str(&args[name].to_string()).map_err(|e| format!("argument {name}: {e}"))
}

macro_rules! id {
    ($e:expr) => {
        $e
    };
}
macro_rules! bo {
    ($e:expr) => {
        block_on($e)
    };
}

macro_rules! mac_calls {
    ($fname:ident, $client:ident, $w:ident) => {
        pub fn $fname(lp: &Loop, ep: &str, args: &Value) -> Result<Result<Value, Error>, String> {
            let c = $client::new(lp);
            Ok(match ep {
                "echo" => {
                    let e = |n: &str| -> Result<Echo, String> { Ok(Echo(arg::<String>(args, n)?)) };
                    let o = |n: &str| -> Result<Option<Echo>, String> { Ok(arg::<Option<String>>(args, n)?.map(Echo)) };
                    let l = |n: &str| -> Result<Vec<Echo>, String> { Ok(arg::<Vec<String>>(args, n)?.into_iter().map(Echo).collect()) };
                    let (qo, ho, po, pho) = (o("qo")?, o("ho")?, o("po")?, o("pho")?);
                    $w!(c.echo(&e("pe")?, &e("qe")?, qo.as_ref(), &l("ql")?, &e("he")?, ho.as_ref(), &e("pq")?, po.as_ref(), &l("pl")?, &e("ph")?, pho.as_ref())).map(|v| json!(v))
                }
                "headers" => {
                    let he: Option<String> = arg(args, "he")?;
                    $w!(c.headers(&arg::<String>(args, "hs")?, arg(args, "ho")?, arg(args, "hu")?, &arg::<String>(args, "ha")?, he.as_deref(), arg(args, "hd")?)).map(|v| json!(v))
                }
                "queryParams" => $w!(c.query_params(&arg::<String>(args, "qs")?, arg(args, "qo")?, &arg::<Vec<f64>>(args, "ql")?, &arg::<Vec<bool>>(args, "qb")?)).map(|v| json!(v)),
                "authHeader" => $w!(c.auth_header(&arg::<BearerToken>(args, "auth")?, &arg::<String>(args, "q")?)).map(|v| json!(v)),
                "authCookie" => $w!(c.auth_cookie(&arg::<BearerToken>(args, "auth")?)).map(|v| json!(v)),
                "unit" => $w!(c.unit(&arg::<String>(args, "body")?)).map(|()| Value::Null),
                "names" => $w!(c.names(arg(args, "type")?, arg(args, "fooBar")?, arg(args, "async")?, arg(args, "camelCase")?, arg(args, "self")?,
                    &arg::<Vec<i32>>(args, "snakeArg")?, arg(args, "match")?)).map(|v| json!(v)),
                "idsPath" => $w!(c.ids_path(arg(args, "ids")?)).map(|v| json!(v)),
                "optRet" => $w!(c.opt_ret()).map(|v| json!(v)),
                "attrs" => {
                    let e = |n: &str| -> Result<Echo, String> { Ok(Echo(arg::<String>(args, n)?)) };
                    $w!(c.attrs(arg(args, "sea")?, &e("pq")?, &e("bee")?, &e("hh")?, &e("b")?, &arg::<Vec<String>>(args, "ls")?)).map(|v| json!(v))
                }
                other => return Err(format!("endpoint {other} has no macro twin")),
            })
        }
    };
}
mac_calls!(call_blocking, MacroApiClient, id);
mac_calls!(call_async, AsyncMacroApiClient, bo);
