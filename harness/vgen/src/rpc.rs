//! C04 / C09 / C19: an in-process loopback between generated (and macro-derived) clients and endpoints.
//!
//! `Loop` implements `Client` / `AsyncClient`: it takes the request a client method built, optionally applies scripted
//! mutations (C09/C19), routes it like a web framework would (method + path template, raw segments into `PathParams`),
//! calls `Endpoint::handle` / `AsyncEndpoint::handle` of the endpoints generated from the same definition, materialises
//! the response (re-chunked) and hands it back.  Handlers record their arguments and count invocations.
use crate::a;
use crate::mac;
use bytes::Bytes;
use conjure_error::{Error, ErrorKind};
use conjure_http::client::{AsyncClient, AsyncRequestBody, AsyncService as _, Client, RequestBody, Service as _};
use conjure_http::server::{
    AsyncEndpoint, AsyncResponseBody, AsyncService, AsyncWriteBody, ConjureRuntime, Endpoint, EndpointMetadata, PathSegment,
    ResponseBody, Service, WriteBody,
};
use conjure_http::{PathParams, SafeParams};
use conjure_object::{BearerToken, DateTime, ResourceIdentifier, SafeLong, Utc, Uuid};
use futures::Stream;
use http::header::{HeaderName, HeaderValue};
use http::{Extensions, HeaderMap, Method, Request, Response};
use serde::de::DeserializeOwned;
use serde::Serialize;
use serde_json::{json, Value};
use std::collections::{BTreeMap, BTreeSet};
use std::pin::Pin;
use std::sync::{Arc, Mutex};
use std::task::{Context, Poll};

/// Drives a future to completion by polling it with a no-op waker (the harness' bodies never return Pending); unlike
/// `futures::executor::block_on` it may be nested (async client -> loopback -> async endpoint).
pub fn block_on<F: std::future::Future>(f: F) -> F::Output {
    let waker = futures::task::noop_waker();
    let mut cx = Context::from_waker(&waker);
    let mut f = std::pin::pin!(f);
    loop {
        if let Poll::Ready(v) = f.as_mut().poll(&mut cx) {
            return v;
        }
    }
}

// ---------------------------------------------------------------------------------------------------------------
// bodies

pub struct Script {
    items: std::vec::IntoIter<Vec<u8>>,
    /// the stream raises an error instead of yielding the chunk with this index (C18: scripted faulty responses)
    fail_at: Option<usize>,
    pos: usize,
}

impl Script {
    pub fn new(chunks: Vec<Vec<u8>>) -> Script {
        Script { items: chunks.into_iter(), fail_at: None, pos: 0 }
    }
    pub fn failing(chunks: Vec<Vec<u8>>, fail_at: Option<usize>) -> Script {
        Script { items: chunks.into_iter(), fail_at, pos: 0 }
    }
    fn step(&mut self) -> Option<Result<Bytes, Error>> {
        if self.fail_at == Some(self.pos) {
            self.pos += 1;
            return Some(Err(Error::internal_safe("scripted stream failure")));
        }
        self.pos += 1;
        self.items.next().map(|b| Ok(Bytes::from(b)))
    }
    pub fn collect(self) -> Vec<u8> {
        self.items.flatten().collect()
    }
}

impl Iterator for Script {
    type Item = Result<Bytes, Error>;
    fn next(&mut self) -> Option<Self::Item> {
        self.step()
    }
}

impl Stream for Script {
    type Item = Result<Bytes, Error>;
    fn poll_next(mut self: Pin<&mut Self>, _: &mut Context<'_>) -> Poll<Option<Self::Item>> {
        Poll::Ready(self.step())
    }
}

/// The writer the loopback hands to streamed bodies: like a socket or a framed transport it takes at most FRAME bytes per
/// `write` call (a short write is legal for `std::io::Write`; a body must loop, i.e. use `write_all`).
pub struct Frames(pub Vec<u8>);
const FRAME: usize = 2;

impl std::io::Write for Frames {
    fn write(&mut self, b: &[u8]) -> std::io::Result<usize> {
        let n = b.len().min(FRAME);
        self.0.extend_from_slice(&b[..n]);
        Ok(n)
    }
    fn flush(&mut self) -> std::io::Result<()> {
        Ok(())
    }
}

/// what the ctxCall handler leaves in the response extensions
#[derive(Clone)]
pub struct CtxMarker(pub usize);

pub struct BytesWriter(pub Vec<u8>);

impl WriteBody<Frames> for BytesWriter {
    fn write_body(self: Box<Self>, w: &mut Frames) -> Result<(), Error> {
        std::io::Write::write_all(w, &self.0).map_err(Error::internal_safe)
    }
}

impl AsyncWriteBody<Frames> for BytesWriter {
    async fn write_body(self, mut w: Pin<&mut Frames>) -> Result<(), Error> {
        w.0.extend_from_slice(&self.0);
        Ok(())
    }
}

/// what a handler returns for a streamed response: the blocking handlers use the library's stock `Vec<u8>` body
pub trait MkBody {
    fn mk(v: Vec<u8>) -> Self;
}
impl MkBody for Vec<u8> {
    fn mk(v: Vec<u8>) -> Self {
        v
    }
}
impl MkBody for BytesWriter {
    fn mk(v: Vec<u8>) -> Self {
        BytesWriter(v)
    }
}

struct ClientBytes(Vec<u8>);
impl conjure_http::client::WriteBody<Frames> for ClientBytes {
    fn write_body(&mut self, w: &mut Frames) -> Result<(), Error> {
        std::io::Write::write_all(w, &self.0).map_err(Error::internal_safe)
    }
    fn reset(&mut self) -> bool {
        true
    }
}
impl conjure_http::client::AsyncWriteBody<Frames> for ClientBytes {
    async fn write_body(self: Pin<&mut Self>, mut w: Pin<&mut Frames>) -> Result<(), Error> {
        w.0.extend_from_slice(&self.0);
        Ok(())
    }
    async fn reset(self: Pin<&mut Self>) -> bool {
        true
    }
}

// ---------------------------------------------------------------------------------------------------------------
// recording handler

#[derive(Default)]
pub struct Rec {
    pub calls: Vec<Value>,
    pub exchanges: Vec<Value>,
}

#[derive(Clone)]
pub struct Handler {
    pub rec: Arc<Mutex<Rec>>,
    pub ret: Value,
}

fn j<T: Serialize>(v: &T) -> Value {
    conjure_serde::json::to_string(v).ok().and_then(|s| serde_json::from_str(&s).ok()).unwrap_or(Value::Null)
}

fn from_j<T: DeserializeOwned>(v: &Value) -> Result<T, Error> {
    conjure_serde::json::client_from_str(&v.to_string()).map_err(Error::internal_safe)
}

impl Handler {
    fn record(&self, endpoint: &str, args: Vec<(&str, Value)>) {
        let mut m = serde_json::Map::new();
        for (k, v) in args {
            m.insert(k.to_string(), v);
        }
        self.rec.lock().unwrap().calls.push(json!({"endpoint": endpoint, "args": Value::Object(m)}));
    }
    fn ret<T: DeserializeOwned>(&self) -> Result<T, Error> {
        if let Some(code) = self.ret.get("@error").and_then(|c| c.as_str()) {
            return Err(Error::service_safe("handler failure", conjure_error::NotFound::new()).with_safe_param("code", code));
        }
        from_j(&self.ret)
    }
}

macro_rules! matrix_impl {
    ($tr:path, $body:ty, $($asyncness:tt)?) => {
        impl $tr for Handler {
            type BinaryBodyBody = $body;
            type OptBinaryReturnBody = $body;

            $($asyncness)? fn path_params(&self, s: String, i: i32, d: f64, b: bool, u: Uuid, r: ResourceIdentifier, l: SafeLong,
                t: DateTime<Utc>, e: a::Color, a_: a::PlStr) -> Result<String, Error> {
                self.record("pathParams", vec![("s", j(&s)), ("i", j(&i)), ("d", j(&d)), ("b", j(&b)), ("u", j(&u)), ("r", j(&r)),
                    ("l", j(&l)), ("t", json!([t.timestamp(), t.timestamp_subsec_nanos()])), ("e", j(&e)), ("a", j(&a_))]);
                self.ret()
            }
            $($asyncness)? fn query_params(&self, qs: String, qo: Option<i32>, ql: Vec<f64>, qset: BTreeSet<String>, qe: Option<a::Color>,
                qa: Option<a::PlDbl>, qoa: a::OptStrAlias, qb: Vec<bool>) -> Result<String, Error> {
                self.record("queryParams", vec![("qs", j(&qs)), ("qo", j(&qo)), ("ql", j(&ql)), ("qset", j(&qset)), ("qe", j(&qe)),
                    ("qa", j(&qa)), ("qoa", j(&qoa)), ("qb", j(&qb))]);
                self.ret()
            }
            $($asyncness)? fn headers(&self, hs: String, ho: Option<i32>, hu: Uuid, ha: a::PlStr, he: Option<a::Color>, hd: f64) -> Result<String, Error> {
                self.record("headers", vec![("hs", j(&hs)), ("ho", j(&ho)), ("hu", j(&hu)), ("ha", j(&ha)), ("he", j(&he)), ("hd", j(&hd))]);
                self.ret()
            }
            $($asyncness)? fn ctx_call(&self, p: String, hoa: a::OptStrAlias, q: Option<String>, mut request_context_: conjure_http::server::RequestContext<'_>) -> Result<String, Error> {
                // what the handler sees through the request context must be the request that was sent
                let uri = request_context_.request_uri().to_string();
                let hdr = request_context_.request_headers().get("x-optalias").map(|v| String::from_utf8_lossy(v.as_bytes()).to_string());
                let nhdr = request_context_.request_headers().len();
                request_context_.response_extensions_mut().insert(CtxMarker(p.len()));
                let seen = request_context_.response_extensions().get::<CtxMarker>().map(|m| m.0);
                self.record("ctxCall", vec![("p", j(&p)), ("hoa", j(&hoa)), ("q", j(&q)), ("@uri", json!(uri)), ("@hdr", json!(hdr)), ("@nhdr", json!(nhdr)),
                    ("@marker", json!(seen))]);
                self.ret()
            }
            $($asyncness)? fn auth_header(&self, auth_: BearerToken, q: String) -> Result<String, Error> {
                self.record("authHeader", vec![("auth", j(&auth_)), ("q", j(&q))]);
                self.ret()
            }
            $($asyncness)? fn auth_cookie(&self, auth_: BearerToken) -> Result<String, Error> {
                self.record("authCookie", vec![("auth", j(&auth_))]);
                self.ret()
            }
            $($asyncness)? fn json_body(&self, body: a::DoubleBag) -> Result<a::DoubleBag, Error> {
                self.record("jsonBody", vec![("body", j(&body))]);
                self.ret()
            }
            $($asyncness)? fn opt_body(&self, body: Option<a::Inner>) -> Result<Option<a::Inner>, Error> {
                self.record("optBody", vec![("body", j(&body))]);
                self.ret()
            }
            $($asyncness)? fn alias_opt_body(&self, body: a::OptInnerAlias) -> Result<a::OptInnerAlias, Error> {
                self.record("aliasOptBody", vec![("body", j(&body))]);
                self.ret()
            }
            $($asyncness)? fn regex_path(&self, n: i32) -> Result<String, Error> {
                self.record("regexPath", vec![("n", j(&n))]);
                self.ret()
            }
            $($asyncness)? fn list_return(&self, n: i32) -> Result<Vec<String>, Error> {
                self.record("listReturn", vec![("n", j(&n))]);
                self.ret()
            }
            $($asyncness)? fn set_return(&self, n: i32) -> Result<BTreeSet<conjure_object::DoubleKey>, Error> {
                self.record("setReturn", vec![("n", j(&n))]);
                self.ret()
            }
            $($asyncness)? fn map_return(&self, n: i32) -> Result<BTreeMap<String, f64>, Error> {
                self.record("mapReturn", vec![("n", j(&n))]);
                self.ret()
            }
            $($asyncness)? fn binary_body(&self, body: Script) -> Result<$body, Error> {
                let bytes = body.collect();
                self.record("binaryBody", vec![("body", json!(bytes))]);
                let r: Vec<u8> = self.ret()?;
                Ok(<$body as MkBody>::mk(r))
            }
            $($asyncness)? fn opt_binary_return(&self, n: i32) -> Result<Option<$body>, Error> {
                self.record("optBinaryReturn", vec![("n", j(&n))]);
                let r: Option<Vec<u8>> = self.ret()?;
                Ok(r.map(<$body as MkBody>::mk))
            }
            $($asyncness)? fn unit(&self, body: String) -> Result<(), Error> {
                self.record("unit", vec![("body", j(&body))]);
                if self.ret.get("@error").is_some() { return self.ret(); }
                Ok(())
            }
            $($asyncness)? fn limited(&self, body: String) -> Result<String, Error> {
                self.record("limited", vec![("body", j(&body))]);
                self.ret()
            }
            $($asyncness)? fn safe_mix(&self, auth_: BearerToken, safe_path: String, unsafe_path: String, safe_query: String, unsafe_query: String,
                safe_header: a::SafeStr, unsafe_header: String, dnl_query: Option<String>, safe_int: Option<i32>, body: a::Inner) -> Result<String, Error> {
                self.record("safeMix", vec![("auth", j(&auth_)), ("safePath", j(&safe_path)), ("unsafePath", j(&unsafe_path)), ("safeQuery", j(&safe_query)),
                    ("unsafeQuery", j(&unsafe_query)), ("safeHeader", j(&safe_header)), ("unsafeHeader", j(&unsafe_header)), ("dnlQuery", j(&dnl_query)),
                    ("safeInt", j(&safe_int)), ("body", j(&body))]);
                self.ret()
            }
            $($asyncness)? fn names(&self, type_: i32, foo_bar: Uuid, async_: i32, camel_case: Option<i32>, self_: i32, snake_arg: Vec<i32>,
                match_: Option<bool>) -> Result<String, Error> {
                self.record("names", vec![("type", j(&type_)), ("fooBar", j(&foo_bar)), ("async", j(&async_)), ("camelCase", j(&camel_case)),
                    ("self", j(&self_)), ("snakeArg", j(&snake_arg)), ("match", j(&match_))]);
                self.ret()
            }
            $($asyncness)? fn opt_query(&self, first: Option<String>, lst: Vec<i32>, st: BTreeSet<String>, last: Option<i32>) -> Result<String, Error> {
                self.record("optQuery", vec![("first", j(&first)), ("lst", j(&lst)), ("st", j(&st)), ("last", j(&last))]);
                self.ret()
            }
            $($asyncness)? fn safe_body(&self, body: a::SafeObj, n: i32) -> Result<String, Error> {
                self.record("safeBody", vec![("body", j(&body)), ("n", j(&n))]);
                self.ret()
            }
        }
    };
}

type GenSync = dyn a::Matrix<Script, Frames, BinaryBodyBody = Vec<u8>, OptBinaryReturnBody = Vec<u8>>;
matrix_impl!(a::Matrix<Script, Frames>, Vec<u8>,);
matrix_impl!(a::AsyncMatrix<Script, Frames>, BytesWriter, async);

// ---------------------------------------------------------------------------------------------------------------
// loopback

#[derive(Clone, Copy, PartialEq, Debug)]
pub enum ServerFlavour {
    GenBlocking,
    GenAsync,
    MacroBlocking,
    MacroAsync,
}

pub struct Loop {
    pub rec: Arc<Mutex<Rec>>,
    pub server: ServerFlavour,
    pub ret: Value,
    pub mutations: Vec<Value>,
    pub accept_smile: bool,
    pub chunk: usize,
    /// the transport loses the first attempt after the body was written and retries (reset() + write_body again)
    pub retry: bool,
}

fn err_json(e: &Error) -> Value {
    let code = match e.kind() {
        ErrorKind::Service(s) => Some(conjure_serde::json::to_string(s.error_code()).unwrap().trim_matches('"').to_string()),
        _ => None,
    };
    let kind = match e.kind() {
        ErrorKind::Service(_) => "service",
        ErrorKind::Throttle(_) => "throttle",
        ErrorKind::Unavailable(_) => "unavailable",
        _ => "other",
    };
    let mut sp = serde_json::Map::new();
    for (k, v) in e.safe_params().iter() {
        sp.insert(k.to_string(), j(v));
    }
    let mut up = serde_json::Map::new();
    for (k, v) in e.unsafe_params().iter() {
        up.insert(k.to_string(), j(v));
    }
    let mut chain = vec![e.cause().to_string(), format!("{:?}", e.cause())];
    let mut src = std::error::Error::source(e.cause());
    while let Some(s) = src {
        chain.push(s.to_string());
        src = s.source();
    }
    json!({"kind": kind, "code": code, "safe_params": Value::Object(sp), "unsafe_params": Value::Object(up), "cause_safe": e.cause_safe(),
           "cause": chain})
}

fn split_query(q: &str) -> Vec<(String, String)> {
    q.split('&').filter(|p| !p.is_empty()).map(|p| match p.split_once('=') {
        Some((k, v)) => (k.to_string(), v.to_string()),
        None => (p.to_string(), String::new()),
    }).collect()
}

fn pct(s: &str) -> String {
    let mut out = String::new();
    for b in s.bytes() {
        if b.is_ascii_alphanumeric() || b"-._~".contains(&b) {
            out.push(b as char);
        } else {
            out.push_str(&format!("%{b:02X}"));
        }
    }
    out
}

impl Loop {
    fn exchange(&self, method: Method, uri: http::Uri, mut headers: HeaderMap, mut body: Vec<u8>) -> Result<Response<Script>, Error> {
        let mut path: Vec<String> = uri.path().split('/').skip(1).map(|s| s.to_string()).collect();
        let mut query: Vec<(String, String)> = uri.query().map(split_query).unwrap_or_default();
        let original_uri = uri.to_string();
        // scripted mutations of the request on the wire (C09 / C19)
        for m in &self.mutations {
            let s = |k: &str| m[k].as_str().unwrap_or("").to_string();
            match m["op"].as_str().unwrap_or("") {
                "drop_query" => query.retain(|(k, _)| *k != s("key")),
                "dup_query" => {
                    if let Some(p) = query.iter().find(|(k, _)| *k == s("key")).cloned() {
                        query.push(p);
                    } else {
                        query.push((s("key"), pct(&s("value"))));
                        query.push((s("key"), pct(&s("value"))));
                    }
                }
                "set_query" => {
                    let mut hit = false;
                    for p in query.iter_mut() {
                        if p.0 == s("key") {
                            p.1 = pct(&s("value"));
                            hit = true;
                        }
                    }
                    if !hit {
                        query.push((s("key"), pct(&s("value"))));
                    }
                }
                "set_query_raw" => {
                    // the value is already in its wire form (may hold bytes a client would have escaped)
                    let mut hit = false;
                    for p in query.iter_mut() {
                        if p.0 == s("key") {
                            p.1 = s("value");
                            hit = true;
                        }
                    }
                    if !hit {
                        query.push((s("key"), s("value")));
                    }
                }
                "set_path" => {
                    let i = m["index"].as_u64().unwrap() as usize;
                    if i < path.len() {
                        path[i] = pct(&s("value"));
                    }
                }
                "set_path_segments" => {
                    // a raw request whose parameter position holds several segments (only a regex parameter routes it)
                    let i = m["index"].as_u64().unwrap() as usize;
                    if i < path.len() {
                        let raw = m["raw"].as_bool().unwrap_or(false);     // raw: the values are already in their wire form
                        let segs: Vec<String> = m["values"].as_array().unwrap().iter()
                            .map(|v| if raw { v.as_str().unwrap().to_string() } else { pct(v.as_str().unwrap()) }).collect();
                        path.splice(i..i + 1, segs);
                    }
                }
                "drop_header" => {
                    headers.remove(HeaderName::from_bytes(s("name").as_bytes()).unwrap());
                }
                "set_header" => {
                    let name = HeaderName::from_bytes(s("name").as_bytes()).unwrap();
                    let value = match m.get("bytes") {
                        Some(b) if b.is_array() => HeaderValue::from_bytes(&b.as_array().unwrap().iter().map(|x| x.as_u64().unwrap() as u8).collect::<Vec<_>>()),
                        _ => HeaderValue::from_str(&s("value")),
                    };
                    if let Ok(v) = value {
                        headers.insert(name, v);
                    }
                }
                "append_header" => {
                    // one more header LINE with this name (several Accept lines, ...)
                    let name = HeaderName::from_bytes(s("name").as_bytes()).unwrap();
                    if let Ok(v) = HeaderValue::from_str(&s("value")) {
                        headers.append(name, v);
                    }
                }
                "dup_header" => {
                    let name = HeaderName::from_bytes(s("name").as_bytes()).unwrap();
                    let v = headers.get(&name).cloned().unwrap_or_else(|| HeaderValue::from_str(&s("value")).unwrap());
                    headers.append(name, v);
                }
                "set_body" => body = m["bytes"].as_array().unwrap().iter().map(|x| x.as_u64().unwrap() as u8).collect(),
                _ => {}
            }
        }
        if self.accept_smile {
            headers.insert(http::header::ACCEPT, HeaderValue::from_static("application/x-jackson-smile, application/json;q=0.5"));
        }
        let runtime = Arc::new(ConjureRuntime::new());
        let handler = Handler { rec: self.rec.clone(), ret: self.ret.clone() };
        let raw_path = format!("/{}", path.join("/"));
        let new_uri = if query.is_empty() { raw_path.clone() } else {
            format!("{}?{}", raw_path, query.iter().map(|(k, v)| format!("{k}={v}")).collect::<Vec<_>>().join("&"))
        };
        let chunk = self.chunk.max(1);
        let chunks: Vec<Vec<u8>> = if body.is_empty() { vec![] } else { body.chunks((body.len() / chunk).max(1)).map(|c| c.to_vec()).collect() };

        // routing: method + template; raw segments become PathParams
        let route = |method: &Method, segs: &[PathSegment]| -> Option<PathParams> {
            let _ = method;
            let mut pp = PathParams::new();
            let mut i = 0usize;
            for seg in segs {
                match seg {
                    PathSegment::Literal(l) => {
                        if path.get(i).map(|s| s.as_str()) != Some(&**l) {
                            return None;
                        }
                        i += 1;
                    }
                    PathSegment::Parameter { name, regex } => {
                        if regex.is_some() {
                            if i > path.len() {
                                return None;
                            }
                            pp.insert(name.to_string(), path[i..].join("/"));
                            i = path.len();
                        } else {
                            let s = path.get(i)?;
                            pp.insert(name.to_string(), s.clone());
                            i += 1;
                        }
                    }
                }
            }
            if i == path.len() { Some(pp) } else { None }
        };
        let mut ext = Extensions::new();
        let mk_req = |pp: PathParams| {
            let mut r = Request::new(Script::new(chunks.clone()));
            *r.method_mut() = method.clone();
            *r.uri_mut() = new_uri.parse().expect("mutated uri parses");
            *r.headers_mut() = headers.clone();
            r.extensions_mut().insert(pp);
            r
        };
        let mut exch = json!({"method": method.as_str(), "uri": original_uri, "sent_uri": new_uri,
            "headers": headers.iter().map(|(k, v)| json!([k.as_str(), String::from_utf8_lossy(v.as_bytes())])).collect::<Vec<_>>(),
            "body_len": body.len(), "body": String::from_utf8_lossy(&body[..body.len().min(400)])});
        let outcome: Result<(String, http::StatusCode, HeaderMap, Vec<u8>), (Option<String>, Error)> = match self.server {
            ServerFlavour::GenBlocking | ServerFlavour::MacroBlocking => {
                let eps: Vec<Box<dyn Endpoint<Script, Frames> + Sync + Send>> = if self.server == ServerFlavour::GenBlocking {
                    Service::endpoints(&a::MatrixEndpoints::new(handler), &runtime)
                } else {
                    Service::endpoints(&mac::MacroMatrixEndpoints::new(handler), &runtime)
                };
                match eps.iter().find_map(|e| if e.method() == method { route(&method, e.path()).map(|pp| (e, pp)) } else { None }) {
                    None => Err((None, Error::internal_safe("loopback: no endpoint matches the request"))),
                    Some((e, pp)) => match e.handle(mk_req(pp), &mut ext) {
                        Ok(resp) => {
                            let (parts, b) = resp.into_parts();
                            let mut buf = Frames(vec![]);
                            let r = match b {
                                ResponseBody::Empty => Ok(()),
                                ResponseBody::Fixed(x) => { buf.0.extend_from_slice(&x); Ok(()) }
                                ResponseBody::Streaming(w) => w.write_body(&mut buf),
                            };
                            match r { Ok(()) => Ok((e.name().to_string(), parts.status, parts.headers, buf.0)), Err(x) => Err((Some(e.name().to_string()), x)) }
                        }
                        Err(x) => Err((Some(e.name().to_string()), x)),
                    },
                }
            }
            _ => {
                let eps = if self.server == ServerFlavour::GenAsync {
                    AsyncService::<Script, Frames>::endpoints(&a::AsyncMatrixEndpoints::new(handler), &runtime)
                } else {
                    AsyncService::<Script, Frames>::endpoints(&mac::AsyncMacroMatrixEndpoints::new(handler), &runtime)
                };
                match eps.iter().find_map(|e| if e.method() == method { route(&method, e.path()).map(|pp| (e, pp)) } else { None }) {
                    None => Err((None, Error::internal_safe("loopback: no endpoint matches the request"))),
                    Some((e, pp)) => match block_on(e.handle(mk_req(pp), &mut ext)) {
                        Ok(resp) => {
                            let (parts, b) = resp.into_parts();
                            let mut buf = Frames(vec![]);
                            let r = match b {
                                AsyncResponseBody::Empty => Ok(()),
                                AsyncResponseBody::Fixed(x) => { buf.0.extend_from_slice(&x); Ok(()) }
                                AsyncResponseBody::Streaming(w) => block_on(w.write_body(Pin::new(&mut buf))),
                            };
                            match r { Ok(()) => Ok((e.name().to_string(), parts.status, parts.headers, buf.0)), Err(x) => Err((Some(e.name().to_string()), x)) }
                        }
                        Err(x) => Err((Some(e.name().to_string()), x)),
                    },
                }
            }
        };
        let mut sp = serde_json::Map::new();
        if let Some(p) = ext.get::<SafeParams>() {
            for (k, v) in p.iter() {
                sp.insert(k.to_string(), j(v));
            }
        }
        exch["server_safe_params"] = Value::Object(sp);
        match outcome {
            Ok((name, status, rheaders, buf)) => {
                exch["endpoint"] = json!(name);
                exch["status"] = json!(status.as_u16());
                exch["resp_marker"] = json!(ext.get::<CtxMarker>().map(|m| m.0));
                exch["resp_ctype"] = json!(rheaders.get(http::header::CONTENT_TYPE).map(|v| String::from_utf8_lossy(v.as_bytes()).to_string()));
                exch["resp_len"] = json!(buf.len());
                self.rec.lock().unwrap().exchanges.push(exch);
                // a client implementation hands a Smile body over as it is; the generated client only decodes JSON, so
                // the loopback transcodes a negotiated Smile response like an HTTP stack with content negotiation would
                let (buf, rheaders) = if rheaders.get(http::header::CONTENT_TYPE).map(|v| v.as_bytes() == b"application/x-jackson-smile").unwrap_or(false) {
                    let v: conjure_object::Any = conjure_serde::smile::client_from_slice(&buf).map_err(Error::internal_safe)?;
                    let mut h = rheaders.clone();
                    h.insert(http::header::CONTENT_TYPE, HeaderValue::from_static("application/json"));
                    (conjure_serde::json::to_vec(&v).map_err(Error::internal_safe)?, h)
                } else { (buf, rheaders) };
                let mut chunks: Vec<Vec<u8>> = if buf.is_empty() { vec![] } else { buf.chunks((buf.len() / chunk).max(1)).map(|c| c.to_vec()).collect() };
                // C18: scripted responses - the server's answer is replaced piece by piece
                let (mut status, mut rheaders, mut fail_at) = (status, rheaders, None);
                for m in &self.mutations {
                    match m["op"].as_str().unwrap_or("") {
                        "resp_status" => status = http::StatusCode::from_u16(m["status"].as_u64().unwrap() as u16).unwrap(),
                        "resp_ctype" => match m["value"].as_str() {
                            Some(v) => { rheaders.insert(http::header::CONTENT_TYPE, HeaderValue::from_bytes(v.as_bytes()).unwrap()); }
                            None => { rheaders.remove(http::header::CONTENT_TYPE); }
                        },
                        "resp_chunks" => chunks = m["chunks"].as_array().unwrap().iter()
                            .map(|c| c.as_array().unwrap().iter().map(|x| x.as_u64().unwrap() as u8).collect()).collect(),
                        "resp_fail_at" => fail_at = m["index"].as_u64().map(|n| n as usize),
                        _ => {}
                    }
                }
                let mut resp = Response::new(Script::failing(chunks, fail_at));
                *resp.status_mut() = status;
                *resp.headers_mut() = rheaders;
                Ok(resp)
            }
            Err((name, e)) => {
                exch["endpoint"] = json!(name);
                exch["server_error"] = err_json(&e);
                self.rec.lock().unwrap().exchanges.push(exch);
                Err(e)
            }
        }
    }
}

impl Client for &Loop {
    type BodyWriter = Frames;
    type ResponseBody = Script;
    fn send(&self, req: Request<RequestBody<'_, Frames>>) -> Result<Response<Script>, Error> {
        let (parts, body) = req.into_parts();
        let bytes = match body {
            RequestBody::Empty => vec![],
            RequestBody::Fixed(b) => b.to_vec(),
            RequestBody::Streaming(mut w) => {
                let mut buf = Frames(vec![]);
                w.write_body(&mut buf)?;
                if self.retry && w.reset() {
                    buf.0.clear();
                    w.write_body(&mut buf)?;
                }
                buf.0
            }
        };
        self.exchange(parts.method, parts.uri, parts.headers, bytes)
    }
}

impl AsyncClient for &Loop {
    type BodyWriter = Frames;
    type ResponseBody = Script;
    async fn send(&self, req: Request<AsyncRequestBody<'_, Frames>>) -> Result<Response<Script>, Error> {
        let (parts, body) = req.into_parts();
        let bytes = match body {
            AsyncRequestBody::Empty => vec![],
            AsyncRequestBody::Fixed(b) => b.to_vec(),
            AsyncRequestBody::Streaming(mut w) => {
                let mut buf = Frames(vec![]);
                conjure_http::client::AsyncWriteBody::write_body(Pin::new(&mut w), Pin::new(&mut buf)).await?;
                if self.retry && conjure_http::client::AsyncWriteBody::reset(Pin::new(&mut w)).await {
                    buf.0.clear();
                    conjure_http::client::AsyncWriteBody::write_body(Pin::new(&mut w), Pin::new(&mut buf)).await?;
                }
                buf.0
            }
        };
        self.exchange(parts.method, parts.uri, parts.headers, bytes)
    }
}

// ---------------------------------------------------------------------------------------------------------------
// typed glue: abstract call (endpoint + JSON arguments) -> real client method

fn arg<T: DeserializeOwned>(args: &Value, name: &str) -> Result<T, String> {
    conjure_serde::json::client_from_str(&args[name].to_string()).map_err(|e| format!("argument {name}: {e}"))
}

macro_rules! id {
    ($e:expr) => {
        $e
    };
}
macro_rules! bo {
    ($e:expr) => {
        block_on($e)
    };
}

macro_rules! gen_calls {
    ($fname:ident, $client:ty, $w:ident) => {
        fn $fname(c: &$client, ep: &str, args: &Value) -> Result<Result<Value, Error>, String> {
            Ok(match ep {
                "pathParams" => {
                    let t: DateTime<Utc> = arg(args, "t")?;
                    $w!(c.path_params(&arg::<String>(args, "s")?, arg(args, "i")?, arg(args, "d")?, arg(args, "b")?, arg(args, "u")?,
                        &arg::<ResourceIdentifier>(args, "r")?, arg(args, "l")?, t, &arg::<a::Color>(args, "e")?, &arg::<a::PlStr>(args, "a")?)).map(|v| j(&v))
                }
                "queryParams" => {
                    let qe: Option<a::Color> = arg(args, "qe")?;
                    $w!(c.query_params(&arg::<String>(args, "qs")?, arg(args, "qo")?, &arg::<Vec<f64>>(args, "ql")?, &arg::<BTreeSet<String>>(args, "qset")?,
                        qe.as_ref(), arg(args, "qa")?, &arg::<a::OptStrAlias>(args, "qoa")?, &arg::<Vec<bool>>(args, "qb")?)).map(|v| j(&v))
                }
                "headers" => {
                    let he: Option<a::Color> = arg(args, "he")?;
                    $w!(c.headers(&arg::<String>(args, "hs")?, arg(args, "ho")?, arg(args, "hu")?, &arg::<a::PlStr>(args, "ha")?, he.as_ref(), arg(args, "hd")?)).map(|v| j(&v))
                }
                "authHeader" => $w!(c.auth_header(&arg::<BearerToken>(args, "auth")?, &arg::<String>(args, "q")?)).map(|v| j(&v)),
                "authCookie" => $w!(c.auth_cookie(&arg::<BearerToken>(args, "auth")?)).map(|v| j(&v)),
                "jsonBody" => $w!(c.json_body(&arg::<a::DoubleBag>(args, "body")?)).map(|v| j(&v)),
                "optBody" => {
                    let b: Option<a::Inner> = arg(args, "body")?;
                    $w!(c.opt_body(b.as_ref())).map(|v| j(&v))
                }
                "aliasOptBody" => $w!(c.alias_opt_body(&arg::<a::OptInnerAlias>(args, "body")?)).map(|v| j(&v)),
                "regexPath" => $w!(c.regex_path(arg(args, "n")?)).map(|v| j(&v)),
                "listReturn" => $w!(c.list_return(arg(args, "n")?)).map(|v| j(&v)),
                "setReturn" => $w!(c.set_return(arg(args, "n")?)).map(|v| j(&v)),
                "mapReturn" => $w!(c.map_return(arg(args, "n")?)).map(|v| j(&v)),
                "binaryBody" => $w!(c.binary_body(ClientBytes(arg::<Vec<u8>>(args, "body")?))).map(|b| json!(b.collect())),
                "optBinaryReturn" => $w!(c.opt_binary_return(arg(args, "n")?)).map(|b| json!(b.map(|x| x.collect()))),
                "unit" => $w!(c.unit(&arg::<String>(args, "body")?)).map(|()| Value::Null),
                "limited" => $w!(c.limited(&arg::<String>(args, "body")?)).map(|v| j(&v)),
                "safeMix" => {
                    let dnl: Option<String> = arg(args, "dnlQuery")?;
                    $w!(c.safe_mix(&arg::<BearerToken>(args, "auth")?, &arg::<String>(args, "safePath")?, &arg::<String>(args, "unsafePath")?,
                        &arg::<String>(args, "safeQuery")?, &arg::<String>(args, "unsafeQuery")?, &arg::<a::SafeStr>(args, "safeHeader")?,
                        &arg::<String>(args, "unsafeHeader")?, dnl.as_deref(), arg(args, "safeInt")?, &arg::<a::Inner>(args, "body")?)).map(|v| j(&v))
                }
                "names" => $w!(c.names(arg(args, "type")?, arg(args, "fooBar")?, arg(args, "async")?, arg(args, "camelCase")?, arg(args, "self")?,
                    &arg::<Vec<i32>>(args, "snakeArg")?, arg(args, "match")?)).map(|v| j(&v)),
                "ctxCall" => {
                    let q: Option<String> = arg(args, "q")?;
                    $w!(c.ctx_call(&arg::<String>(args, "p")?, &arg::<a::OptStrAlias>(args, "hoa")?, q.as_deref())).map(|v| j(&v))
                }
                "optQuery" => {
                    let first: Option<String> = arg(args, "first")?;
                    $w!(c.opt_query(first.as_deref(), &arg::<Vec<i32>>(args, "lst")?, &arg::<BTreeSet<String>>(args, "st")?, arg(args, "last")?)).map(|v| j(&v))
                }
                "safeBody" => $w!(c.safe_body(&arg::<a::SafeObj>(args, "body")?, arg(args, "n")?)).map(|v| j(&v)),
                other => return Err(format!("unknown endpoint {other}")),
            })
        }
    };
}

gen_calls!(call_gen_blocking, a::MatrixClient<&Loop>, id);
gen_calls!(call_gen_async, a::MatrixAsyncClient<&Loop>, bo);

/// stdin case: {"id", "endpoint", "args": {..}, "ret": <json the handler returns>, "client": "gen-blocking"|"gen-async"|"macro-blocking"|
/// "macro-async", "server": likewise, "mutations": [..], "smile": bool, "chunk": n}
pub fn run_case(case: &Value) -> Result<Value, String> {
    let rec = Arc::new(Mutex::new(Rec::default()));
    let server = match case["server"].as_str().unwrap_or("gen-blocking") {
        "gen-blocking" => ServerFlavour::GenBlocking,
        "gen-async" => ServerFlavour::GenAsync,
        "macro-blocking" => ServerFlavour::MacroBlocking,
        _ => ServerFlavour::MacroAsync,
    };
    let lp = Loop {
        rec: rec.clone(),
        server,
        ret: case["ret"].clone(),
        mutations: case["mutations"].as_array().cloned().unwrap_or_default(),
        accept_smile: case["smile"].as_bool().unwrap_or(false),
        chunk: case["chunk"].as_u64().unwrap_or(1) as usize,
        retry: case["retry"].as_bool().unwrap_or(false),
    };
    let ep = case["endpoint"].as_str().ok_or("endpoint")?;
    let args = &case["args"];
    let result = match case["client"].as_str().unwrap_or("gen-blocking") {
        // the stock `impl WriteBody for &[u8]` (blocking clients only) instead of the harness's own body writer
        "gen-blocking" if ep == "binaryBody" && case["slice_body"].as_bool().unwrap_or(false) => {
            let bytes: Vec<u8> = arg(args, "body")?;
            a::MatrixClient::new(&lp).binary_body(&bytes[..]).map(|b| json!(b.collect()))
        }
        "gen-blocking" => call_gen_blocking(&a::MatrixClient::new(&lp), ep, args)?,
        "gen-async" => call_gen_async(&a::MatrixAsyncClient::new(&lp), ep, args)?,
        "macro-blocking" => mac::call_blocking(&lp, ep, args)?,
        _ => mac::call_async(&lp, ep, args)?,
    };
    let r = rec.lock().unwrap();
    Ok(json!({
        "client": match &result { Ok(v) => json!({"ok": v}), Err(e) => json!({"err": err_json(e)}) },
        "handler_calls": r.calls, "exchanges": r.exchanges,
    }))
}

/// `format!("{:?}", BearerToken)` must not contain the token (C09)
pub fn token_debug(token: &str) -> Value {
    match token.parse::<BearerToken>() {
        Ok(t) => json!({"debug": format!("{t:?}"), "debug_alt": format!("{t:#?}")}),
        Err(_) => json!({"invalid": true}),
    }
}

#[allow(dead_code)]
fn _assert_object_safe(_: &GenSync) {}
