//! Generic operations over generated types.
use conjure_object::{FromPlain, Plain, ToPlain};
use serde::de::DeserializeOwned;
use serde::Serialize;
use serde_json::{json, Value};
use std::cmp::Ordering;
use std::collections::hash_map::DefaultHasher;
use std::collections::{BTreeSet, HashSet};
use std::hash::{Hash, Hasher};

fn side<T: Serialize + std::fmt::Debug, E: std::fmt::Display>(r: Result<T, E>) -> Value {
    match r {
        Ok(v) => match conjure_serde::json::to_string(&v) {
            Ok(s) => {
                let smile = conjure_serde::smile::to_vec(&v).ok();
                let mut dbg = format!("{v:?}");
                dbg.truncate(200);
                json!({"ok": s, "smile_len": smile.map(|b| b.len()), "debug": dbg})
            }
            Err(e) => json!({"ser_err": e.to_string()}),
        },
        Err(e) => json!({"err": e.to_string()}),
    }
}

/// C02 / C10: parse with the server and the client deserializer, re-serialise, also via Smile.
pub fn wire_rt<T: DeserializeOwned + Serialize + PartialEq + std::fmt::Debug>(doc: &str) -> Value {
    let server = conjure_serde::json::server_from_str::<T>(doc);
    let client = conjure_serde::json::client_from_str::<T>(doc);
    // Smile round trip of the parsed value: re-serialised as JSON it must be the same document (values holding `any`
    // may differ in integer width representation, so documents are compared, not Rust values)
    let smile_ok = match &client {
        Ok(v) => {
            let direct = conjure_serde::json::to_string(v).ok().and_then(|s| serde_json::from_str::<Value>(&s).ok());
            let via = conjure_serde::smile::to_vec(v).ok()
                .and_then(|b| conjure_serde::smile::server_from_slice::<T>(&b).ok())
                .and_then(|w| conjure_serde::json::to_string(&w).ok())
                .and_then(|s| serde_json::from_str::<Value>(&s).ok());
            Some(direct.is_some() && direct == via)
        }
        Err(_) => None,
    };
    // deserialising the same document twice yields equal values
    let twice = match (&client, conjure_serde::json::client_from_str::<T>(doc)) {
        (Ok(a), Ok(b)) => Some(*a == b),
        _ => None,
    };
    // the same document through the reader entry points, and with every ASCII letter / digit / '-' / '.' / ':' inside strings written
    // as a \uXXXX escape (the deserializer cannot borrow such strings): verdict and value must not depend on the spelling
    let verdict = |r: &Result<T, serde_json::Error>| r.as_ref().ok().and_then(|v| conjure_serde::json::to_string(v).ok());
    let base_s = verdict(&conjure_serde::json::server_from_str::<T>(doc));
    let base_c = verdict(&conjure_serde::json::client_from_str::<T>(doc));
    let escaped = escape_strings(doc);
    let spellings = json!({
        "server_reader": verdict(&conjure_serde::json::server_from_reader::<_, T>(doc.as_bytes())) == base_s,
        "client_reader": verdict(&conjure_serde::json::client_from_reader::<_, T>(doc.as_bytes())) == base_c,
        "server_slice": verdict(&conjure_serde::json::server_from_slice::<T>(doc.as_bytes())) == base_s,
        "server_escaped": verdict(&conjure_serde::json::server_from_str::<T>(&escaped)) == base_s,
        "client_escaped": verdict(&conjure_serde::json::client_from_str::<T>(&escaped)) == base_c,
        "client_escaped_reader": verdict(&conjure_serde::json::client_from_reader::<_, T>(escaped.as_bytes())) == base_c,
    });
    // the document parsed into the dynamic `any` first and viewed as T: the same verdict and value as direct (client) parsing
    let via_any = match conjure_serde::json::client_from_str::<conjure_object::Any>(doc) {
        Ok(any) => {
            let v = any.deserialize_into::<T>();
            let text = v.as_ref().ok().and_then(|v| conjure_serde::json::to_string(v).ok());
            json!({"agree": text == base_c, "text": text, "err": v.err().map(|e| e.to_string())})
        }
        Err(e) => json!({"parse": e.to_string()}),
    };
    json!({"server": side(server), "client": side(client), "smile_roundtrip": smile_ok, "twice_equal": twice, "spellings": spellings, "via_any": via_any})
}

/// rewrites the characters of JSON string VALUES as \\uXXXX escapes; keys (number-like keys are parsed from the raw text by
/// serde_json), existing escapes and everything outside strings are kept
fn escape_strings(doc: &str) -> String {
    let cs: Vec<char> = doc.chars().collect();
    let mut out = String::new();
    let mut i = 0;
    while i < cs.len() {
        if cs[i] != '"' {
            out.push(cs[i]);
            i += 1;
            continue;
        }
        // string literal cs[i..=j]
        let mut j = i + 1;
        while j < cs.len() && cs[j] != '"' {
            j += if cs[j] == '\\' { 2 } else { 1 };
        }
        let mut k = j + 1;
        while k < cs.len() && cs[k].is_whitespace() {
            k += 1;
        }
        let is_key = k < cs.len() && cs[k] == ':';
        out.push('"');
        let mut p = i + 1;
        while p < j {
            let c = cs[p];
            if c == '\\' {
                let n = if p + 1 < j && cs[p + 1] == 'u' { 6 } else { 2 };
                for q in p..(p + n).min(j) {
                    out.push(cs[q]);
                }
                p += n;
                continue;
            }
            if !is_key && (c.is_ascii_alphanumeric() || "-.:+_=/".contains(c)) {
                out.push_str(&format!("\\u{:04x}", c as u32));
            } else {
                out.push(c);
            }
            p += 1;
        }
        out.push('"');
        i = j + 1;
    }
    out
}

fn h<T: Hash>(v: &T) -> u64 {
    let mut s = DefaultHasher::new();
    v.hash(&mut s);
    s.finish()
}

fn ord(o: Ordering) -> i32 {
    match o {
        Ordering::Less => -1,
        Ordering::Equal => 0,
        Ordering::Greater => 1,
    }
}

/// C14: pairwise eq / cmp / hash of the values parsed from `docs`, plus set membership.
pub fn order_ops<T: DeserializeOwned + Ord + Eq + Hash + Clone>(docs: &[String]) -> Value {
    let vals: Vec<Result<T, String>> = docs.iter().map(|d| conjure_serde::json::client_from_str::<T>(d).map_err(|e| e.to_string())).collect();
    if let Some((i, e)) = vals.iter().enumerate().find_map(|(i, v)| v.as_ref().err().map(|e| (i, e.clone()))) {
        return json!({"parse_err": e, "index": i});
    }
    let vals: Vec<T> = vals.into_iter().map(|v| v.unwrap()).collect();
    let n = vals.len();
    let mut eq = vec![vec![false; n]; n];
    let mut cmp = vec![vec![0; n]; n];
    let mut pcmp = vec![vec![0; n]; n];
    for i in 0..n {
        for j in 0..n {
            eq[i][j] = vals[i] == vals[j];
            cmp[i][j] = ord(vals[i].cmp(&vals[j]));
            pcmp[i][j] = vals[i].partial_cmp(&vals[j]).map(ord).unwrap_or(99);
        }
    }
    let hashes: Vec<String> = vals.iter().map(|v| format!("{:016x}", h(v))).collect();
    let bset: BTreeSet<T> = vals.iter().cloned().collect();
    let hset: HashSet<T> = vals.iter().cloned().collect();
    let found_b: Vec<bool> = vals.iter().map(|v| bset.contains(v)).collect();
    let found_h: Vec<bool> = vals.iter().map(|v| hset.contains(v)).collect();
    // the same document parsed twice
    let twice: Vec<bool> = docs.iter().zip(&vals).map(|(d, v)| conjure_serde::json::client_from_str::<T>(d).map(|w| &w == v && h(&w) == h(v)).unwrap_or(false)).collect();
    json!({"eq": eq, "cmp": cmp, "pcmp": pcmp, "hash": hashes, "in_btreeset": found_b, "in_hashset": found_h,
           "btree_len": bset.len(), "hash_len": hset.len(), "twice": twice})
}

/// C12: PLAIN text -> value -> PLAIN text.
pub fn plain_rt<T: FromPlain + Plain + PartialEq + std::fmt::Debug>(text: &str) -> Value
where
    T::Err: std::fmt::Display,
{
    match T::from_plain(text) {
        Ok(v) => {
            let printed = v.to_plain();
            let again = T::from_plain(&printed).ok().map(|w| w == v);
            let mut dbg = format!("{v:?}");
            dbg.truncate(120);
            json!({"ok": printed, "reparse_equal": again, "debug": dbg})
        }
        Err(e) => json!({"err": e.to_string()}),
    }
}

fn params_json(p: conjure_error::Params<'_>) -> Value {
    let mut m = serde_json::Map::new();
    for (k, v) in p.iter() {
        m.insert(k.to_string(), json!(conjure_serde::json::to_string(v).unwrap_or_else(|e| format!("ERR {e}"))));
    }
    Value::Object(m)
}

/// C17: a generated error type: parse its parameter object, encode it, build a service error.
pub fn error_ops<T: DeserializeOwned + Serialize + conjure_error::ErrorType + Clone>(doc: &str, mode: &str) -> Value {
    let e: T = match conjure_serde::json::client_from_str(doc) {
        Ok(e) => e,
        Err(x) => return json!({"parse_err": x.to_string()}),
    };
    let id: conjure_object::Uuid = "6ba7b810-9dad-11d1-80b4-00c04fd430c8".parse().unwrap();
    let encoded = conjure_error::encode(&e);
    let with_id = conjure_error::encode(&conjure_error::ErrorType::with_instance_id(e.clone(), id));
    let err = match mode {
        "service" => conjure_error::Error::service("cause", e.clone()),
        "service_safe" => conjure_error::Error::service_safe("cause", e.clone()),
        "propagated" => conjure_error::Error::propagated_service("cause", conjure_error::encode(&e)),
        _ => conjure_error::Error::propagated_service_safe("cause", conjure_error::encode(&e)),
    };
    let status = match err.kind() {
        conjure_error::ErrorKind::Service(s) => s.error_code().status_code(),
        _ => 0,
    };
    let text = conjure_serde::json::to_string(&encoded).unwrap();
    let back: Result<conjure_error::SerializableError, _> = conjure_serde::json::server_from_str(&text);
    json!({
        "code": conjure_serde::json::to_string(encoded.error_code()).unwrap().trim_matches('"'),
        "name": encoded.error_name(), "parameters": encoded.parameters(),
        "given_id_kept": with_id.error_instance_id() == id, "fresh_id_differs": encoded.error_instance_id() != id,
        "declared_safe_args": conjure_error::ErrorType::safe_args(&e),
        "json_roundtrip": back.map(|b| b == encoded).unwrap_or(false),
        "safe_params": params_json(err.safe_params()), "unsafe_params": params_json(err.unsafe_params()), "status": status,
    })
}
