//! Runs the REAL conjure_codegen (path dependency on /repo) on the committed zoo IR, in two configurations.
use std::env;
use std::path::PathBuf;

fn main() {
    let input = "ir/zoo.json";
    println!("cargo:rerun-if-changed={}", input);
    let out = PathBuf::from(env::var_os("OUT_DIR").unwrap());
    // a: default configuration
    conjure_codegen::Config::new()
        .strip_prefix("com.palantir.verif".to_string())
        .generate_files(input, out.join("a"))
        .expect("conjure_codegen failed on ir/zoo.json (configuration a)");
    // b: exhaustive + serializeEmptyCollections
    conjure_codegen::Config::new()
        .strip_prefix("com.palantir.verif".to_string())
        .exhaustive(true)
        .serialize_empty_collections(true)
        .generate_files(input, out.join("b"))
        .expect("conjure_codegen failed on ir/zoo.json (configuration b)");
}
