//! Compiles every module tree the real generator produced for the C03 IR set (see build.rs).
include!(concat!(env!("OUT_DIR"), "/all.rs"));
