//! C03: runs the REAL conjure_codegen on every IR listed in $VERIF_C03_DIR/index.json (default: ir/), one output
//! directory per IR, and writes all.rs declaring one module per successfully generated tree.  Generation failures are
//! data: they are written to $VERIF_C03_DIR/gen_report.json, not turned into a build failure.
use std::env;
use std::fs;
use std::panic;
use std::path::PathBuf;

fn main() {
    println!("cargo:rerun-if-env-changed=VERIF_C03_DIR");
    let dir = PathBuf::from(env::var("VERIF_C03_DIR").unwrap_or_else(|_| "ir".to_string()));
    let index = dir.join("index.json");
    println!("cargo:rerun-if-changed={}", index.display());
    let out = PathBuf::from(env::var_os("OUT_DIR").unwrap());
    let list: Vec<serde_json::Value> = fs::read_to_string(&index).ok().and_then(|s| serde_json::from_str(&s).ok()).unwrap_or_default();
    let mut all = String::new();
    let mut report = vec![];
    panic::set_hook(Box::new(|_| {}));
    // drop trees of earlier runs
    if let Ok(rd) = fs::read_dir(&out) {
        for d in rd.flatten() {
            if d.file_name().to_string_lossy().starts_with("ir_") {
                let _ = fs::remove_dir_all(d.path());
            }
        }
    }
    for e in &list {
        let id = e["id"].as_str().unwrap().to_string();
        let file = dir.join(e["file"].as_str().unwrap());
        println!("cargo:rerun-if-changed={}", file.display());
        let target = out.join(format!("ir_{id}"));
        let _ = fs::remove_dir_all(&target);
        let mut config = conjure_codegen::Config::new();
        config.exhaustive(e["config"]["exhaustive"].as_bool().unwrap_or(false));
        config.serialize_empty_collections(e["config"]["serialize_empty_collections"].as_bool().unwrap_or(false));
        if let Some(p) = e["config"]["strip_prefix"].as_str() {
            config.strip_prefix(p.to_string());
        }
        let r = panic::catch_unwind(panic::AssertUnwindSafe(|| config.generate_files(&file, &target)));
        match r {
            Ok(Ok(())) => {
                all.push_str(&format!("#[allow(warnings, clippy::all)]\n#[path = \"{}/mod.rs\"]\npub mod ir_{id};\n", target.display()));
                report.push(serde_json::json!({"id": id, "ok": true}));
            }
            Ok(Err(err)) => report.push(serde_json::json!({"id": id, "ok": false, "error": format!("{err:#}")})),
            Err(p) => {
                let msg = p.downcast_ref::<&str>().map(|s| s.to_string()).or_else(|| p.downcast_ref::<String>().cloned()).unwrap_or_default();
                report.push(serde_json::json!({"id": id, "ok": false, "error": format!("panic: {msg}")}))
            }
        }
    }
    fs::write(out.join("all.rs"), all).unwrap();
    let _ = fs::write(dir.join("gen_report.json"), serde_json::to_string_pretty(&report).unwrap());
}
