//! X01: executes the builder call histories emitted by TLC (spec/MCBuilders.tla) on the generated objects.
#![allow(warnings)]
include!(concat!(env!("OUT_DIR"), "/all.rs"));

pub fn emit<T: conjure_object::serde::Serialize>(id: &str, obj: &T, acc: Vec<String>) {
    let json = conjure_serde::json::to_string(obj).unwrap();
    println!("{}", serde_json::json!({"id": id, "json": json, "acc": acc}));
}

fn main() {
    run_all();
}
