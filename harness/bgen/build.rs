//! X01 (builders): runs the REAL conjure_codegen on $VERIF_X01_DIR/ir.json (default: cases/) and appends the driver-written
//! $VERIF_X01_DIR/cases.rs (one function per TLC-emitted builder call history) to the module declaration.
use std::env;
use std::fs;
use std::path::PathBuf;

fn main() {
    println!("cargo:rerun-if-env-changed=VERIF_X01_DIR");
    let dir = PathBuf::from(env::var("VERIF_X01_DIR").unwrap_or_else(|_| "cases".to_string()));
    let ir = dir.join("ir.json");
    let cases = dir.join("cases.rs");
    println!("cargo:rerun-if-changed={}", ir.display());
    println!("cargo:rerun-if-changed={}", cases.display());
    let out = PathBuf::from(env::var_os("OUT_DIR").unwrap());
    let target = out.join("gen");
    let _ = fs::remove_dir_all(&target);
    let mut all = String::new();
    if ir.exists() {
        let mut config = conjure_codegen::Config::new();
        config.strip_prefix("com.palantir.bld".to_string());
        config.generate_files(&ir, &target).expect("generation failed");
        all.push_str(&format!("#[allow(warnings, clippy::all)]\n#[path = \"{}/mod.rs\"]\npub mod ir;\n", target.display()));
    }
    match fs::read_to_string(&cases) {
        Ok(s) => all.push_str(&s),
        Err(_) => all.push_str("pub fn run_all() {}\n"),
    }
    fs::write(out.join("all.rs"), all).unwrap();
}
