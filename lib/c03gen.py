"""IR families for C03 / C20: definitions a Conjure compiler accepts (conservatively), meant to stress the generator."""
import irgen as ir

KEYWORDS = ["as", "break", "const", "continue", "crate", "else", "enum", "extern", "false", "fn", "for", "if", "impl", "in", "let",
            "loop", "match", "mod", "move", "mut", "pub", "ref", "return", "self", "static", "struct", "super", "trait", "true",
            "type", "unsafe", "use", "where", "while", "async", "await", "dyn", "abstract", "become", "box", "do", "final",
            "macro", "override", "priv", "typeof", "unsized", "virtual", "yield", "try", "union"]
PRELUDE_TYPES = ["Box", "Option", "Some", "None", "Ok", "Err", "Result", "String", "Vec", "Into", "IntoIterator", "Send", "Sync",
                 "Default", "Clone", "Copy", "Iterator", "Self", "Unknown", "Error", "Debug", "Display", "From", "Deref"]
P = ir.prim


def camel(words):
    return words[0] + "".join(w.capitalize() for w in words[1:])


def names_ir(pkg="com.palantir.names"):
    """keywords as field / variant / argument / endpoint names; prelude identifiers as type names"""
    R = lambda n: ir.ref(n, pkg)
    types = []
    types.append(ir.object_("KeywordFields", [ir.field(k, P("STRING") if i % 3 else ir.optional(P("INTEGER"))) for i, k in enumerate(KEYWORDS)], package=pkg))
    types.append(ir.union_("KeywordVariants", [ir.field(k, P("INTEGER") if i % 2 else P("DOUBLE")) for i, k in enumerate(KEYWORDS)], package=pkg))
    types.append(ir.object_("CamelKeywords", [ir.field(camel([k, "value"]), P("STRING")) for k in KEYWORDS[:20]]
                            + [ir.field("new", P("INTEGER")), ir.field("type", P("STRING")) if False else ir.field("newValue", P("INTEGER"))], package=pkg))
    for n in PRELUDE_TYPES:
        types.append(ir.object_(n, [ir.field("value", ir.optional(P("STRING"))), ir.field("items", ir.list_(P("INTEGER")))], package=pkg))
    types.append(ir.object_("UsesPrelude", [ir.field("o", ir.optional(R("Option"))), ir.field("b", ir.optional(R("Box"))), ir.field("v", ir.list_(R("Vec"))),
                                            ir.field("s", R("String")), ir.field("r", ir.map_(P("STRING"), R("Result"))), ir.field("e", ir.optional(R("Err"))),
                                            ir.field("selfRef", ir.optional(R("Self"))), ir.field("unknown", ir.optional(R("Unknown")))], package=pkg))
    types.append(ir.union_("PreludeUnion", [ir.field("some", R("Some")), ir.field("none", R("None")), ir.field("ok", R("Ok")), ir.field("unknown", R("Unknown")),
                                           ir.field("self", R("Self")), ir.field("box", R("Box"))], package=pkg))
    # names the generator itself uses for items next to the fields: constructor `new`, accessors, builder stages
    types.append(ir.object_("OptionalNew", [ir.field("new", ir.optional(P("STRING"))), ir.field("a", P("INTEGER"))], package=pkg))
    types.append(ir.object_("ListNew", [ir.field("new", ir.list_(P("INTEGER")))], package=pkg))
    types.append(ir.object_("MapNew", [ir.field("new", ir.map_(P("STRING"), P("INTEGER"))), ir.field("b", P("STRING")), ir.field("c", P("STRING"))], package=pkg))
    types.append(ir.object_("RequiredNew", [ir.field("new", P("STRING")), ir.field("newer", ir.optional(P("STRING")))], package=pkg))
    types.append(ir.object_("FourRequiredAndNew", [ir.field("new", ir.set_(P("STRING")))] + [ir.field("r%d" % i, P("INTEGER")) for i in range(4)], package=pkg))
    types.append(ir.object_("ItemNames", [ir.field("default", ir.optional(P("STRING"))), ir.field("clone", P("INTEGER")), ir.field("from", ir.list_(P("STRING"))),
                                          ir.field("into", ir.optional(P("INTEGER"))), ir.field("eq", P("BOOLEAN")), ir.field("cmp", ir.optional(P("DOUBLE"))),
                                          ir.field("hash", ir.set_(P("INTEGER"))), ir.field("fmt", P("STRING")), ir.field("serialize", ir.optional(P("STRING"))),
                                          ir.field("deserialize", ir.map_(P("STRING"), P("STRING"))), ir.field("complete", ir.optional(P("INTEGER"))),
                                          ir.field("stage", P("INTEGER"))], package=pkg))
    types.append(ir.enum_("KeywordLikeEnum", ["TYPE", "SELF", "ASYNC", "TRY", "A_1", "X"], package=pkg))
    types.append(ir.alias_("AliasOfPrelude", R("Vec"), package=pkg))
    eps = []
    for i, k in enumerate(KEYWORDS[:26]):
        eps.append(ir.endpoint(k, "GET", "/kw/%s/{%s}" % (k, k), [ir.arg(k, P("STRING"), "path"), ir.arg(camel([k, "q"]), ir.optional(P("INTEGER")), "query", k),
                                                                  ir.arg("h" + k.capitalize(), P("STRING"), "header", "X-" + k.capitalize())], returns=P("STRING")))
    for i, k in enumerate(KEYWORDS[26:]):
        eps.append(ir.endpoint(camel([k, "endpoint"]), "POST", "/kw2/%s" % k, [ir.arg(k, R("KeywordFields"), "body")], returns=ir.optional(R("KeywordVariants"))))
    services = [ir.service("KeywordService", eps, package=pkg), ir.service("Service", [ir.endpoint("new", "GET", "/new", [], returns=P("STRING"))], package=pkg)]
    errors = [ir.error("KeywordError", "Names", "INVALID_ARGUMENT", [ir.field(k, P("STRING")) for k in KEYWORDS[:10]],
                       [ir.field(k, P("INTEGER")) for k in KEYWORDS[10:20]], package=pkg),
              ir.error("NewError", "Names", "CONFLICT", [ir.field("new", ir.optional(P("STRING")))], [ir.field("old", P("STRING"))], package=pkg)]
    return ir.definition(types=types, services=services, errors=errors)


def recursion_ir(pkg="com.palantir.rec"):
    R = lambda n: ir.ref(n, pkg)
    t = [
        ir.object_("SelfOpt", [ir.field("next", ir.optional(R("SelfOpt"))), ir.field("v", P("DOUBLE"))], package=pkg),
        ir.object_("SelfList", [ir.field("kids", ir.list_(R("SelfList")))], package=pkg),
        ir.object_("SelfSet", [ir.field("kids", ir.set_(R("SelfSet"))), ir.field("n", P("INTEGER"))], package=pkg),
        ir.object_("SelfMap", [ir.field("kids", ir.map_(P("STRING"), R("SelfMap"))), ir.field("d", ir.optional(P("DOUBLE")))], package=pkg),
        ir.union_("SelfUnion", [ir.field("leaf", P("DOUBLE")), ir.field("node", R("SelfUnion")), ir.field("pair", ir.list_(R("SelfUnion")))], package=pkg),
        ir.object_("MutA", [ir.field("b", ir.optional(R("MutB"))), ir.field("u", ir.optional(R("MutU")))], package=pkg),
        ir.object_("MutB", [ir.field("a", ir.list_(R("MutA"))), ir.field("x", P("ANY"))], package=pkg),
        ir.union_("MutU", [ir.field("a", R("MutA")), ir.field("b", R("MutB")), ir.field("al", R("MutAlias"))], package=pkg),
        ir.alias_("MutAlias", ir.optional(R("MutA")), package=pkg),
        ir.alias_("ListOfSelfUnion", ir.list_(R("SelfUnion")), package=pkg),
        ir.object_("ThroughAlias", [ir.field("next", R("OptThroughAlias")), ir.field("b", P("BINARY"))], package=pkg),
        ir.alias_("OptThroughAlias", ir.optional(R("ThroughAlias")), package=pkg),
        ir.object_("DeepOptional", [ir.field("a", ir.optional(ir.list_(ir.optional(R("DeepOptional"))))), ir.field("m", ir.map_(R("RecKey"), ir.list_(R("DeepOptional"))))], package=pkg),
        ir.enum_("RecKey", ["A", "B"], package=pkg),
        ir.object_("ExternalHolder", [ir.field("e", ir.external(P("DOUBLE"))), ir.field("l", ir.list_(ir.external(P("STRING")))),
                                      ir.field("o", ir.optional(ir.external(R("SelfOpt"), name="ExtSelf")))], package=pkg),
        # cycles in which only one member holds a double, and types outside the cycle that refer to each member
        ir.object_("CycD1", [ir.field("next", ir.optional(R("CycD2"))), ir.field("d", P("DOUBLE"))], package=pkg),
        ir.object_("CycD2", [ir.field("back", ir.optional(R("CycD1"))), ir.field("n", P("INTEGER"))], package=pkg),
        ir.object_("CycOutside1", [ir.field("r", R("CycD2")), ir.field("s", P("STRING"))], package=pkg),
        ir.object_("CycOutside2", [ir.field("r", ir.optional(R("CycD1")))], package=pkg),
        ir.object_("CycA", [ir.field("b", ir.optional(R("CycB")))], package=pkg),
        ir.object_("CycB", [ir.field("c", ir.list_(R("CycC")))], package=pkg),
        ir.object_("CycC", [ir.field("a", ir.optional(R("CycA"))), ir.field("x", ir.map_(P("STRING"), P("DOUBLE")))], package=pkg),
        ir.object_("UseCycA", [ir.field("a", R("CycA"))], package=pkg),
        ir.object_("UseCycB", [ir.field("b", ir.optional(R("CycB")))], package=pkg),
        ir.union_("UseCycC", [ir.field("c", R("CycC")), ir.field("i", P("INTEGER"))], package=pkg),
        # the same pattern across packages (generation order between packages must not matter)
        ir.object_("Holder", [ir.field("node", ir.ref("Node", pkg + ".graph"))], package=pkg + ".store"),
        ir.object_("Node", [ir.field("peer", ir.optional(ir.ref("Peer", pkg + ".graph")))], package=pkg + ".graph"),
        ir.object_("Peer", [ir.field("node", ir.optional(ir.ref("Node", pkg + ".graph"))), ir.field("weight", P("DOUBLE"))], package=pkg + ".graph"),
        ir.object_("PeerHolder", [ir.field("peers", ir.list_(ir.ref("Peer", pkg + ".graph"))), ir.field("h", ir.optional(ir.ref("Holder", pkg + ".store")))], package=pkg + ".audit"),
        ir.union_("EmptyUnion", [], package=pkg),
        ir.object_("EmptyObject", [], package=pkg),
        ir.object_("AllPrims", [ir.field(n.lower() + "F", P(n)) for n in ("STRING", "INTEGER", "SAFELONG", "DOUBLE", "BOOLEAN", "UUID", "RID", "BEARERTOKEN", "DATETIME", "BINARY", "ANY")]
                   + [ir.field(n.lower() + "O", ir.optional(P(n))) for n in ("STRING", "DOUBLE", "BINARY", "ANY", "BEARERTOKEN")]
                   + [ir.field(n.lower() + "S", ir.set_(P(n))) for n in ("STRING", "DOUBLE", "INTEGER", "UUID", "RID", "BOOLEAN", "SAFELONG", "DATETIME", "BEARERTOKEN")]
                   + [ir.field(n.lower() + "K", ir.map_(P(n), P("ANY"))) for n in ("STRING", "DOUBLE", "INTEGER", "UUID", "RID", "BOOLEAN", "SAFELONG", "DATETIME", "BEARERTOKEN")], package=pkg),
        ir.object_("ManyRequired", [ir.field("f%d" % i, P("INTEGER")) for i in range(6)], package=pkg),
        ir.object_("DocsAndDeprecation", [dict(ir.field("old", P("STRING")), deprecated="use new", docs="Docs with `code` and */ comment end\n\n```\nfence\n```"),
                                          ir.field("newer", P("STRING"), docs="line1\nline2")], package=pkg),
    ]
    t[-1]["object"]["docs"] = "Type docs \"quoted\" \\ backslash"
    return ir.definition(types=t)


def services_ir(pkg="com.palantir.svc", set_double_query=True):
    R = lambda n: ir.ref(n, pkg)
    types = [ir.object_("Obj", [ir.field("a", P("INTEGER"))], package=pkg), ir.enum_("En", ["A", "B"], package=pkg),
             ir.alias_("StrAlias", P("STRING"), package=pkg), ir.alias_("IntAlias", P("INTEGER"), package=pkg), ir.alias_("DblAlias", P("DOUBLE"), package=pkg),
             ir.alias_("OptAlias", ir.optional(P("STRING")), package=pkg), ir.alias_("BinAlias", P("BINARY"), package=pkg),
             ir.alias_("OptBinAlias", ir.optional(P("BINARY")), package=pkg), ir.alias_("ListAlias", ir.list_(P("INTEGER")), package=pkg),
             ir.alias_("RidAlias", P("RID"), package=pkg), ir.alias_("UuidAlias", P("UUID"), package=pkg), ir.alias_("EnumAlias", R("En"), package=pkg),
             ir.alias_("ObjAlias", R("Obj"), package=pkg), ir.alias_("SetAlias", ir.set_(P("STRING")), package=pkg),
             ir.alias_("OptObjAlias", ir.optional(R("Obj")), package=pkg), ir.union_("Un", [ir.field("a", P("INTEGER"))], package=pkg)]
    plain = [("Str", P("STRING")), ("Int", P("INTEGER")), ("Long", P("SAFELONG")), ("Dbl", P("DOUBLE")), ("Bool", P("BOOLEAN")), ("Uuid", P("UUID")),
             ("Rid", P("RID")), ("Time", P("DATETIME")), ("En", R("En")), ("StrAlias", R("StrAlias")), ("IntAlias", R("IntAlias")),
             ("DblAlias", R("DblAlias")), ("RidAlias", R("RidAlias")), ("EnumAlias", R("EnumAlias"))]
    eps = []
    for n, t in plain:
        eps.append(ir.endpoint("path" + n, "GET", "/p%s/{v}/x/{w}" % n.lower(), [ir.arg("v", t, "path"), ir.arg("w", t, "path")], returns=t))
        eps.append(ir.endpoint("query" + n, "GET", "/q%s" % n.lower(), [ir.arg("one", t, "query", "one"), ir.arg("opt", ir.optional(t), "query", "opt"),
                                                                           ir.arg("lst", ir.list_(t), "query", "lst")]
                               + ([ir.arg("st", ir.set_(t), "query", "st")] if (set_double_query or n not in ("Dbl", "DblAlias")) else []),
                               returns=ir.optional(t)))
        eps.append(ir.endpoint("header" + n, "GET", "/h%s" % n.lower(), [ir.arg("one", t, "header", "X-One"), ir.arg("opt", ir.optional(t), "header", "X-Opt")],
                               returns=ir.list_(t)))
    bodies = [("Obj", R("Obj")), ("OptObj", ir.optional(R("Obj"))), ("List", ir.list_(R("Obj"))), ("Set", ir.set_(P("DOUBLE"))), ("Map", ir.map_(R("En"), R("Obj"))),
              ("Any", P("ANY")), ("Str", P("STRING")), ("Bin", P("BINARY")), ("BinAlias", R("BinAlias")), ("OptAlias", R("OptAlias")), ("Un", R("Un")),
              ("ObjAlias", R("ObjAlias")), ("OptObjAlias", R("OptObjAlias")), ("ListAlias", R("ListAlias")), ("SetAlias", R("SetAlias")), ("Dbl", P("DOUBLE")),
              ("OptBin", ir.optional(P("BINARY"))),
              # collections / optionals holding a bare double or any (no Eq / Ord / Hash on the element type)
              ("ListDbl", ir.list_(P("DOUBLE"))), ("OptDbl", ir.optional(P("DOUBLE"))), ("MapStrDbl", ir.map_(P("STRING"), P("DOUBLE"))),
              ("ListAny", ir.list_(P("ANY"))), ("OptAny", ir.optional(P("ANY"))), ("MapDblAny", ir.map_(P("DOUBLE"), P("ANY"))),
              ("OptListDbl", ir.optional(ir.list_(P("DOUBLE")))), ("DblAlias", R("DblAlias")), ("OptDblAlias", ir.optional(R("DblAlias")))]
    for n, t in bodies:
        if n != "OptBin":
            eps.append(ir.endpoint("body" + n, "POST", "/b%s" % n.lower(), [ir.arg("body", t, "body")], returns=None if n in ("Obj",) else t))
        eps.append(ir.endpoint("ret" + n, "GET", "/r%s" % n.lower(), [], returns=t))
    eps.append(ir.endpoint("retOptBinAlias", "GET", "/roba", [], returns=R("OptBinAlias")))
    eps.append(ir.endpoint("authHeader", "PUT", "/ah/{id}", [ir.arg("id", P("RID"), "path"), ir.arg("body", R("Obj"), "body")], returns=R("Obj"), auth="header"))
    eps.append(ir.endpoint("authCookie", "DELETE", "/ac/{id}", [ir.arg("id", P("UUID"), "path")], auth="PALANTIR_TOKEN"))
    eps.append(ir.endpoint("limited", "POST", "/lim", [ir.arg("body", R("Obj"), "body")], tags=["server-limit-request-size: 10mb"]))
    eps.append(ir.endpoint("safeArgs", "POST", "/safe/{p}", [ir.arg("p", P("STRING"), "path", safety="safe"), ir.arg("q", P("STRING"), "query", "q", markers=[ir.SAFE_MARKER]),
                                                           ir.arg("h", P("STRING"), "header", "H", tags=["safe"]), ir.arg("u", P("STRING"), "query", "u", safety="unsafe"),
                                                           ir.arg("d", P("BEARERTOKEN"), "header", "D", safety="dnl"), ir.arg("body", R("Obj"), "body")]))
    # every endpoint shape again with the request-context tag (an extra trait argument that borrows the response extensions)
    ctx = ["server-request-context"]
    eps.append(ir.endpoint("ctxPlain", "GET", "/ctx/plain", [], returns=P("STRING"), tags=ctx))
    eps.append(ir.endpoint("ctxSafeArgs", "POST", "/ctx/safe/{p}", [ir.arg("p", P("STRING"), "path", safety="safe"), ir.arg("q", ir.optional(P("INTEGER")), "query", "q", safety="safe"),
                                                                   ir.arg("h", P("STRING"), "header", "H", tags=["safe"]), ir.arg("u", P("STRING"), "query", "u"),
                                                                   ir.arg("body", R("En"), "body")], returns=ir.list_(R("Obj")), tags=ctx))
    eps.append(ir.endpoint("ctxSafeBody", "POST", "/ctx/safebody", [ir.arg("body", ir.optional(R("En")), "body", safety="safe")], tags=ctx))
    eps.append(ir.endpoint("ctxAuth", "PUT", "/ctx/auth/{id}", [ir.arg("id", P("RID"), "path", markers=[ir.SAFE_MARKER]), ir.arg("body", P("BINARY"), "body")],
                           returns=ir.optional(P("BINARY")), auth="header", tags=ctx))
    eps.append(ir.endpoint("ctxCookieLimited", "POST", "/ctx/cookie", [ir.arg("body", R("Obj"), "body")], returns=P("BINARY"), auth="PALANTIR_TOKEN",
                           tags=ctx + ["server-limit-request-size: 1 MiB"]))
    eps.append(ir.endpoint("ctxUnsafeOnly", "GET", "/ctx/unsafe", [ir.arg("a", ir.set_(P("STRING")), "query", "a"), ir.arg("b", ir.optional(P("UUID")), "header", "B")], tags=ctx))
    eps.append(ir.endpoint("regexPath", "GET", "/files/{path:.+}", [ir.arg("path", P("STRING"), "path")], returns=P("STRING")))
    dep = ir.endpoint("deprecatedEndpoint", "GET", "/dep", [], returns=P("STRING"))
    dep["deprecated"] = "use something else"
    dep["docs"] = "Endpoint docs"
    eps.append(dep)
    svc = ir.service("Everything", eps, package=pkg)
    svc["docs"] = "Service docs"
    empty = ir.service("EmptyService", [], package=pkg)
    # services in which a shape occurs ONLY behind an alias (no literal twin in the same service to mask a missed dealiasing)
    # external references (compiled as their fallback) in every parameter and body position
    X = lambda t, n: ir.external(t, name=n)
    ext = ir.service("ExternalArgs", [
        ir.endpoint("q", "GET", "/ext/q/{p}", [ir.arg("p", X(P("STRING"), "ExtStr"), "path"), ir.arg("one", X(P("INTEGER"), "ExtInt"), "query", "one"),
                                               ir.arg("lst", X(ir.list_(P("STRING")), "ExtList"), "query", "lst"), ir.arg("st", X(ir.set_(P("INTEGER")), "ExtSet"), "query", "st"),
                                               ir.arg("opt", X(ir.optional(P("STRING")), "ExtOpt"), "query", "opt"),
                                               ir.arg("h", X(ir.optional(P("RID")), "ExtOptRid"), "header", "X-H"), ir.arg("h2", X(P("UUID"), "ExtUuid"), "header", "X-H2")],
                    returns=X(ir.list_(P("STRING")), "ExtList")),
        ir.endpoint("b", "POST", "/ext/b", [ir.arg("body", X(P("BINARY"), "ExtBin"), "body")], returns=X(ir.optional(P("BINARY")), "ExtOptBin")),
        ir.endpoint("o", "POST", "/ext/o", [ir.arg("body", X(ir.optional(R("Obj")), "ExtOptObj"), "body")], returns=X(ir.set_(P("STRING")), "ExtSetStr")),
        ir.endpoint("m", "POST", "/ext/m", [ir.arg("body", X(ir.map_(P("STRING"), P("DOUBLE")), "ExtMap"), "body")], returns=X(R("En"), "ExtEn")),
    ], package=pkg)
    alias_only = ir.service("AliasOnly", [
        ir.endpoint("binBody", "POST", "/ao/bin", [ir.arg("body", R("BinAlias"), "body")], returns=R("BinAlias")),
        ir.endpoint("optBinRet", "GET", "/ao/optbin", [], returns=R("OptBinAlias")),
        ir.endpoint("optBody", "POST", "/ao/opt", [ir.arg("body", R("OptObjAlias"), "body")], returns=R("OptAlias")),
        ir.endpoint("listRet", "GET", "/ao/list/{p}", [ir.arg("p", R("RidAlias"), "path"), ir.arg("q", R("OptAlias"), "query", "q"),
                                                       ir.arg("s", R("SetAlias"), "query", "s"), ir.arg("h", R("OptAlias"), "header", "H")], returns=R("ListAlias")),
    ], package=pkg)
    return ir.definition(types=types, services=[svc, empty, alias_only, ext], errors=[
        ir.error("E1", "Svc", "NOT_FOUND", [ir.field("id", P("RID")), ir.field("obj", R("Obj"))], [ir.field("d", P("DOUBLE")), ir.field("o", ir.optional(P("STRING")))], package=pkg),
        ir.error("NoArgs", "Svc", "INTERNAL", [], [], package=pkg)])


def modules_ir(case, k):
    """IR for a (def, prefix) case of spec/MCModules.tla: every item is a type in its package that refers to the next one"""
    items = case["def"]
    types, services = [], []
    n = len(items)

    def tref(j):
        return ir.ref(items[j]["name"], ".".join(items[j]["pkg"]))
    for i, it in enumerate(items):
        pkg = ".".join(it["pkg"])
        nxt = tref((i + 1) % n)
        kind = (i + k) % 4
        if kind == 0:
            types.append(ir.object_(it["name"], [ir.field("next", ir.optional(nxt)), ir.field("all", ir.list_(tref(0)))], package=pkg))
        elif kind == 1:
            types.append(ir.union_(it["name"], [ir.field("next", nxt), ir.field("n", ir.prim("INTEGER"))], package=pkg))
        elif kind == 2:
            types.append(ir.object_(it["name"], [ir.field("m", ir.map_(ir.prim("STRING"), nxt)), ir.field("d", ir.prim("DOUBLE"))], package=pkg))
        else:
            types.append(ir.alias_(it["name"], ir.optional(nxt) if n > 1 else ir.prim("STRING"), package=pkg))
    # a service and an error in the first item's package referring to every type
    pkg0 = ".".join(items[0]["pkg"])
    eps = [ir.endpoint("get%d" % i, "POST", "/t/%d" % i, [ir.arg("body", tref(i), "body")], returns=ir.optional(tref((i + 1) % n))) for i in range(n)]
    services.append(ir.service("Svc%d" % k, eps, package=pkg0))
    errors = [ir.error("Err%d" % k, "Mods", "CONFLICT", [ir.field("t", ir.optional(tref(0)))], [], package=pkg0)]
    return ir.definition(types=types, services=services, errors=errors)


def known_bad_irs():
    """definitions that hit recorded generator limitations (known findings of C03); name -> (ir, config, signature)"""
    R = lambda n, p="com.kb": ir.ref(n, p)
    out = {}
    out["module-clash"] = (ir.definition(types=[ir.object_("Foo", [ir.field("a", P("INTEGER"))], package="com.kb.p"),
                                                ir.object_("Inner", [ir.field("f", ir.optional(ir.ref("Foo", "com.kb.p")))], package="com.kb.p.foo")]),
                           {}, "C03:compile:known:module-clash")
    out["builder-type"] = (ir.definition(types=[ir.object_("Builder", [ir.field("a", P("INTEGER"))], package="com.kb")]), {}, "C03:compile:known:builder-type")
    out["builder-field"] = (ir.definition(types=[ir.object_("HasBuilderField", [ir.field("builder", P("INTEGER")), ir.field("build", P("STRING"))], package="com.kb")]),
                            {}, "C03:compile:known:builder-field")
    out["enum-variant-clash"] = (ir.definition(types=[ir.enum_("Proto", ["HTTP_1", "HTTP1", "OTHER"], package="com.kb")]), {}, "C03:compile:known:enum-variant-clash")
    return out


def crate_irs():
    """definitions for full-crate output: each mix of types / errors / services decides which runtime crates the manifest needs"""
    pkg = "com.palantir.crt"
    R = lambda n: ir.ref(n, pkg)
    obj = ir.object_("Thing", [ir.field("id", P("RID")), ir.field("when", ir.optional(P("DATETIME"))), ir.field("d", ir.list_(P("DOUBLE")))], package=pkg)
    en = ir.enum_("Kind", ["A", "B"], package=pkg)
    err_prims = ir.error("Oops", "Crt", "NOT_FOUND", [ir.field("id", P("RID")), ir.field("n", P("INTEGER"))], [ir.field("t", P("BEARERTOKEN")), ir.field("u", ir.optional(P("UUID")))], package=pkg)
    err_types = ir.error("OopsThing", "Crt", "CONFLICT", [ir.field("k", R("Kind"))], [ir.field("thing", ir.optional(R("Thing")))], package=pkg)

    def svc(with_types):
        t = R("Thing") if with_types else P("STRING")
        eps = [ir.endpoint("get", "GET", "/a/{id}", [ir.arg("id", P("RID"), "path"), ir.arg("u", ir.optional(P("UUID")), "query", "u"),
                                                     ir.arg("t", P("DATETIME"), "header", "T"), ir.arg("s", ir.set_(P("DOUBLE")), "query", "s")], returns=t, auth="header"),
               ir.endpoint("put", "POST", "/b", [ir.arg("body", P("BINARY"), "body")], returns=ir.optional(P("BINARY")), auth="COOKIE"),
               ir.endpoint("any", "POST", "/c", [ir.arg("body", P("ANY"), "body")], returns=ir.map_(P("STRING"), P("SAFELONG")))]
        return ir.service("Only", eps, package=pkg)
    return {
        "types": ir.definition(types=[obj, en]),
        "errors": ir.definition(errors=[err_prims]),
        "services": ir.definition(services=[svc(False)]),
        "types_errors": ir.definition(types=[obj, en], errors=[err_prims, err_types]),
        "services_errors": ir.definition(services=[svc(False)], errors=[err_prims]),
        "all": ir.definition(types=[obj, en], services=[svc(True)], errors=[err_types]),
    }
