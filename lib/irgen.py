"""Builders for Conjure IR (version 1) JSON documents, used to concretise abstract TLC cases."""

PKG = "com.palantir.verif"


def prim(name):
    return {"type": "primitive", "primitive": name}


def ref(name, package=PKG):
    return {"type": "reference", "reference": {"name": name, "package": package}}


def optional(t):
    return {"type": "optional", "optional": {"itemType": t}}


def list_(t):
    return {"type": "list", "list": {"itemType": t}}


def set_(t):
    return {"type": "set", "set": {"itemType": t}}


def map_(k, v):
    return {"type": "map", "map": {"keyType": k, "valueType": v}}


def external(fallback, name="Ext", package="com.example.ext"):
    return {"type": "external", "external": {"externalReference": {"name": name, "package": package},
                                             "fallback": fallback}}


SAFE_MARKER = external(prim("ANY"), "Safe", "com.palantir.logsafe")

SAFETY = {"safe": "SAFE", "unsafe": "UNSAFE", "dnl": "DO_NOT_LOG"}


def tname(name, package=PKG):
    return {"name": name, "package": package}


def field(name, ty, safety=None, docs=None):
    f = {"fieldName": name, "type": ty}
    if safety:
        f["safety"] = SAFETY.get(safety, safety)
    if docs:
        f["docs"] = docs
    return f


def object_(name, fields, package=PKG):
    return {"type": "object", "object": {"typeName": tname(name, package), "fields": fields}}


def union_(name, fields, package=PKG):
    return {"type": "union", "union": {"typeName": tname(name, package), "union": fields}}


def enum_(name, values, package=PKG):
    return {"type": "enum", "enum": {"typeName": tname(name, package), "values": [{"value": v} for v in values]}}


def alias_(name, ty, safety=None, package=PKG):
    a = {"typeName": tname(name, package), "alias": ty}
    if safety:
        a["safety"] = SAFETY.get(safety, safety)
    return {"type": "alias", "alias": a}


def arg(name, ty, kind, param_id=None, safety=None, markers=None, tags=None):
    if kind == "body":
        pt = {"type": "body", "body": {}}
    elif kind == "path":
        pt = {"type": "path", "path": {}}
    elif kind == "query":
        pt = {"type": "query", "query": {"paramId": param_id or name}}
    elif kind == "header":
        pt = {"type": "header", "header": {"paramId": param_id or name}}
    else:
        raise ValueError(kind)
    a = {"argName": name, "type": ty, "paramType": pt, "markers": markers or [], "tags": tags or []}
    if safety:
        a["safety"] = SAFETY.get(safety, safety)
    return a


def endpoint(name, method, path, args, returns=None, auth=None, tags=None, markers=None):
    e = {"endpointName": name, "httpMethod": method, "httpPath": path, "args": args,
         "markers": markers or [], "tags": tags or []}
    if returns is not None:
        e["returns"] = returns
    if auth == "header":
        e["auth"] = {"type": "header", "header": {}}
    elif auth:
        e["auth"] = {"type": "cookie", "cookie": {"cookieName": auth}}
    return e


def service(name, endpoints, package=PKG):
    return {"serviceName": tname(name, package), "endpoints": endpoints}


def error(name, namespace, code, safe_args, unsafe_args, package=PKG):
    return {"errorName": tname(name, package), "namespace": namespace, "code": code,
            "safeArgs": safe_args, "unsafeArgs": unsafe_args}


def definition(types=(), services=(), errors=()):
    return {"version": 1, "errors": list(errors), "types": list(types), "services": list(services),
            "extensions": {}}
