"""Hand-designed additions to the generated-code zoo (types for C12/C14/C17, services for C04/C09/C19)."""
import irgen as ir

PKG = "com.palantir.verif"
PLAIN_PRIMS = {"Str": "STRING", "Int": "INTEGER", "Long": "SAFELONG", "Dbl": "DOUBLE", "Bool": "BOOLEAN", "Uuid": "UUID",
               "Rid": "RID", "Tok": "BEARERTOKEN", "Bin": "BINARY", "Time": "DATETIME"}


def types():
    out = []
    # C12: aliases of every PLAIN primitive (and an alias of an alias)
    for n, p in PLAIN_PRIMS.items():
        out.append(ir.alias_("Pl" + n, ir.prim(p), package=PKG))
    out.append(ir.alias_("PlPlStr", ir.ref("PlStr", PKG), package=PKG))
    out.append(ir.alias_("PlPlDbl", ir.ref("PlDbl", PKG), package=PKG))
    # C14: doubles at every position
    out.append(ir.object_("DoubleLeaf", [ir.field("x", ir.prim("DOUBLE"))], package=PKG))
    out.append(ir.object_("DoubleBag", [
        ir.field("d", ir.prim("DOUBLE")),
        ir.field("od", ir.optional(ir.prim("DOUBLE"))),
        ir.field("ld", ir.list_(ir.prim("DOUBLE"))),
        ir.field("sd", ir.set_(ir.prim("DOUBLE"))),
        ir.field("md", ir.map_(ir.prim("STRING"), ir.prim("DOUBLE"))),
        ir.field("kd", ir.map_(ir.prim("DOUBLE"), ir.prim("STRING"))),
        ir.field("nested", ir.optional(ir.ref("DoubleLeaf", PKG))),
        ir.field("u", ir.optional(ir.ref("Shape", PKG))),
        ir.field("ad", ir.optional(ir.ref("PlDbl", PKG))),
        ir.field("lod", ir.list_(ir.optional(ir.prim("DOUBLE")))),
        ir.field("mld", ir.map_(ir.prim("STRING"), ir.list_(ir.prim("DOUBLE")))),
    ], package=PKG))
    out.append(ir.union_("DoubleUnion", [ir.field("d", ir.prim("DOUBLE")), ir.field("l", ir.list_(ir.prim("DOUBLE"))),
                                         ir.field("leaf", ir.ref("DoubleLeaf", PKG)), ir.field("s", ir.prim("STRING")),
                                         ir.field("o", ir.optional(ir.prim("DOUBLE")))], package=PKG))
    # a recursive type holding doubles (has_double's cycle-breaking memo)
    out.append(ir.object_("RecA", [ir.field("b", ir.optional(ir.ref("RecB", PKG))), ir.field("n", ir.prim("INTEGER"))], package=PKG))
    out.append(ir.object_("RecB", [ir.field("a", ir.optional(ir.ref("RecA", PKG))), ir.field("d", ir.prim("DOUBLE"))], package=PKG))
    return out


def services():
    return []


ERR_CLASSES = [("String", lambda: ir.prim("STRING")), ("Int", lambda: ir.prim("INTEGER")), ("Long", lambda: ir.prim("SAFELONG")),
               ("Double", lambda: ir.prim("DOUBLE")), ("Bool", lambda: ir.prim("BOOLEAN")), ("Uuid", lambda: ir.prim("UUID")),
               ("Rid", lambda: ir.prim("RID")), ("Enum", lambda: ir.ref("Color", PKG)), ("Opt", lambda: ir.optional(ir.prim("STRING"))),
               ("List", lambda: ir.list_(ir.prim("STRING"))), ("Map", lambda: ir.map_(ir.prim("STRING"), ir.prim("INTEGER"))),
               ("Obj", lambda: ir.ref("Inner", PKG)), ("Bin", lambda: ir.prim("BINARY")), ("Time", lambda: ir.prim("DATETIME"))]


def errors():
    return [
        ir.error("ErrAll", "Verif", "INVALID_ARGUMENT", [ir.field("s" + n, t()) for n, t in ERR_CLASSES],
                 [ir.field("u" + n, t()) for n, t in ERR_CLASSES], package=PKG),
        ir.error("ErrEmpty", "Verif", "NOT_FOUND", [], [], package=PKG),
        ir.error("ErrOptOnly", "Verif", "CONFLICT", [ir.field("so", ir.optional(ir.prim("STRING")))],
                 [ir.field("us", ir.prim("STRING"))], package=PKG),
        ir.error("ErrSorted", "Other", "CUSTOM_CLIENT", [ir.field("zeta", ir.prim("STRING")), ir.field("alpha", ir.prim("STRING")),
                                                          ir.field("mid", ir.prim("INTEGER"))],
                 [ir.field("beta", ir.prim("STRING"))], package=PKG),
        ir.error("ErrKeyword", "Verif", "TIMEOUT", [ir.field("type", ir.prim("STRING")), ir.field("fooBar", ir.prim("INTEGER"))],
                 [ir.field("self", ir.prim("STRING")), ir.field("snake_case", ir.list_(ir.prim("INTEGER")))], package=PKG),
    ]


def error_types():
    return ["ErrAll", "ErrEmpty", "ErrOptOnly", "ErrSorted", "ErrKeyword"]


def wire_types():
    return ["DoubleBag", "DoubleLeaf", "DoubleUnion", "RecA", "RecB"]


def order_types():
    return ["DoubleBag", "DoubleLeaf", "DoubleUnion", "RecA", "RecB", "PlDbl", "PlPlDbl", "PlStr"]


def plain_types():
    return ["Pl" + n for n in PLAIN_PRIMS] + ["PlPlStr", "PlPlDbl"]
