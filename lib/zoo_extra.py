"""Hand-designed additions to the generated-code zoo (types for C12/C14/C17, services for C04/C09/C19)."""
import irgen as ir

PKG = "com.palantir.verif"
PLAIN_PRIMS = {"Str": "STRING", "Int": "INTEGER", "Long": "SAFELONG", "Dbl": "DOUBLE", "Bool": "BOOLEAN", "Uuid": "UUID",
               "Rid": "RID", "Tok": "BEARERTOKEN", "Bin": "BINARY", "Time": "DATETIME"}


def types():
    out = []
    # C12: aliases of every PLAIN primitive (and an alias of an alias)
    for n, p in PLAIN_PRIMS.items():
        out.append(ir.alias_("Pl" + n, ir.prim(p), package=PKG))
    out.append(ir.alias_("PlPlStr", ir.ref("PlStr", PKG), package=PKG))
    out.append(ir.alias_("PlPlDbl", ir.ref("PlDbl", PKG), package=PKG))
    # C14: doubles at every position
    out.append(ir.object_("DoubleLeaf", [ir.field("x", ir.prim("DOUBLE"))], package=PKG))
    out.append(ir.object_("DoubleBag", [
        ir.field("d", ir.prim("DOUBLE")),
        ir.field("od", ir.optional(ir.prim("DOUBLE"))),
        ir.field("ld", ir.list_(ir.prim("DOUBLE"))),
        ir.field("sd", ir.set_(ir.prim("DOUBLE"))),
        ir.field("md", ir.map_(ir.prim("STRING"), ir.prim("DOUBLE"))),
        ir.field("kd", ir.map_(ir.prim("DOUBLE"), ir.prim("STRING"))),
        ir.field("nested", ir.optional(ir.ref("DoubleLeaf", PKG))),
        ir.field("u", ir.optional(ir.ref("Shape", PKG))),
        ir.field("ad", ir.optional(ir.ref("PlDbl", PKG))),
        ir.field("lod", ir.list_(ir.optional(ir.prim("DOUBLE")))),
        ir.field("mld", ir.map_(ir.prim("STRING"), ir.list_(ir.prim("DOUBLE")))),
    ], package=PKG))
    out.append(ir.union_("DoubleUnion", [ir.field("d", ir.prim("DOUBLE")), ir.field("l", ir.list_(ir.prim("DOUBLE"))),
                                         ir.field("leaf", ir.ref("DoubleLeaf", PKG)), ir.field("s", ir.prim("STRING")),
                                         ir.field("o", ir.optional(ir.prim("DOUBLE")))], package=PKG))
    # every key type of the data model the shape universe does not draw, as map keys and set elements of generated types
    # (BTreeMap / BTreeSet use the runtime types' own Ord impls)
    pr = ir.prim
    out.append(ir.object_("KeyZoo", [
        ir.field("mr", ir.map_(pr("RID"), pr("INTEGER"))), ir.field("mt", ir.map_(pr("BEARERTOKEN"), pr("INTEGER"))),
        ir.field("md", ir.map_(pr("DATETIME"), pr("INTEGER"))), ir.field("ml", ir.map_(pr("SAFELONG"), pr("INTEGER"))),
        ir.field("mb", ir.map_(pr("BINARY"), pr("INTEGER"))), ir.field("ma", ir.map_(ir.ref("PlStr", PKG), pr("INTEGER"))),
        ir.field("mai", ir.map_(ir.ref("PlInt", PKG), pr("STRING"))), ir.field("mal", ir.map_(ir.ref("PlLong", PKG), pr("STRING"))),
        ir.field("sr", ir.set_(pr("RID"))), ir.field("sl", ir.set_(pr("SAFELONG"))), ir.field("su", ir.set_(pr("UUID"))),
        ir.field("st", ir.set_(pr("DATETIME"))), ir.field("sk", ir.set_(pr("BEARERTOKEN"))), ir.field("sb", ir.set_(pr("BINARY"))),
        ir.field("sa", ir.set_(ir.ref("PlInt", PKG))), ir.field("sbool", ir.set_(pr("BOOLEAN"))),
        ir.field("se", ir.set_(ir.ref("Grammar", PKG))), ir.field("sar", ir.set_(ir.ref("PlRid", PKG))),
        ir.field("sobj", ir.set_(ir.ref("DoubleSeq", PKG))), ir.field("mobj", ir.map_(ir.ref("PlStr", PKG), ir.ref("DoubleSeq", PKG))),
    ], package=PKG))
    out.append(ir.object_("DoubleSeq", [ir.field("l", ir.list_(ir.prim("DOUBLE"))), ir.field("o", ir.optional(ir.prim("DOUBLE")))], package=PKG))
    out.append(ir.alias_("OptStrAlias", ir.optional(ir.prim("STRING")), package=PKG))
    out.append(ir.alias_("OptInnerAlias", ir.optional(ir.ref("Inner", PKG)), package=PKG))
    out.append(ir.alias_("SafeStr", ir.prim("STRING"), safety="safe", package=PKG))
    out.append(ir.object_("SafeObj", [ir.field("a", ir.prim("STRING"), "safe"), ir.field("c", ir.ref("Color", PKG))], package=PKG))
    # a recursive type holding doubles (has_double's cycle-breaking memo)
    out.append(ir.object_("RecA", [ir.field("b", ir.optional(ir.ref("RecB", PKG))), ir.field("n", ir.prim("INTEGER"))], package=PKG))
    out.append(ir.object_("RecB", [ir.field("a", ir.optional(ir.ref("RecA", PKG))), ir.field("d", ir.prim("DOUBLE"))], package=PKG))
    return out


def P(n):
    return ir.prim(n)


def services():
    R = lambda n: ir.ref(n, PKG)
    eps = [
        # C04/C07: every PLAIN type as a path parameter, with literals in between
        ir.endpoint("pathParams", "GET", "/m/path/{s}/lit/{i}/{d}/{b}/{u}/{r}/{l}/{t}/{e}/{a}", [
            ir.arg("s", P("STRING"), "path"), ir.arg("i", P("INTEGER"), "path"), ir.arg("d", P("DOUBLE"), "path"),
            ir.arg("b", P("BOOLEAN"), "path"), ir.arg("u", P("UUID"), "path"), ir.arg("r", P("RID"), "path"),
            ir.arg("l", P("SAFELONG"), "path"), ir.arg("t", P("DATETIME"), "path"), ir.arg("e", R("Color"), "path"),
            ir.arg("a", R("PlStr"), "path")], returns=P("STRING")),
        ir.endpoint("queryParams", "GET", "/m/query", [
            ir.arg("qs", P("STRING"), "query", "qs"), ir.arg("qo", ir.optional(P("INTEGER")), "query", "q-opt"),
            ir.arg("ql", ir.list_(P("DOUBLE")), "query", "ql"), ir.arg("qset", ir.set_(P("STRING")), "query", "qset"),
            ir.arg("qe", ir.optional(R("Color")), "query", "qe"), ir.arg("qa", ir.optional(R("PlDbl")), "query", "qa"),
            ir.arg("qoa", R("OptStrAlias"), "query", "qoa"), ir.arg("qb", ir.list_(P("BOOLEAN")), "query", "qb")], returns=P("STRING")),
        ir.endpoint("headers", "GET", "/m/headers", [
            ir.arg("hs", P("STRING"), "header", "X-Str"), ir.arg("ho", ir.optional(P("INTEGER")), "header", "X-Opt"),
            ir.arg("hu", P("UUID"), "header", "X-Uuid"), ir.arg("ha", R("PlStr"), "header", "X-Alias"),
            ir.arg("he", ir.optional(R("Color")), "header", "X-Enum"), ir.arg("hd", P("DOUBLE"), "header", "X-Dbl")], returns=P("STRING")),
        # a handler that also receives the request context (server-request-context); an alias of optional as a header argument
        ir.endpoint("ctxCall", "GET", "/m/ctx/{p}", [ir.arg("p", P("STRING"), "path"), ir.arg("hoa", R("OptStrAlias"), "header", "X-OptAlias"),
                                                    ir.arg("q", ir.optional(P("STRING")), "query", "q")],
                    returns=P("STRING"), tags=["server-request-context"]),
        ir.endpoint("authHeader", "GET", "/m/auth", [ir.arg("q", P("STRING"), "query", "q")], returns=P("STRING"), auth="header"),
        ir.endpoint("authCookie", "GET", "/m/cookie", [], returns=P("STRING"), auth="sid"),
        ir.endpoint("jsonBody", "POST", "/m/body", [ir.arg("body", R("DoubleBag"), "body")], returns=R("DoubleBag")),
        ir.endpoint("optBody", "POST", "/m/optbody", [ir.arg("body", ir.optional(R("Inner")), "body")], returns=ir.optional(R("Inner"))),
        ir.endpoint("aliasOptBody", "POST", "/m/aliasoptbody", [ir.arg("body", R("OptInnerAlias"), "body")], returns=R("OptInnerAlias")),
        ir.endpoint("listReturn", "GET", "/m/list", [ir.arg("n", P("INTEGER"), "query", "n")], returns=ir.list_(P("STRING"))),
        ir.endpoint("setReturn", "GET", "/m/set", [ir.arg("n", P("INTEGER"), "query", "n")], returns=ir.set_(P("DOUBLE"))),
        ir.endpoint("mapReturn", "GET", "/m/map", [ir.arg("n", P("INTEGER"), "query", "n")], returns=ir.map_(P("STRING"), P("DOUBLE"))),
        ir.endpoint("binaryBody", "POST", "/m/bin", [ir.arg("body", P("BINARY"), "body")], returns=P("BINARY")),
        ir.endpoint("optBinaryReturn", "GET", "/m/optbin", [ir.arg("n", P("INTEGER"), "query", "n")], returns=ir.optional(P("BINARY"))),
        ir.endpoint("unit", "POST", "/m/unit", [ir.arg("body", P("STRING"), "body")]),
        ir.endpoint("limited", "POST", "/m/limited", [ir.arg("body", P("STRING"), "body")], returns=P("STRING"),
                    tags=["server-limit-request-size: 48b"]),
        # C09 / C19: every mix of safe and non-safe arguments; names whose Rust spelling differs
        ir.endpoint("safeMix", "POST", "/m/safe/{safePath}/{unsafePath}", [
            ir.arg("safePath", P("STRING"), "path", safety="safe"), ir.arg("unsafePath", P("STRING"), "path"),
            ir.arg("safeQuery", P("STRING"), "query", "safeQuery", markers=[ir.SAFE_MARKER]),
            ir.arg("unsafeQuery", P("STRING"), "query", "unsafeQuery"),
            ir.arg("safeHeader", R("SafeStr"), "header", "X-Safe"), ir.arg("unsafeHeader", P("STRING"), "header", "X-Unsafe"),
            ir.arg("dnlQuery", ir.optional(P("STRING")), "query", "dnlQuery", safety="dnl"),
            ir.arg("safeInt", ir.optional(P("INTEGER")), "query", "safeInt", tags=["safe"]),
            ir.arg("body", R("Inner"), "body")], returns=P("STRING"), auth="header"),
        ir.endpoint("names", "GET", "/m/names/{type}/{fooBar}", [
            ir.arg("type", P("INTEGER"), "path"), ir.arg("fooBar", P("UUID"), "path"),
            ir.arg("async", P("INTEGER"), "query", "async"), ir.arg("camelCase", ir.optional(P("INTEGER")), "query", "camel-case"),
            ir.arg("self", P("INTEGER"), "header", "X-Self"), ir.arg("snakeArg", ir.list_(P("INTEGER")), "query", "snake_arg"),
            ir.arg("match", ir.optional(P("BOOLEAN")), "header", "X-Match")], returns=P("STRING")),
        # every query argument optional / a collection: the first written pair may be any of them
        # a typed single-valued path parameter behind a regex segment: a raw request can hand it several segments
        ir.endpoint("regexPath", "GET", "/m/re/{n:.+}", [ir.arg("n", P("INTEGER"), "path")], returns=P("STRING")),
        ir.endpoint("optQuery", "GET", "/m/optquery", [
            ir.arg("first", ir.optional(P("STRING")), "query", "first"), ir.arg("lst", ir.list_(P("INTEGER")), "query", "lst"),
            ir.arg("st", ir.set_(P("STRING")), "query", "st"), ir.arg("last", ir.optional(P("INTEGER")), "query", "last")],
            returns=P("STRING")),
        ir.endpoint("safeBody", "POST", "/m/safebody", [ir.arg("body", R("SafeObj"), "body"), ir.arg("n", P("INTEGER"), "query", "n")],
                    returns=P("STRING")),
    ]
    return [ir.service("Matrix", eps, package=PKG)]


ERR_CLASSES = [("String", lambda: ir.prim("STRING")), ("Int", lambda: ir.prim("INTEGER")), ("Long", lambda: ir.prim("SAFELONG")),
               ("Double", lambda: ir.prim("DOUBLE")), ("Bool", lambda: ir.prim("BOOLEAN")), ("Uuid", lambda: ir.prim("UUID")),
               ("Rid", lambda: ir.prim("RID")), ("Enum", lambda: ir.ref("Color", PKG)), ("Opt", lambda: ir.optional(ir.prim("STRING"))),
               ("List", lambda: ir.list_(ir.prim("STRING"))), ("Map", lambda: ir.map_(ir.prim("STRING"), ir.prim("INTEGER"))),
               ("Obj", lambda: ir.ref("Inner", PKG)), ("Bin", lambda: ir.prim("BINARY")), ("Time", lambda: ir.prim("DATETIME"))]


def errors():
    return [
        ir.error("ErrAll", "Verif", "INVALID_ARGUMENT", [ir.field("s" + n, t()) for n, t in ERR_CLASSES],
                 [ir.field("u" + n, t()) for n, t in ERR_CLASSES], package=PKG),
        ir.error("ErrEmpty", "Verif", "NOT_FOUND", [], [], package=PKG),
        ir.error("ErrOptOnly", "Verif", "CONFLICT", [ir.field("so", ir.optional(ir.prim("STRING")))],
                 [ir.field("us", ir.prim("STRING"))], package=PKG),
        ir.error("ErrSorted", "Other", "CUSTOM_CLIENT", [ir.field("zeta", ir.prim("STRING")), ir.field("alpha", ir.prim("STRING")),
                                                          ir.field("mid", ir.prim("INTEGER"))],
                 [ir.field("beta", ir.prim("STRING"))], package=PKG),
        ir.error("ErrKeyword", "Verif", "TIMEOUT", [ir.field("type", ir.prim("STRING")), ir.field("fooBar", ir.prim("INTEGER"))],
                 [ir.field("self", ir.prim("STRING")), ir.field("snake_case", ir.list_(ir.prim("INTEGER")))], package=PKG),
        # names whose Rust spelling differs from the declared one (case conversion of acronyms and digits)
        ir.error("IOError", "Verif", "INTERNAL", [ir.field("path", ir.prim("STRING"))], [], package=PKG),
        ir.error("A1B2Mismatch", "Verif", "FAILED_PRECONDITION", [], [ir.field("n", ir.prim("INTEGER"))], package=PKG),
    ]


def error_types():
    return ["ErrAll", "ErrEmpty", "ErrOptOnly", "ErrSorted", "ErrKeyword", "IoError", "A1b2Mismatch"]      # Rust type names


def wire_types():
    return ["DoubleBag", "DoubleLeaf", "DoubleUnion", "RecA", "RecB", "KeyZoo"]


def order_types():
    return ["DoubleBag", "DoubleLeaf", "DoubleUnion", "RecA", "RecB", "PlDbl", "PlPlDbl", "PlStr"]


def plain_types():
    return ["Pl" + n for n in PLAIN_PRIMS] + ["PlPlStr", "PlPlDbl"]
