"""Shared machinery of /verif/bin/check: TLC runs, harness builds, evidence, known findings.

Exit codes of a check: 0 = property held on everything explored (KNOWN-FINDING / MODEL-DRIFT lines allowed),
1 = VIOLATION line printed (with replay file), 2 = tool error / timeout (never reported as a violation).
"""
import hashlib
import json
import os
import re
import shutil
import subprocess
import sys
import time

VERIF = os.path.dirname(os.path.dirname(os.path.abspath(__file__)))
REPO = os.environ.get("VERIF_REPO", "/repo")
SPEC = os.path.join(VERIF, "spec")
OUT = os.path.join(VERIF, "out")
HARNESS = os.path.join(VERIF, "harness")
EVIDENCE = os.path.join(VERIF, "evidence")
KNOWN = os.path.join(VERIF, "known_findings.json")


class ToolError(Exception):
    pass


def log(*a):
    print(*a, file=sys.stderr, flush=True)


def seed_default():
    try:
        return int(os.environ.get("VERIF_SEED", "1"))
    except ValueError:
        return 1


def outdir(pid, *sub):
    d = os.path.join(OUT, pid, *sub)
    os.makedirs(d, exist_ok=True)
    return d


def fresh_dir(path):
    shutil.rmtree(path, ignore_errors=True)
    os.makedirs(path, exist_ok=True)
    return path


# ------------------------------------------------------------------------------------------------
# TLC


class TlcResult:
    def __init__(self):
        self.rc = None
        self.stdout = ""
        self.generated = 0
        self.distinct = 0
        self.depth = 0
        self.cases = []
        self.violated = []  # names of violated invariants / properties
        self.error = None  # tool-level problem (parse error, exception)
        self.coverage = {}  # action name -> (distinct, generated)
        self.wall_s = 0.0
        self.cmd = ""
        self.post_ok = None  # POSTCONDITION verdict (trace validation)
        self.prints = []  # other PrintT tuples (decoded)


_CASE = re.compile(r'^<<"([A-Z]+)", (".*")>>$')
_STATS = re.compile(r"^(\d+) states generated, (\d+) distinct states found")
_DEPTH = re.compile(r"^The depth of the complete state graph search is (\d+)")
_INV = re.compile(r"^Error: Invariant (\S+) is violated")
_PROP = re.compile(r"^Error: (?:Action|Temporal) propert(?:y|ies) (\S*)")
_COV = re.compile(r"^<(\w+) line \d+, col \d+ to line \d+, col \d+ of module (\w+)>: (\d+):(\d+)")


def tlc(pid, module, cfg, workers=4, timeout_s=600, simulate=None, depth=None, seed=None,
        trace_file=None, deque=False, xmx="8g", coverage=True, extra_env=None, keep_cases=True):
    """Run TLC on spec/<module>.tla with spec/<cfg>.  Returns TlcResult."""
    md = fresh_dir(os.path.join(OUT, pid, "tlc-%s-%d" % (cfg.replace(".cfg", ""), os.getpid())))
    tmp = fresh_dir(md + "-tmp")
    jopts = "-Xss1g -Djava.io.tmpdir=%s" % tmp
    if deque:
        jopts += " -Dtlc2.tool.queue.IStateQueue=StateDeque"
    env = dict(os.environ)
    env["JAVA_TOOL_OPTIONS"] = jopts
    if trace_file:
        env["TRACE"] = trace_file
    if extra_env:
        env.update(extra_env)
    cmd = ["timeout", str(int(timeout_s)), "java", "-XX:+UseParallelGC", "-Xmx" + xmx, "-cp",
           "/opt/veriftools/tla/tla2tools.jar:/opt/veriftools/tla/CommunityModules-deps.jar", "tlc2.TLC",
           "-workers", str(workers), "-config", cfg, module + ".tla",
           "-metadir", md, "-cleanup", "-noGenerateSpecTE"]
    if coverage and not simulate:
        cmd += ["-coverage", "1"]
    if simulate:
        cmd += ["-simulate", "num=%d" % simulate]
        if depth:
            cmd += ["-depth", str(depth)]
    if seed is not None:
        cmd += ["-seed", str(seed)]
    r = TlcResult()
    r.cmd = " ".join(cmd[2:])
    t0 = time.time()
    p = subprocess.run(cmd, cwd=SPEC, env=env, stdout=subprocess.PIPE, stderr=subprocess.STDOUT, text=True)
    r.wall_s = time.time() - t0
    r.rc = p.returncode
    r.stdout = p.stdout
    shutil.rmtree(md, ignore_errors=True)
    shutil.rmtree(tmp, ignore_errors=True)
    other = []
    for line in p.stdout.splitlines():
        m = _CASE.match(line)
        if m:
            try:
                payload = json.loads(json.loads(m.group(2)))
            except Exception as e:  # pragma: no cover
                r.error = "undecodable %s line: %s" % (m.group(1), e)
                continue
            if m.group(1) == "CASE":
                if keep_cases:
                    r.cases.append(payload)
            else:
                r.prints.append((m.group(1), payload))
            continue
        other.append(line)
        m = _STATS.match(line)
        if m:
            r.generated, r.distinct = int(m.group(1)), int(m.group(2))
            continue
        m = _DEPTH.match(line)
        if m:
            r.depth = int(m.group(1))
            continue
        m = _INV.match(line)
        if m:
            r.violated.append(m.group(1))
            continue
        m = _PROP.match(line)
        if m:
            r.violated.append(m.group(1) or "property")
            continue
        m = _COV.match(line)
        if m:
            name = m.group(1)
            d, g = int(m.group(3)), int(m.group(4))
            od, og = r.coverage.get(name, (0, 0))
            r.coverage[name] = (max(od, d), max(og, g))
            continue
        if "POSTCONDITION" in line or "Postcondition" in line or "post-condition" in line.lower():
            if "violated" in line.lower() or "false" in line.lower():
                r.post_ok = False
    # TLC's workers print CASE lines in a scheduling-dependent order: a canonical order makes every later, seed-driven
    # choice among the cases reproducible
    r.cases.sort(key=lambda c: json.dumps(c, sort_keys=True))
    r.log = "\n".join(other)
    if r.rc == 124:
        r.error = "TLC timed out after %ds" % timeout_s
    elif r.rc not in (0, 12, 13) and not r.violated:
        # 12 = safety violation, 13 = liveness violation; anything else without a violation is a tool problem
        if r.post_ok is False:
            pass
        else:
            r.error = "TLC exit code %s: %s" % (r.rc, "\n".join(other[-25:]))
    if simulate and not r.generated:
        m = re.search(r"(\d+) states checked", p.stdout)
        if m:
            r.generated = r.distinct = int(m.group(1))
    return r


def require_actions(res, names):
    """Vacuity control: every action the property depends on must have been taken."""
    missing = [n for n in names if res.coverage.get(n, (0, 0))[1] == 0]
    if missing:
        raise ToolError("vacuous model run: action(s) never taken: %s" % ", ".join(missing))


# ------------------------------------------------------------------------------------------------
# Rust harness

_built = set()
TARGET = os.environ.get("VERIF_COV_TARGET") or os.path.join(HARNESS, "target")


def cargo_build(package="vh"):
    """Build the harness against /repo's current working tree (path dependencies)."""
    if package in _built:
        return
    t0 = time.time()
    env = dict(os.environ)
    env["CARGO_NET_OFFLINE"] = "true"
    if os.environ.get("VERIF_COV_TARGET"):      # coverage measurement of the checks themselves (bin/coverage): prebuilt, instrumented
        _built.add(package)
        return
    p = subprocess.run(["cargo", "build", "--offline", "-q", "-p", package], cwd=HARNESS, env=env,
                       stdout=subprocess.PIPE, stderr=subprocess.STDOUT, text=True)
    if p.returncode != 0:
        tail = "\n".join(l for l in p.stdout.splitlines() if "warning" not in l)[-4000:]
        raise ToolError("harness build failed (cargo build -p %s):\n%s" % (package, tail))
    _built.add(package)
    log("[build] %s %.1fs" % (package, time.time() - t0))


def harness(package, args, stdin=None, timeout_s=1800, env_extra=None):
    """Run a harness binary; returns stdout text.  Non-zero exit = tool error."""
    cargo_build(package)
    exe = os.path.join(TARGET, "debug", package)
    env = dict(os.environ)
    env.setdefault("RUST_BACKTRACE", "0")
    if env_extra:
        env.update(env_extra)
    try:
        p = subprocess.run([exe] + list(args), input=stdin, stdout=subprocess.PIPE, stderr=subprocess.PIPE,
                           text=True, timeout=timeout_s, env=env, cwd=VERIF)
    except subprocess.TimeoutExpired:
        raise ToolError("harness %s %s timed out" % (package, " ".join(args[:3])))
    if p.returncode != 0:
        raise ToolError("harness %s %s exited %d:\n%s" % (package, " ".join(args[:3]), p.returncode, p.stderr[-3000:]))
    return p.stdout


def harness_parallel(package, args, docs, nproc=8, timeout_s=1800):
    """Splits NDJSON input lines over nproc harness processes (cases are independent); returns concatenated stdout."""
    import concurrent.futures
    cargo_build(package)
    if len(docs) < 200 or nproc <= 1:
        return harness(package, args, stdin="\n".join(docs) + "\n", timeout_s=timeout_s)
    chunks = [docs[i::nproc] for i in range(nproc)]
    with concurrent.futures.ThreadPoolExecutor(max_workers=nproc) as ex:
        futs = [ex.submit(harness, package, args, "\n".join(c) + "\n", timeout_s,
                          {"VERIF_SCRATCH": os.path.join(OUT, "scratch", "p%d" % i)})
                for i, c in enumerate(chunks) if c]
        return "".join(f.result() for f in futs)


def ndjson(text):
    out = []
    for line in text.splitlines():
        line = line.strip()
        if line.startswith("{"):
            out.append(json.loads(line))
    return out


# ------------------------------------------------------------------------------------------------
# Known findings


def load_known():
    try:
        with open(KNOWN) as f:
            return json.load(f)
    except FileNotFoundError:
        return []


class Outcome:
    """Collects what a check run found; prints the interface lines and writes the evidence file."""
    current = None      # the Outcome of the running check (bin/check salvages established violations from it on a tool error)

    def __init__(self, pid, tier, seed, level):
        Outcome.current = self
        self.finished = False
        self.pid, self.tier, self.seed, self.level = pid, tier, seed, level
        self.t0 = time.time()
        self.violations = []  # dicts: signature, what, replay(dict)
        self.drift = []
        self.coverage = {}
        self.assumptions = []
        self.known_hit = {}
        self.notes = []

    def violation(self, signature, what, replay):
        """A property-level failure observed on the real code."""
        for v in self.violations:
            if v["signature"] == signature:
                v["count"] += 1
                return
        self.violations.append({"signature": signature, "what": what, "replay": replay, "count": 1})

    def model_drift(self, module, what):
        if len(self.drift) < 50:
            self.drift.append({"module": module, "what": what})

    def finish(self):
        self.finished = True
        if not self.coverage:       # only on the salvage path of bin/check: the run stopped before its coverage was assembled
            self.coverage = {"states": 0, "transitions": 0, "traces_validated_against_impl": 0, "evaluations": sum(v["count"] for v in self.violations),
                             "distinct_nontrivial": len(self.violations), "samples": [v["replay"] for v in self.violations[:2]], "exhaustive": False,
                             "rule": "incomplete run (tool error after violations were established)"}
        known = [k for k in load_known() if k.get("property") == self.pid and k.get("status") == "known"]
        rc = 0
        unknown = 0
        os.makedirs(os.path.join(OUT, "replay"), exist_ok=True)
        for v in self.violations:
            k = next((k for k in known if k["signature"] == v["signature"]), None)
            if k is not None:
                print("KNOWN-FINDING: property=%s %s [%s]" % (self.pid, k.get("what", v["what"]), v["signature"]))
                self.known_hit[v["signature"]] = v["count"]
                continue
            unknown += 1
            h = hashlib.sha1(json.dumps(v["replay"], sort_keys=True, default=str).encode()).hexdigest()[:12]
            path = os.path.join(OUT, "replay", "%s-%s.json" % (self.pid, h))
            with open(path, "w") as f:
                json.dump({"property": self.pid, "tier": self.tier, "seed": self.seed, "signature": v["signature"],
                           "what": v["what"], "case": v["replay"]}, f, indent=1, default=str)
            print("VIOLATION property=%s replay=%s" % (self.pid, path))
            print("  signature=%s  %s  (x%d)" % (v["signature"], v["what"], v["count"]))
            rc = 1
        for d in self.drift[:10]:
            print("MODEL-DRIFT %s %s" % (d["module"], d["what"]))
        ev = {
            "property_id": self.pid,
            "tier": self.tier,
            "seed": self.seed,
            "level": self.level,
            "coverage": self.coverage,
            "assumptions": self.assumptions,
            "wall_s": round(time.time() - self.t0, 2),
            "violations": unknown,
            "known_findings_hit": self.known_hit,
            "model_drift": self.drift,
            "notes": self.notes,
        }
        os.makedirs(EVIDENCE, exist_ok=True)
        with open(os.path.join(EVIDENCE, self.pid + ".json"), "w") as f:
            json.dump(ev, f, indent=1, default=str)
            f.write("\n")
        print("%s %s tier=%s seed=%d wall=%.1fs violations=%d known=%d drift=%d" % (
            "OK" if rc == 0 else "FAIL", self.pid, self.tier, self.seed, ev["wall_s"], unknown, len(self.known_hit),
            len(self.drift)))
        return rc


class Rng:
    """Deterministic splitmix64 so that every random choice derives from VERIF_SEED."""

    def __init__(self, seed):
        self.s = (seed * 0x9E3779B97F4A7C15 + 0x1234567) & 0xFFFFFFFFFFFFFFFF

    def next(self):
        self.s = (self.s + 0x9E3779B97F4A7C15) & 0xFFFFFFFFFFFFFFFF
        z = self.s
        z = ((z ^ (z >> 30)) * 0xBF58476D1CE4E5B9) & 0xFFFFFFFFFFFFFFFF
        z = ((z ^ (z >> 27)) * 0x94D049BB133111EB) & 0xFFFFFFFFFFFFFFFF
        return z ^ (z >> 31)

    def below(self, n):
        return self.next() % n

    def choice(self, xs):
        return xs[self.below(len(xs))]

    def chance(self, num, den):
        return self.below(den) < num

    def shuffle(self, xs):
        xs = list(xs)
        for i in range(len(xs) - 1, 0, -1):
            j = self.below(i + 1)
            xs[i], xs[j] = xs[j], xs[i]
        return xs

    def sample(self, xs, k):
        return self.shuffle(xs)[:k]


def validate_trace(pid, module, cfg, trace_path, nlines, timeout_s=900, xmx="4g"):
    """Runs a Trace*.tla spec over a recorded NDJSON log.  Returns (tlc_result, prop_fail_lines, mech_fail_lines).
    The trace specs print PROPFAIL / MECHFAIL tuples (payload has .line) instead of blocking, and UNMATCHED when a
    line could not be consumed; acceptance = every line consumed (diameter = lines + 1)."""
    if nlines == 0:
        raise ToolError("empty trace for %s: nothing recorded" % module)
    tr = tlc(pid, module, cfg, workers=1, timeout_s=timeout_s, trace_file=trace_path, deque=True, coverage=False,
             xmx=xmx)
    prop, mech = [], []
    for kind, payload in tr.prints:
        if kind == "PROPFAIL":
            prop.append(payload)
        elif kind == "MECHFAIL":
            mech.append(payload)
        elif kind == "UNMATCHED":
            raise ToolError("%s: trace not consumed at line %s" % (module, payload.get("line")))
    if tr.error and not tr.prints:
        raise ToolError("%s: %s" % (module, tr.error))
    if tr.distinct != nlines + 1:
        raise ToolError("%s consumed %d of %d trace lines\n%s" % (module, tr.distinct - 1, nlines, tr.log[-1500:]))
    return tr, prop, mech


def binding_selftest(pid, module, cfg, trace_path, corrupt, nlines_max=400):
    """Demonstrates that the trace spec is bound to the recorded fields: a copy of the first lines of the trace with
    one field corrupted by `corrupt(list_of_records) -> bool` must produce a PROPFAIL/MECHFAIL/UNMATCHED."""
    recs = []
    with open(trace_path) as f:
        for line in f:
            recs.append(json.loads(line))
            if len(recs) >= nlines_max:
                break
    if not corrupt(recs):
        return None
    p = trace_path + ".corrupt"
    with open(p, "w") as f:
        for r in recs:
            f.write(json.dumps(r) + "\n")
    tr = tlc(pid, module, cfg, workers=1, timeout_s=300, trace_file=p, deque=True, coverage=False, xmx="2g")
    rejected = any(k in ("PROPFAIL", "MECHFAIL", "UNMATCHED") for k, _ in tr.prints) or tr.distinct != len(recs) + 1
    if not rejected:
        raise ToolError("binding self-test failed: %s accepted a corrupted trace" % module)
    return True
