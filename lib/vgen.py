"""The generated-code zoo: builds the IR that harness/vgen/build.rs feeds to the REAL conjure_codegen, and the
dispatch table (harness/vgen/src/dispatch_gen.rs) that lets the harness address generated types by name.

`bin/gen-vgen` regenerates harness/vgen/ir/zoo.json and dispatch_gen.rs (both committed); the checks fail with a tool
error if TLC emits a shape that is not in the committed zoo.
"""
import json
import os

import irgen as ir
import vcommon as vc

VGEN = os.path.join(vc.HARNESS, "vgen")
PKG = "com.palantir.verif"
PRIM_IR = {"string": "STRING", "integer": "INTEGER", "safelong": "SAFELONG", "double": "DOUBLE", "boolean": "BOOLEAN",
           "uuid": "UUID", "rid": "RID", "bearertoken": "BEARERTOKEN", "datetime": "DATETIME", "binary": "BINARY",
           "any": "ANY"}
PRIM_NAME = {"string": "Str", "integer": "Int", "safelong": "Long", "double": "Dbl", "boolean": "Bool", "uuid": "Uuid",
             "rid": "Rid", "bearertoken": "Tok", "datetime": "Time", "binary": "Bin", "any": "Any"}
GRAMMAR_VALUES = ["SHA_256", "HTTP_1_1", "A", "A_B_C", "X9", "V1_0", "Z_2X", "TWO_WORDS", "A1B2"]
REF_NAME = {"obj": "Inner", "enum": "Color", "union": "Shape"}


def shape_name(s):
    c = s["c"]
    if c == "prim":
        return PRIM_NAME[s["p"]]
    if c == "ref":
        return "Ref" + REF_NAME[s["p"]]
    k = s["kids"]
    if c == "opt":
        return "Opt" + shape_name(k[0])
    if c == "list":
        return "List" + shape_name(k[0])
    if c == "set":
        return "Set" + shape_name(k[0])
    if c == "map":
        return "Map" + shape_name(k[0]) + "To" + shape_name(k[1])
    if c == "alias":
        return "Al" + shape_name(k[0])
    if c == "ext":
        return "Ex" + shape_name(k[0])
    raise ValueError(c)


def shape_type(s, aliases):
    """IR type of a shape; alias layers become named alias types collected in `aliases` (name -> definition)."""
    c = s["c"]
    if c == "prim":
        return ir.prim(PRIM_IR[s["p"]])
    if c == "ref":
        return ir.ref(REF_NAME[s["p"]], PKG)
    k = s["kids"]
    if c == "opt":
        return ir.optional(shape_type(k[0], aliases))
    if c == "list":
        return ir.list_(shape_type(k[0], aliases))
    if c == "set":
        return ir.set_(shape_type(k[0], aliases))
    if c == "map":
        return ir.map_(shape_type(k[0], aliases), shape_type(k[1], aliases))
    if c == "alias":
        name = "Alias" + shape_name(k[0])
        if name not in aliases:
            aliases[name] = ir.alias_(name, shape_type(k[0], aliases), package=PKG)
        return ir.ref(name, PKG)
    if c == "ext":
        return ir.external(shape_type(k[0], aliases), name="Ext" + shape_name(k[0]))
    raise ValueError(c)


def grammar_enum():
    e = ir.enum_("Grammar", GRAMMAR_VALUES, package=PKG)
    for v in e["enum"]["values"]:
        if v["value"] in ("X9", "A_B_C"):
            v["deprecated"] = "kept for old clients"      # a deprecated value is still a value
        if v["value"] == "V1_0":
            v["docs"] = "documented value"
    return e


def fixed_types():
    return [
        ir.object_("Inner", [ir.field("a", ir.prim("INTEGER"))], package=PKG),
        ir.enum_("Color", ["RED", "BLUE"], package=PKG),
        ir.union_("Shape", [ir.field("circle", ir.prim("DOUBLE")), ir.field("name", ir.prim("STRING"))], package=PKG),
        ir.union_("EmptyUnion", [], package=PKG),
        ir.union_("Tricky", [ir.field("unknown", ir.prim("INTEGER")), ir.field("type", ir.prim("STRING")),
                             ir.field("inner", ir.ref("Inner", PKG)), ir.field("opt", ir.optional(ir.prim("INTEGER"))),
                             ir.field("items", ir.list_(ir.prim("DOUBLE")))], package=PKG),
        ir.enum_("Single", ["ONLY"], package=PKG),
        ir.object_("Empty", [], package=PKG),                                  # an object without fields
        ir.object_("HoldsEmpty", [ir.field("e", ir.ref("Empty", PKG)), ir.field("l", ir.list_(ir.ref("Empty", PKG)))], package=PKG),
        # the value-name grammar [A-Z][A-Z0-9]*(_[A-Z0-9]+)*: digit-leading segments, single letters, trailing digits
        grammar_enum(),
    ]


def build_zoo(shapes, extra_types=(), services=(), errors=()):
    """-> (ir document, list of object type names in dispatch order)"""
    aliases = {}
    objs = []
    names = []
    seen = set()
    for s in shapes:
        n = "Obj" + shape_name(s)
        if n in seen:
            continue
        seen.add(n)
        objs.append(ir.object_(n, [ir.field("f", shape_type(s, aliases))], package=PKG))
        names.append(n)
    types = fixed_types() + [aliases[k] for k in sorted(aliases)] + objs + list(extra_types)
    return ir.definition(types=types, services=services, errors=errors), names, sorted(aliases)


def write_if_changed(path, text):
    old = None
    if os.path.exists(path):
        with open(path) as f:
            old = f.read()
    if old != text:
        os.makedirs(os.path.dirname(path), exist_ok=True)
        with open(path, "w") as f:
            f.write(text)
        return True
    return False


def dispatch_rs(wire_types, ord_types, plain_types, error_types=()):
    """Rust source of the dispatch table."""
    out = ["// @generated by /verif/bin/gen-vgen from harness/vgen/ir/zoo.json - do not edit\n",
           "use crate::ops::*;\n\n",
           "pub fn wire(cfg: &str, ty: &str, doc: &str) -> Option<serde_json::Value> {\n    match (cfg, ty) {\n"]
    for cfg in ("a", "b"):
        for t in wire_types:
            out.append('        ("%s", "%s") => Some(wire_rt::<crate::%s::%s>(doc)),\n' % (cfg, t, cfg, t))
    out.append("        _ => None,\n    }\n}\n\n")
    out.append("pub fn order(cfg: &str, ty: &str, docs: &[String]) -> Option<serde_json::Value> {\n    match (cfg, ty) {\n")
    for cfg in ("a", "b"):
        for t in ord_types:
            out.append('        ("%s", "%s") => Some(order_ops::<crate::%s::%s>(docs)),\n' % (cfg, t, cfg, t))
    out.append("        _ => None,\n    }\n}\n\n")
    out.append("pub fn plain(cfg: &str, ty: &str, text: &str) -> Option<serde_json::Value> {\n    match (cfg, ty) {\n")
    for cfg in ("a", "b"):
        for t in plain_types:
            out.append('        ("%s", "%s") => Some(plain_rt::<crate::%s::%s>(text)),\n' % (cfg, t, cfg, t))
    out.append("        _ => None,\n    }\n}\n\n")
    out.append("pub fn error(cfg: &str, ty: &str, doc: &str, mode: &str) -> Option<serde_json::Value> {\n    match (cfg, ty) {\n")
    for cfg in ("a", "b"):
        for t in error_types:
            out.append('        ("%s", "%s") => Some(error_ops::<crate::%s::%s>(doc, mode)),\n' % (cfg, t, cfg, t))
    out.append("        _ => None,\n    }\n}\n\n")
    out.append("pub const WIRE_TYPES: &[&str] = &[%s];\n" % ", ".join('"%s"' % t for t in wire_types))
    return "".join(out)
