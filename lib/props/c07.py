"""C07 - Parameter values cannot alter the request URI structure and decode back exactly.

(1) TLC: S1 syntax, S2 structure, S3 round trip, S4 no panic for the transcribed builder + server decode
    (spec/UriCodec.tla, MCUriCodec.tla): every ASCII byte and multi-byte code points in every position, all pairs over
    the structural alphabet, all builder call shapes (single/optional/list/set incl. empty), combinations.
    The scaled-down length model (MCUriCodec_long.cfg) must violate NoPanic: it reproduces the known finding
    (http::Uri's 65534 byte limit + unwrap in UriBuilder::build).
(2) S->I: every emitted case runs through the real UriBuilder, http::Uri, path_param, parse_query_params, query_param.
(3) I->S: seeded random Unicode strings in random shapes, recorded URIs validated by TraceUriCodec.tla.
"""
import json
import os

import vcommon as vc

PID = "C07"
LIMIT = 65534


def b2s(b):
    return bytes(b).decode("utf-8")


def unreserved(c):
    return (65 <= c <= 90) or (97 <= c <= 122) or (48 <= c <= 57) or c in (45, 46, 95, 126)


def pchar(c):
    return unreserved(c) or c in (33, 36, 38, 39, 40, 41, 42, 43, 44, 59, 61, 58, 64, 37)


def is_hex(c):
    return (48 <= c <= 57) or (65 <= c <= 70) or (97 <= c <= 102)


def syntax_ok(uri):
    """RFC 3986: path-abempty [ "?" query ], no fragment."""
    if not uri or uri[0] != 47 or 35 in uri:
        return False
    q = uri.index(63) if 63 in uri else len(uri)
    path, query = uri[:q], uri[q + 1:]
    if not all(pchar(c) or c == 47 for c in path):
        return False
    if not all(pchar(c) or c in (47, 63) for c in query):
        return False
    for i, c in enumerate(uri):
        if c == 37 and not (i + 2 < len(uri) and is_hex(uri[i + 1]) and is_hex(uri[i + 2])):
            return False
    return True


def val_bytes(v):
    if isinstance(v, str):
        if v.startswith("long:"):
            return b"a" * int(v[5:])
        return v.encode()
    return bytes(v)


def expected(ops):
    segs, pairs = [], []
    for op in ops:
        k = op["k"]
        if k == "lit":
            segs += [("lit", s) for s in val_bytes(op["key"]).split(b"/")[1:]]
        elif k in ("path", "path_raw"):
            segs.append(("param", val_bytes(op["vals"][0])))
        else:
            vals = [val_bytes(v) for v in op["vals"]]
            if k == "qset":
                vals = sorted(set(vals), key=lambda b: b.decode("utf-8"))
            pairs.append((val_bytes(op["key"]), k, vals))
    return segs, pairs


def judge(ops, obs):
    """Property layer evaluated on the real outputs.  Returns list of (signature, what)."""
    segs, pairs = expected(ops)
    bad = []
    if "panic" in obs:
        total = sum(len(val_bytes(v)) for op in ops for v in op["vals"])
        if total > LIMIT - 64:
            return [("C07:build:panic:uri-too-long", "UriBuilder::build panicked: %s" % obs["panic"][:80])]
        return [("C07:build:panic", "UriBuilder::build panicked: %s" % obs["panic"][:120])]
    if obs.get("uri") is not None and not syntax_ok(obs["uri"]):
        bad.append(("C07:syntax", "built URI is not path-abempty[?query]: %r" % bytes(obs["uri"])[:120]))
    if obs["nsegs"] != len(segs) or not obs["routed"]:
        bad.append(("C07:structure:segments", "path has %d segments, template prescribes %d" % (obs["nsegs"], len(segs))))
    npairs = sum(len(v) for _, _, v in pairs)
    if obs["npairs_decoded"] != npairs or obs["has_query"] != (npairs > 0):
        bad.append(("C07:structure:pairs", "query decodes to %d pairs, %d values were supplied" % (
            obs["npairs_decoded"], npairs)))
    if obs.get("query") is not None and npairs:
        keys = [p.split("=")[0] for p in obs["query"].split("&")]
        exp_keys = [k.decode() for k, _, v in pairs for _ in v]
        if keys != exp_keys:
            bad.append(("C07:structure:order", "query keys %s, expected %s" % (keys[:6], exp_keys[:6])))
    params = [v for kind, v in segs if kind == "param"]
    if obs["routed"]:
        for i, v in enumerate(params):
            got = obs["path_vals"][i]
            if "ok" not in got or bytes(got["ok"]) != v:
                bad.append(("C07:roundtrip:path", "path parameter %d decodes to %s" % (i + 1, str(got)[:100])))
    for (key, kind, vals), got in zip(pairs, obs["query_vals"]):
        g = got["val"]
        if "ok" not in g or [bytes(x) for x in g["ok"]] != vals:
            bad.append(("C07:roundtrip:query:%s" % kind, "query parameter %s decodes to %s" % (key.decode(), str(g)[:100])))
    return bad


UNI = [0x41, 0x7a, 0x30, 0x20, 0x25, 0x26, 0x2b, 0x2f, 0x3f, 0x23, 0x3d, 0x0a, 0x00, 0x7f, 0xe9, 0x80, 0x7ff, 0x800,
       0x20ac, 0xfffd, 0xffff, 0x10000, 0x1f600, 0x10ffff, 0x3b, 0x3a, 0x40, 0x2c, 0x24, 0x5c, 0x22, 0x7b, 0x7e]


def random_string(rng, maxlen):
    n = rng.below(maxlen + 1)
    out = []
    for _ in range(n):
        k = rng.below(4)
        if k == 0:
            cp = rng.choice(UNI)
        elif k == 1:
            cp = rng.below(128)
        elif k == 2:
            cp = rng.below(0x800)
        else:
            cp = rng.below(0x110000)
        if 0xD800 <= cp <= 0xDFFF:
            cp = 0xFFFD
        out.append(chr(cp))
        if rng.chance(1, 12):
            # text that looks like an escape or a form-encoded fragment: must come back literally
            out.append(rng.choice(["%41", "%2F", "%25", "%2541", "%zz", "%", "+", "%20", "&amp;", "%26x%3D1", "%00", "%C3%A9", "%c3"]))
    return "".join(out)


def random_ops(rng, maxlen):
    ops = []
    nlit = 0
    for _ in range(1 + rng.below(3)):
        if rng.chance(2, 3) or not ops:
            nlit += 1
            ops.append({"k": "lit", "key": "/seg%d" % nlit if rng.chance(2, 3) else "/s%d/t" % nlit, "vals": []})
        if rng.chance(3, 4):
            ops.append({"k": "path", "key": "", "vals": [random_string(rng, maxlen)]})
    if ops and ops[-1]["k"] == "path" and rng.chance(1, 3):
        ops.append({"k": "lit", "key": "/end", "vals": []})
    for q in range(rng.below(5)):
        kind = rng.choice(["q1", "qopt", "qlist", "qset"])
        n = {"q1": 1, "qopt": rng.below(2), "qlist": rng.below(4), "qset": rng.below(4)}[kind]
        ops.append({"k": kind, "key": "k%d" % (q + 1), "vals": [random_string(rng, maxlen) for _ in range(n)]})
    return ops


def to_bytes_ops(ops):
    return [{"k": o["k"] if o["k"] != "qset" else "qset", "key": list(val_bytes(o["key"])),
             "vals": [list(v) for v in (sorted(set(val_bytes(x) for x in o["vals"]), key=lambda b: b.decode("utf-8"))
                                        if o["k"] == "qset" else [val_bytes(x) for x in o["vals"]])]}
            for o in ops]


TRICKY = ["", "a b", "a/b", "a%2Fb", "%", "%41", "+", "a+b", "?", "#", "&", "=", "a&b=c", "é", "\u2603", "..", ".", "a;b", "a,b", "~", " ", "%zz", "a%", "/", "//", ":", "@"]


def clients_stage(out, rng):
    """the same law through the GENERATED and the MACRO clients (clients.rs / conjure_client emit the UriBuilder calls and
    choose the encoders): every string of TRICKY as path, query, optional / list / set query value - what the server's decoders
    hand to the handler is what the caller passed, and the handler runs once."""
    docs, meta = [], {}
    k = 0

    def add(endpoint, args, pairs):
        nonlocal k
        for client, server in pairs:
            cid = "u%d" % k
            k += 1
            docs.append(json.dumps({"id": cid, "endpoint": endpoint, "args": args, "ret": "r", "client": client, "server": server, "mutations": [], "smile": False, "chunk": 1}))
            meta[cid] = (endpoint, args, client, server)
    gen = [("gen-blocking", "gen-blocking"), ("gen-async", "gen-async")]
    mac = [("macro-blocking", "macro-blocking"), ("macro-async", "macro-async")]
    for i, t in enumerate(TRICKY):
        u = TRICKY[(i * 7 + 3) % len(TRICKY)]
        if t not in ("", ".", ".."):          # empty and dot segments are not routable values
            add("attrs", {"b": "ok:" + t, "bee": "ok:" + u, "sea": i, "pq": "ok:" + t, "hh": "ok:h", "ls": [t, u, ""]}, mac)
            add("ctxCall", {"p": t, "hoa": None, "q": u}, gen)
        add("optQuery", {"first": t, "lst": [], "st": sorted({t, u}), "last": None}, gen)
        add("optQuery", {"first": None, "lst": [i], "st": [t], "last": i}, gen)
        add("attrs", {"b": "ok:x", "bee": "ok:y", "sea": 1, "pq": "ok:" + u, "hh": "ok:h", "ls": [t]}, mac)
        add("attrs", {"b": "ok:x", "bee": "ok:y", "sea": 1, "pq": "ok:z", "hh": "ok:h", "ls": ["", t, "", u]}, mac)
    add("optQuery", {"first": "a&b", "lst": list(range(1, 1501)), "st": ["v%d" % i for i in range(1100)], "last": 3}, gen)      # thousands of pairs
    n = 0
    for obs in vc.ndjson(vc.harness("vgen", ["rpc"], stdin="\n".join(docs) + "\n")):
        endpoint, args, client, server = meta[obs["id"]]
        n += 1
        rep = {"endpoint": endpoint, "args": args, "client": client, "server": server}
        if "panic" in obs or "skip" in obs:
            out.violation("C07:client:panic:%s" % endpoint, "the call panicked or could not be made: %s" % str(obs.get("panic") or obs.get("skip"))[:100], rep)
            continue
        err = obs["client"].get("err")
        calls = obs["handler_calls"]
        uri = obs["exchanges"][0]["sent_uri"] if obs["exchanges"] else None
        if err is not None or len(calls) != 1:
            out.violation("C07:client:structure:%s" % endpoint, "the request built for %s did not reach the handler exactly once (%s); URI %r" % (
                json.dumps(args)[:80], (err or {}).get("cause", "%d calls" % len(calls)), uri), rep)
            continue
        got = calls[0]["args"]
        for name, want in args.items():
            g = got.get(name)
            same = (sorted(g or []) == sorted(want)) if name == "st" else (g == want)
            if not same:
                out.violation("C07:client:decode:%s:%s" % (endpoint, name), "argument %s: passed %s, decoded %s; URI %r" % (name, json.dumps(want)[:60], json.dumps(g)[:60], uri), rep)
    if n != len(docs):
        raise vc.ToolError("rpc harness answered %d of %d cases" % (n, len(docs)))
    return n


def run(tier, seed):
    out = vc.Outcome(PID, tier, seed, "model_checking")
    rng = vc.Rng(seed)
    od = vc.outdir(PID)
    workers = 4 if tier == "quick" else 16
    cfgs = ["MCUriCodec_bytes.cfg", "MCUriCodec_pairs.cfg", "MCUriCodec_pct.cfg", "MCUriCodec_shapes.cfg", "MCUriCodec_combo.cfg"]
    if tier == "thorough":
        cfgs.append("MCUriCodec_shapes3.cfg")
    cases, states, transitions, cov, runs = [], 0, 0, {}, []
    for cfg in cfgs:
        r = vc.tlc(PID, "MCUriCodec", cfg, workers=workers, timeout_s=3000, extra_env={"EMITRES": str(seed)})
        if r.error:
            raise vc.ToolError("%s: %s" % (cfg, r.error))
        vc.require_actions(r, ["ChooseShape", "Fill", "Done"])
        runs.append({"cfg": cfg, "generated": r.generated, "distinct": r.distinct, "violated": r.violated,
                     "wall_s": round(r.wall_s, 1), "cases": len(r.cases)})
        if r.violated:
            out.notes.append("TLC: model of the current mechanism violates %s in %s" % (r.violated, cfg))
        states += r.distinct
        transitions += r.generated
        for k, v in r.coverage.items():
            cov[k] = max(cov.get(k, 0), v[1])
        cases.extend(r.cases)
    # scaled-down length model: reproduces the known finding (panic above http::Uri's length limit)
    rl = vc.tlc(PID, "MCUriCodec", "MCUriCodec_long.cfg", workers=2, timeout_s=300, coverage=False, keep_cases=False)
    long_model_violated = "NoPanic" in rl.violated
    runs.append({"cfg": "MCUriCodec_long.cfg", "violated": rl.violated, "generated": rl.generated})
    vc.log("[tlc] %d states, %d cases; length model violates NoPanic: %s" % (states, len(cases), long_model_violated))

    # ---- S->I ----
    docs, meta = [], {}
    for ci, c in enumerate(cases):
        docs.append(json.dumps({"id": "c%d" % ci, "ops": c["ops"]}))
        meta["c%d" % ci] = c
    # the concrete counterparts of the scaled-down length model: values around the real limit in each position
    base = [{"k": "lit", "key": "/a", "vals": []}, {"k": "path", "key": "", "vals": ["x"]},
            {"k": "lit", "key": "/b/c", "vals": []}, {"k": "q1", "key": "k1", "vals": ["x"]},
            {"k": "q1", "key": "k2", "vals": ["x"]}]
    fixed = len("/a/x/b/c?k1=x&k2=x") - 1
    for slot in (1, 3, 4):
        for n in (LIMIT - fixed - 1, LIMIT - fixed, LIMIT - fixed + 1, 70000):
            ops = json.loads(json.dumps(base))
            ops[slot]["vals"] = ["long:%d" % n]
            cid = "L%d.%d" % (slot, n)
            docs.append(json.dumps({"id": cid, "ops": ops}))
            meta[cid] = {"ops": ops, "uri": None, "long": True, "expect_len": fixed + n}
    text = vc.harness_parallel("vh", ["uri"], docs, nproc=4)
    replayed = 0
    nontrivial = set()
    samples = []
    for obs in vc.ndjson(text):
        c = meta[obs["id"]]
        replayed += 1
        for sig, what in judge(c["ops"], obs):
            out.violation(sig, what, {"ops": c["ops"], "observed": {k: v for k, v in obs.items() if k != "uri"}})
        if "panic" not in obs and c.get("uri") and obs.get("uri") != c["uri"]:
            out.model_drift("UriCodec", "case %s: built %r, model predicted %r" % (
                obs["id"], bytes(obs["uri"])[:80], bytes(c["uri"])[:80]))
        if any(any(b in (37, 38, 43, 35, 47, 63, 61, 32) or b > 127 for b in val_bytes(v))
               for op in c["ops"] for v in op["vals"]) or c.get("long"):
            nontrivial.add(json.dumps(c["ops"]))
        if len(samples) < 3 and obs["id"].startswith("c") and len(nontrivial) % 97 == 1:
            samples.append({"kind": "S->I", "ops": c["ops"], "model_uri": b2s(c["uri"]) if c.get("uri") else None,
                            "observed_uri": b2s(obs["uri"]) if obs.get("uri") else None})

    replayed += clients_stage(out, rng)

    # ---- I->S ----
    nruns = 1500 if tier == "quick" else 15000
    docs, meta2 = [], {}
    for k in range(nruns):
        ops = random_ops(rng, 12 if k % 10 else 60)
        docs.append(json.dumps({"id": "t%d" % k, "ops": ops}))
        meta2["t%d" % k] = ops
    text = vc.harness_parallel("vh", ["uri"], docs, nproc=4)
    trace_path = os.path.join(od, "trace.ndjson")
    lines = []
    with open(trace_path, "w") as f:
        for obs in vc.ndjson(text):
            ops = meta2[obs["id"]]
            replayed += 1
            for sig, what in judge(ops, obs):
                out.violation(sig, what, {"ops": to_bytes_ops(ops), "observed": {k: v for k, v in obs.items() if k != "uri"}})
            if "panic" in obs or obs.get("uri") is None:
                continue
            f.write(json.dumps({"ev": "build", "ops": to_bytes_ops(ops), "uri": obs["uri"]}) + "\n")
            lines.append(ops)
            nontrivial.add(json.dumps(ops))
    tr, pf, mf = vc.validate_trace(PID, "TraceUriCodec", "TraceUriCodec.cfg", trace_path, len(lines), timeout_s=1500)
    for p in pf:
        out.violation("C07:trace", "recorded URI violates S1-S3 under the model's server decoding",
                      {"ops": to_bytes_ops(lines[p["line"] - 1])})
    for p in mf[:5]:
        out.model_drift("TraceUriCodec", "line %d: built bytes differ from the model" % p["line"])

    def corrupt(recs):
        for r in recs:
            if len(r["uri"]) > 12 and 37 in r["uri"]:
                i = r["uri"].index(37)
                r["uri"][i] = 38  # an escaped byte turned into a raw '&'
                return True
        return False
    bound = vc.binding_selftest(PID, "TraceUriCodec", "TraceUriCodec.cfg", trace_path, corrupt)
    with open(trace_path) as f:
        samples.append({"kind": "I->S trace line", "line": json.loads(next(f))})

    out.coverage = {
        "states": states, "transitions": transitions,
        "traces_validated_against_impl": replayed,
        "samples": samples,
        "evaluations": replayed,
        "distinct_nontrivial": len(nontrivial),
        "rule": "S->I: TLC-emitted builder call sequences (all 128 ASCII bytes + 6 multi-byte code points in each of 3 "
                "positions; all pairs over a 24-symbol structural alphabet; all call shapes with single/optional/list/"
                "set incl. empty; 4-position combinations) + values at the 65534-byte limit; I->S: seeded random "
                "Unicode strings (all planes) in random shapes. Non-trivial = some value contains a reserved, "
                "non-ASCII or space byte, or a random/long case; distinct by op sequence.",
        "model_runs": runs, "coverage_by_action": cov, "trace_lines": len(lines),
        "length_model_violates_NoPanic": long_model_violated,
        "binding_selftest_rejected_corrupted_trace": bool(bound),
        "exhaustive": True,
        "bounds": "values of <=2 symbols in TLC; random strings <=60 code points; lengths at the http::Uri limit",
    }
    out.assumptions = ["TLC 1.8.0", "loopback routing: the web framework splits the raw path on '/' and passes raw "
                       "segments as PathParams (conjure-rust itself has no router)", "http::Uri parsing"]
    return out.finish()


def replay(path, seed):
    with open(path) as f:
        rep = json.load(f)
    ops = rep["case"]["ops"]
    obs = vc.ndjson(vc.harness("vh", ["uri"], stdin=json.dumps({"id": "r", "ops": ops}) + "\n"))[0]
    bad = judge(ops, obs)
    for sig, what in bad:
        print(sig, what)
    print("replay: property %s" % ("VIOLATED" if bad else "holds"))
    return 1 if bad else 0
