"""C06 - Servers accept a request body only if it is exactly one complete valid document (spec/BodyFraming.tla)."""
import props.bodyprops as bp


def run(tier, seed):
    return bp.run_side("C06", "server", tier, seed)


def replay(path, seed):
    return bp.replay_side("C06", "server", path, seed)
