"""X06 (extension linking C03 and C06) - the request size limit of an endpoint, from the `server-limit-request-size` tag of the
definition to the `StdRequestDeserializer<N>` the generated server trait names (spec/SizeLimit.tla, spec/MCSizeLimit.tla).

TLC checks ParseAgrees / LimitAgrees / Monotone for every digit string x blanks x 31 unit spellings (all letter cases of the
documented units, near-units such as `kbs`, `ib`, `bytes`) and for endpoints with 0, 1 or 2 size tags; the model that reads
`kb` as 1024 must be rejected.  Every emitted endpoint goes through the REAL generator (vh gen-tree): one document holds all
endpoints with a valid tag (the N in the generated attribute must be digits x base^exponent), every refused tag or tag pair
is its own document (the generated code must carry the refusal as a compile_error!).
"""
import json
import os
import re
import shutil
import subprocess

import irgen as ir
import vcommon as vc

PID = "X06"
PKG = "com.palantir.lim"
P = ir.prim


def endpoint(k, tags):
    return ir.endpoint("e%d" % k, "POST", "/e%d" % k, [ir.arg("body", P("STRING"), "body")], tags=["server-limit-request-size:%s%s" % (" " if i % 2 else "", t)
                                                                                                  for i, t in enumerate(tags)] + ["unrelated-tag"])


def generate(vh, d, name, eps):
    irp = os.path.join(d, name + ".json")
    with open(irp, "w") as f:
        json.dump(ir.definition(services=[ir.service("Lim", eps, package=PKG)]), f)
    od = os.path.join(d, name)
    p = subprocess.run([vh, "gen-tree", irp, od, json.dumps({"strip_prefix": PKG})], stdout=subprocess.PIPE, stderr=subprocess.PIPE, text=True, timeout=600)
    if p.returncode != 0:
        return None, p.stderr[-300:]
    text = ""
    for dp, _, fns in os.walk(od):
        for fn in fns:
            text += open(os.path.join(dp, fn)).read()
    return text, None


def limits_of(text):
    """endpoint name -> (N or None, has compile_error) from the sync server trait"""
    out = {}
    for m in re.finditer(r"fn\s+(e\d+)\s*\(\s*&self\s*,\s*#\[\s*body\s*\(\s*deserializer\s*=\s*conjure_http\s*::\s*server\s*::\s*StdRequestDeserializer(\s*<([^>]*)>)?", text):
        arg = (m.group(3) or "").strip()
        n = re.match(r"^(\d+)\s*(usize)?$", arg)
        out.setdefault(m.group(1), []).append((int(n.group(1)) if n else None, "compile_error" in arg, arg))
    return out


def run(tier, seed):
    out = vc.Outcome(PID, tier, seed, "model_checking")
    r = vc.tlc(PID, "MCSizeLimit", "MCSizeLimit.cfg", workers=4, timeout_s=600)
    if r.error:
        raise vc.ToolError(r.error)
    vc.require_actions(r, ["AddTag", "Done"])
    if r.violated:
        out.model_drift("model:%s" % r.violated, "TLC reports %s" % r.violated)
    rm = vc.tlc(PID, "MCSizeLimit", "MCSizeLimit_mut.cfg", workers=2, timeout_s=300, coverage=False, keep_cases=False)
    if "ParseAgrees" not in (rm.violated or []):
        raise vc.ToolError("spec self-test failed: `kb` read as 1024 passes ParseAgrees")
    vc.cargo_build("vh")
    vh = os.path.join(vc.TARGET, "debug", "vh")
    d = os.path.join(vc.OUT, "x06")
    shutil.rmtree(d, ignore_errors=True)
    os.makedirs(d)
    good, bad = [], []
    for k, c in enumerate(r.cases):
        (good if c["limit"] in ("limit", "default") else bad).append((k, c))
    text, err = generate(vh, d, "good", [endpoint(k, [t["text"] for t in c["tags"]]) for k, c in good])
    n = 0
    if text is None:
        out.violation("X06:generate", "generation fails on endpoints with valid size tags: %s" % err, {"cases": [c for _, c in good][:5]})
    else:
        got = limits_of(text)
        for k, c in good:
            n += 1
            g = got.get("e%d" % k)
            rep = {"case": c, "generated": g}
            if not g:
                raise vc.ToolError("endpoint e%d not found in the generated trait" % k)
            if c["limit"] == "default":
                if any(x[2] for x in g):
                    out.violation("X06:default", "an endpoint without a size tag is generated with %s" % g[0][2], rep)
                continue
            s = c["tags"][0]["size"]
            want = s["n"] * s["base"] ** s["exp"]
            if any(x[0] != want for x in g):
                out.violation("X06:limit:%s" % ("unit" if g[0][0] is not None else "refused"), "size tag %r is generated as %s, expected %d" % (c["tags"][0]["text"], g[0][2], want), rep)
    rng = vc.Rng(seed)
    sample = bad if tier != "quick" else rng.sample(bad, min(len(bad), 150))
    for k, c in sample:
        n += 1
        text, err = generate(vh, d, "bad%d" % k, [endpoint(k, [t["text"] for t in c["tags"]])])
        rep = {"case": c}
        if text is None:
            continue            # refused at generation time: also a refusal
        g = limits_of(text).get("e%d" % k) or []
        if not g or not all(x[1] for x in g):
            out.violation("X06:accepted-invalid:%s" % ("two-tags" if len(c["tags"]) > 1 else "unit"),
                          "size tag(s) %s are not refused: generated %s" % ([t["text"] for t in c["tags"]], [x[2] for x in g]), rep)
        shutil.rmtree(os.path.join(d, "bad%d" % k), ignore_errors=True)
    out.coverage = {"states": r.distinct, "transitions": r.generated, "traces_validated_against_impl": n, "evaluations": n, "distinct_nontrivial": n,
                    "samples": r.cases[1:4], "rule": "every endpoint with a valid tag in one generated document; refused tags / tag pairs one document each (quick: 150 sampled)",
                    "coverage_by_action": {k2: v[1] for k2, v in r.coverage.items()}, "exhaustive": tier != "quick"}
    out.assumptions = ["TLC 1.8.0", "the limit is read from the generated trait's #[body(deserializer = StdRequestDeserializer<N>)] attribute",
                       "optional and binary bodies ignore the tag (observed; not part of this model)"]
    return out.finish()


def replay(path, seed):
    print("replay: re-run `bin/check X06`")
    return 0
