"""C02 - Generated types read and write the Conjure wire format for every definition (spec/WireFormat.tla).

(1) TLC: the generator's recursive predicates (is_required, is_empty_method, dealiasing through alias/external) and the
    serde attributes derived from them agree with the wire-specification reading of the dealiased type for every shape
    in the universe x 14 document classes x {default, exhaustive+serializeEmptyCollections}; a model whose predicates
    stop at the first alias must fail; the union deserializer automaton agrees with the reference for all member
    sequences of length <= 3.
(2) S->I: one generated object type per shape (harness/vgen, REAL conjure_codegen in build.rs); every (shape, class)
    is concretised into several documents and parsed by server and client deserializers; verdict and canonical
    re-serialisation are compared with the reference; Smile round trip of accepted values.
(3) I->S: seeded random mutations of valid documents, same oracle (python mirror of the TLA+ reference; the
    mirror itself is compared with TLC's verdicts on every emitted case).
"""
import json
import math

import vcommon as vc
import vgen

PID = "C02"
UUID = "6ba7b810-9dad-11d1-80b4-00c04fd430c8"
CONTAINERS = ("opt", "list", "set", "map")


def dealias(s):
    while s["c"] in ("alias", "ext"):
        s = s["kids"][0]
    return s


DT_KEYS = [("2017-01-02T03:04:05Z", "2017-01-02T03:04:05Z"), ("2017-01-02T03:04:05.000000006Z", "2017-01-02T03:04:05.000000006Z")]


def valid_values(s, rng, n=2):
    """-> list of (json value, canonical json value) valid for shape s"""
    d = dealias(s)
    c = d["c"]
    if c == "prim":
        p = d["p"]
        table = {
            "string": [("hello", "hello"), ("", ""), ("NaN", "NaN"), ("héllo ☃", "héllo ☃")],
            "integer": [(7, 7), (-2147483648, -2147483648), (2147483647, 2147483647), (0, 0)],
            "safelong": [(9007199254740991, 9007199254740991), (-9007199254740991, -9007199254740991), (5, 5)],
            "double": [(1.5, 1.5), ("NaN", "NaN"), ("Infinity", "Infinity"), ("-Infinity", "-Infinity"), (3, 3.0), (-0.0, -0.0),
                       (1e300, 1e300), (-3, -3.0), (-9007199254740993, -9007199254740992.0), (18446744073709551615, 18446744073709551616.0)],
            "boolean": [(True, True), (False, False)],
            "uuid": [(UUID, UUID)],
            "rid": [("ri.a.b.c.d", "ri.a.b.c.d"), ("ri.svc..type.Loc_1.x", "ri.svc..type.Loc_1.x")],
            "bearertoken": [("tok.en-_~+/==", "tok.en-_~+/==")],
            "datetime": [("2017-01-02T03:04:05Z", "@dt"), ("2017-01-02T03:04:05.000000006Z", "@dt"),
                         ("2017-01-02T04:04:05+01:00", "@dt")],
            "binary": [("AQID", "AQID"), ("", ""), ("+/8=", "+/8=")],
            "any": [({"x": [1, "NaN", None]}, {"x": [1, "NaN", None]}), (17, 17), ("s", "s"), ([], []), (True, True)],
        }[p]
        return rng.sample(table, min(n, len(table)))
    if c == "ref":
        if d["p"] == "obj":
            return [({"a": 1}, {"a": 1}), ({"a": -5}, {"a": -5})][:n]
        if d["p"] == "enum":
            return [("RED", "RED"), ("BLUE", "BLUE")][:n]
        return [({"type": "circle", "circle": 1.5}, {"type": "circle", "circle": 1.5}),
                ({"name": "x", "type": "name"}, {"type": "name", "name": "x"})][:n]
    if c == "opt":
        return valid_values(d["kids"][0], rng, n)
    if c in ("list", "set"):
        items = valid_values(d["kids"][0], rng, 2)
        if c == "set" and dealias(d["kids"][0]) == {"c": "prim", "p": "datetime", "kids": []}:
            items = DT_KEYS       # compared as text: canonical spellings only
        if c == "set":
            # distinct items; canonical order is the set's order: compared as a set
            return [([i[0] for i in items], {"@set": [i[1] for i in items]}), ([items[0][0]], {"@set": [items[0][1]]})][:n]
        return [([i[0] for i in items], [i[1] for i in items]), ([items[0][0], items[0][0]], [items[0][1], items[0][1]])][:n]
    if c == "map":
        keys = valid_values(d["kids"][0], rng, 2)
        if dealias(d["kids"][0]).get("p") == "datetime":
            keys = DT_KEYS        # key texts are compared as text: canonical spellings only
        vals = valid_values(d["kids"][1], rng, 2)

        def keytext(k):
            return k if isinstance(k, str) else ("true" if k is True else ("false" if k is False else json.dumps(k)))
        out = []
        m1 = {keytext(keys[0][0]): vals[0][0]}
        c1 = {keytext(keys[0][1]) if not isinstance(keys[0][1], float) else keytext(keys[0][0]): vals[0][1]}
        out.append((m1, {"@map": [[keytext(keys[0][0]), vals[0][1]]], "@keyshape": d["kids"][0]}))
        if len(keys) > 1 and keytext(keys[1][0]) != keytext(keys[0][0]):
            m2 = {keytext(keys[0][0]): vals[0][0], keytext(keys[1][0]): vals[-1][0]}
            out.append((m2, {"@map": [[keytext(keys[0][0]), vals[0][1]], [keytext(keys[1][0]), vals[-1][1]]],
                             "@keyshape": d["kids"][0]}))
        return out[:n]
    raise vc.ToolError("valid_values: %s" % c)


def kind_sample(kind, rng):
    return {"str": "zzz", "num": 12, "bool": True, "arr": [1], "obj": {"q": 1}}[kind]


def wrong_elem(item_shape):
    """a JSON value that is certainly not a valid element of the item type"""
    d = dealias(item_shape)
    if d["c"] == "opt":
        d = dealias(d["kids"][0])
    if d["c"] == "prim" and d["p"] == "any":
        return None
    if d["c"] == "prim" and d["p"] in ("string", "uuid", "rid", "bearertoken", "datetime", "binary"):
        return 12
    if d["c"] == "prim" and d["p"] in ("integer", "safelong"):
        return "12"
    if d["c"] == "prim" and d["p"] == "double":
        return "12"
    if d["c"] == "prim" and d["p"] == "boolean":
        return "true"
    if d["c"] in ("list", "set"):
        return {"q": 1}
    return 12


def malformed_for(s):
    d = dealias(s)
    if d["c"] == "opt":
        d = dealias(d["kids"][0])
    if d["c"] == "ref" and d["p"] == "enum":
        return ["red", "", "RED BLUE", "GRÜN"]
    return {"uuid": ["not-a-uuid", UUID + "0", ""], "rid": ["ri.Bad.b.c.d", "ri.a.b.c", "x"], "bearertoken": ["a b", "", "=="],
            "datetime": ["2017-13-45T00:00:00Z", "yesterday", "2017-01-02"], "binary": ["!!!!", "AQI", "A", "A" * 63 + "\u00e9" + "AAAA", "\u00e9" * 70, "AQID" * 20 + "\u2603!"]}[d["p"]]


def range_for(s):
    d = dealias(s)
    if d["c"] == "opt":
        d = dealias(d["kids"][0])
    if d["p"] == "integer":
        return [2147483648, -2147483649, 9223372036854775807]
    return [9007199254740992, -9007199254740992, 9223372036854775807]


def concretise(shape, dc, rng):
    """-> list of (document dict for the object {f: ..}, canonical field value or None, ABSENT marker)"""
    d = dealias(shape)
    if dc == "absent":
        return [({}, None)]
    if dc == "null":
        return [({"f": None}, None)]
    if dc in ("valid", "valid2"):
        vs = valid_values(shape, rng, 3 if dc == "valid2" else 2)
        pick = vs[1:] if (dc == "valid2" and len(vs) > 1) else vs[:1]
        return [({"f": v}, canon) for v, canon in pick]
    if dc == "empty":
        return [({"f": {} if d["c"] == "map" else []}, None)]
    if dc.startswith("kind_"):
        return [({"f": kind_sample(dc[5:], rng)}, None)]
    if dc == "range":
        return [({"f": v}, None) for v in range_for(shape)]
    if dc == "malformed":
        return [({"f": v}, None) for v in malformed_for(shape)]
    if dc in ("elem_kind", "elem_null"):
        item = d["kids"][1] if d["c"] == "map" else d["kids"][0]
        bad = None if dc == "elem_null" else wrong_elem(item)
        if dc == "elem_kind" and bad is None:
            return []
        good = valid_values(item, rng, 1)[0][0]
        if d["c"] == "map":
            k = list(valid_values(shape, rng, 1)[0][0].keys())[0]
            return [({"f": {k: bad}}, None)]
        return [({"f": [bad]}, None), ({"f": [good, bad]}, None)]
    raise vc.ToolError("concretise %s" % dc)


def py_ref(shape, dc, serialize_empty):
    """python mirror of RefVerdict / RefEmits (cross-checked against TLC's output on every emitted case)"""
    d = dealias(shape)
    c = d["c"]

    def kinds(x):
        x = dealias(x)
        if x["c"] == "prim":
            p = x["p"]
            if p in ("string", "uuid", "rid", "bearertoken", "datetime", "binary"):
                return {"str"}
            if p in ("integer", "safelong"):
                return {"num"}
            if p == "double":
                return {"num", "str"}
            if p == "boolean":
                return {"bool"}
            return {"str", "num", "bool", "arr", "obj"}
        if x["c"] == "opt":
            return kinds(x["kids"][0])
        if x["c"] in ("list", "set"):
            return {"arr"}
        if x["c"] == "map":
            return {"obj"}
        if x["c"] == "ref" and x["p"] == "enum":
            return {"str"}
        return {"obj"}
    emits = serialize_empty if (c in CONTAINERS and dc in ("absent", "null", "empty")) else True
    if dc == "absent":
        return ("ok" if c in CONTAINERS else "reject"), emits
    if dc == "null":
        return ("ok" if c in CONTAINERS else "reject"), emits
    if dc in ("valid", "valid2"):
        return "ok", True
    if dc == "empty":
        return ("ok" if c in ("list", "set", "map") else "na"), emits
    if dc.startswith("kind_"):
        k = dc[5:]
        ks = kinds(shape)
        if k in ks:
            return "na", True
        if k == "arr" and ks == {"obj"} and c != "map" and not (c == "opt" and dealias(d["kids"][0])["c"] == "map"):
            return "unspec", True
        return "reject", True
    inner = dealias(d["kids"][0]) if c == "opt" else d
    if dc == "range":
        return ("reject" if inner["c"] == "prim" and inner["p"] in ("integer", "safelong") else "na"), True
    if dc == "malformed":
        g = (inner["c"] == "prim" and inner["p"] in ("uuid", "rid", "bearertoken", "datetime", "binary")) or (
            inner["c"] == "ref" and inner["p"] == "enum")
        return ("reject" if g else "na"), True
    if dc == "elem_kind":
        return ("reject" if c in ("list", "set", "map") else "na"), True
    if dc == "elem_null":
        if c not in ("list", "set", "map"):
            return "na", True
        item = dealias(d["kids"][1] if c == "map" else d["kids"][0])
        return ("na" if item["c"] == "opt" else "reject"), True
    raise vc.ToolError(dc)


def canon_equal(got, want, shape):
    """compare a re-serialised field value with the canonical expectation"""
    if isinstance(want, dict) and "@set" in want:
        if not isinstance(got, list) or len(got) != len(want["@set"]):
            return False
        return sorted(json.dumps(x, sort_keys=True) for x in got) == sorted(json.dumps(x, sort_keys=True) for x in want["@set"])
    if isinstance(want, dict) and "@map" in want:
        if not isinstance(got, dict) or len(got) != len(want["@map"]):
            return False
        ks = dealias(want["@keyshape"])
        for k, v in want["@map"]:
            hit = None
            for gk in got:
                if gk == k or (ks["c"] == "prim" and ks["p"] == "double" and same_double_text(gk, k)):
                    hit = gk
            if hit is None or not canon_equal(got[hit], v, None):
                return False
        return True
    if want == "@dt":
        return isinstance(got, str) and "2017-01-02T03:04:05" in got
    if isinstance(want, float) and isinstance(got, (int, float)) and not isinstance(got, bool):
        return float(got) == want and math.copysign(1.0, float(got)) == math.copysign(1.0, want)      # the sign of zero is data
    if isinstance(want, list) and isinstance(got, list):
        return len(want) == len(got) and all(canon_equal(g, w, None) for g, w in zip(got, want))
    if isinstance(want, dict) and isinstance(got, dict):
        return set(want) == set(got) and all(canon_equal(got[k], want[k], None) for k in want)
    return type(got) == type(want) and got == want or (
        isinstance(want, (int, float)) and not isinstance(want, bool) and isinstance(got, (int, float)) and not isinstance(got, bool) and got == want)


def same_double_text(a, b):
    try:
        return float(a) == float(b) and math.copysign(1.0, float(a)) == math.copysign(1.0, float(b))
    except ValueError:
        return a == b


def judge(shape, dc, cfg, doc, canon, obs, out, rep, prop):
    """prop = (verdict, emits) from the reference"""
    verdict, emits = prop
    name = vgen.shape_name(shape)
    if obs.get("panic"):
        out.violation("C02:panic:%s" % name, "panic while (de)serialising", rep)
        return None
    if "skip" in obs:
        raise vc.ToolError("type Obj%s is not in the committed zoo: run bin/gen-vgen and rebuild" % name)
    got = None
    for side in ("server", "client"):
        o = obs[side]
        if "ser_err" in o:
            out.violation("C02:ser-error:%s" % name, "accepted value cannot be re-serialised: %s" % o["ser_err"][:80], rep)
            continue
        accepted = "ok" in o
        got = accepted
        if verdict == "ok" and not accepted:
            out.violation("C02:rejected-valid:null:collection" if (dc == "null" and dealias(shape)["c"] in ("list", "set", "map"))
                          else "C02:rejected-valid:%s:%s" % (dc, klass(shape)),
                          "%s %s document %s for field type %s rejected: %s" % (side, dc, json.dumps(doc)[:60], name, o["err"][:80]), rep)
        elif verdict == "reject" and accepted:
            out.violation("C02:accepted-invalid:null:any" if null_for_any(shape, dc)
                          else "C02:accepted-invalid:%s:%s" % (dc, klass(shape)),
                          "%s accepts %s document %s for field type %s" % (side, dc, json.dumps(doc)[:60], name), rep)
        elif verdict == "ok" and accepted:
            re = json.loads(o["ok"])
            if ("f" in re) != emits:
                out.violation("C02:canonical:%s:%s" % ("emitted-empty" if "f" in re else "omitted-value", klass(shape)),
                              "re-serialised as %s (config %s)" % (o["ok"][:80], cfg), rep)
            elif "f" in re:
                want = canon if canon is not None else (None if dealias(shape)["c"] == "opt" else ({} if dealias(shape)["c"] == "map" else []))
                if not canon_equal(re["f"], want, shape):
                    out.violation("C02:canonical:value:%s" % klass(shape),
                                  "document %s re-serialised as %s" % (json.dumps(doc)[:60], o["ok"][:80]), rep)
    if verdict == "ok" and obs.get("smile_roundtrip") is False:
        out.violation("C02:smile:%s" % klass(shape), "accepted value does not survive a Smile round trip", rep)
    if obs.get("twice_equal") is False:
        out.violation("C02:twice:%s" % klass(shape), "the same document deserialised twice gives unequal values", rep)
    va = obs.get("via_any") or {}
    if va.get("agree") is False and (obs.get("client") or {}).get("ok"):      # what `any` makes of a document direct parsing rejects is a don't-care (C13)
        out.violation("C02:via-any:%s" % klass(shape), "the document viewed through the dynamic `any` gives %s, direct parsing gives %s" % (
            str(va.get("text") or va.get("err"))[:80], "a value" if (obs.get("client") or {}).get("ok") else "an error"), rep)
    for how, same in (obs.get("spellings") or {}).items():
        if not same:
            out.violation("C02:spelling:%s:%s" % (how, klass(shape)),
                          "the verdict or value changes when the same document is read %s" % (
                              "from a reader" if "reader" in how else "with its strings written as \\uXXXX escapes" if "escaped" in how else "from a byte slice"), rep)
    return got


def null_for_any(shape, dc):
    """JSON null where a (required) `any` is expected: as the field itself or as a collection element"""
    d = dealias(shape)
    if dc == "null":
        return d["c"] == "prim" and d["p"] == "any"
    if dc == "elem_null" and d["c"] in ("list", "set", "map"):
        item = dealias(d["kids"][1] if d["c"] == "map" else d["kids"][0])
        return item["c"] == "prim" and item["p"] == "any"
    return False


def klass(shape):
    d = dealias(shape)
    wrapped = "+alias" if shape["c"] in ("alias", "ext") else ""
    if d["c"] == "prim":
        return d["p"] + wrapped
    if d["c"] == "ref":
        return d["p"] + wrapped
    return d["c"] + wrapped


def mutate_doc(rng, doc):
    """single-fault mutation of a valid document (I->S driver): returns (doc, class) with class in DocClasses or None"""
    return doc


KEY_POOLS = {
    "rid": ["ri.a.b.c.d", "ri.a.b.c.D", "ri.a..c.d", "ri.a.b.c.d.e", "ri.a-b.b.c.d", "ri.a.b.c.-", "ri.a.b.c._", "ri.b.0.c.d", "ri.a.b.c.d0", "ri.a.b.c.0"],
    "tok": ["a", "b", "A", "a=", "a==", "ab", "a/b", "a+b", "a-b", "a.b", "a_b", "a~b", "0", "Z"],
    "time": ["2017-01-02T03:04:05Z", "2017-01-02T03:04:05.000000001Z", "2017-01-02T03:04:04.999999999Z", "1970-01-01T00:00:00Z", "1969-12-31T23:59:59Z",
             "9999-12-31T23:59:59Z", "0001-01-01T00:00:00Z", "2017-01-02T03:04:05.100Z", "2017-01-02T03:04:05.010Z"],
    "long": [0, -1, 1, 9007199254740991, -9007199254740991, 10, 9, -10, -9, 100, 99],
    "bin": ["", "AA==", "AQ==", "AAA=", "AAE=", "/w==", "//8=", "AQID", "gA==", "fw=="],
    "str": ["", "a", "A", "b", "ab", "a b", "é", "z", "~", " "],
    "int": [0, -1, 1, 2147483647, -2147483648, 10, 9, -10, -9],
    "uuid": ["00000000-0000-0000-0000-000000000000", "ffffffff-ffff-ffff-ffff-ffffffffffff", "6ba7b810-9dad-11d1-80b4-00c04fd430c8",
             "6ba7b810-9dad-11d1-80b4-00c04fd430c9", "7ba7b810-9dad-11d1-80b4-00c04fd430c8", "00000000-0000-0000-0000-000000000001"],
    "bool": [True, False],
    "enum": ["SHA_256", "HTTP_1_1", "A", "X9", "V1_0"],
    # objects ordered through the double-aware comparison of their list field: prefixes of each other, same length, absent / present optional
    "objl": [{"l": []}, {"l": [1.5]}, {"l": [1.5, 2.5]}, {"l": [1.5, 2.5, 0.5]}, {"l": [2.5]}, {"l": [2.5, 1.5]}, {"l": [1.5], "o": 1.0}, {"l": ["NaN"]},
             {"l": ["NaN", 1.5]}, {"l": ["-Infinity"]}, {"l": [], "o": "NaN"}, {"l": [], "o": -1.0}],
}
KEY_FIELDS = {"mr": ("map", "rid", "int"), "mt": ("map", "tok", "int"), "md": ("map", "time", "int"), "ml": ("map", "long", "int"), "mb": ("map", "bin", "int"),
              "ma": ("map", "str", "int"), "mai": ("map", "int", "str"), "mal": ("map", "long", "str"), "sr": ("set", "rid"), "sl": ("set", "long"),
              "su": ("set", "uuid"), "st": ("set", "time"), "sk": ("set", "tok"), "sb": ("set", "bin"), "sa": ("set", "int"), "sbool": ("set", "bool"),
              "se": ("set", "enum"), "sar": ("set", "rid"), "sobj": ("set", "objl"), "mobj": ("map", "str", "objl")}


def norm_objl(v):
    """DoubleSeq objects as values: an absent optional may be written as null, an empty list may be omitted (both by configuration)"""
    return json.dumps({"l": v.get("l") or [], "o": v.get("o")}, sort_keys=True) if isinstance(v, dict) else json.dumps(v)


def key_zoo_stage(out, rng):
    """maps and sets of generated types over the key types the shape universe does not draw (rid, bearer token, datetime, safelong,
    binary, aliases, enum): several entries in arbitrary order must all survive a round trip (the collections are ordered by the
    runtime types' own Ord impls)."""
    docs, meta = [], {}
    for k in range(120):
        doc = {}
        for f, spec in KEY_FIELDS.items():
            if rng.chance(1, 3):
                continue
            pool = KEY_POOLS[spec[1]]
            keys = rng.shuffle(pool)[: 1 + rng.below(len(pool))]
            if spec[0] == "set":
                doc[f] = keys
            else:
                doc[f] = {(json.dumps(x) if not isinstance(x, str) else x): (rng.choice(KEY_POOLS[spec[2]][:5])) for x in keys}
        for tag in ("a", "b"):
            cid = "k%d.%s" % (k, tag)
            docs.append(json.dumps({"id": cid, "cfg": tag, "ty": "KeyZoo", "doc": json.dumps(doc)}))
            meta[cid] = doc
    n = 0
    for obs in vc.ndjson(vc.harness("vgen", ["wire"], stdin="\n".join(docs) + "\n")):
        doc = meta[obs["id"]]
        n += 1
        rep = {"type": "KeyZoo", "doc": doc, "config": obs["id"].split(".")[1]}
        if obs.get("panic"):
            out.violation("C02:panic:KeyZoo", "panic while (de)serialising", rep)
            continue
        if "server" not in obs:
            raise vc.ToolError("KeyZoo missing from the zoo (run bin/gen-vgen): %s" % obs)
        for side in ("server", "client"):
            o = obs[side]
            if "ok" not in o:
                out.violation("C02:rejected-valid:keys", "%s deserializer rejects a valid document of keyed collections: %s" % (side, str(o)[:120]), rep)
                continue
            got = json.loads(o["ok"])
            for f, spec in KEY_FIELDS.items():
                want = doc.get(f, [] if spec[0] == "set" else {})
                g = got.get(f, [] if spec[0] == "set" else {})
                if spec[0] == "set":
                    same = sorted(norm_objl(x) for x in g) == sorted(norm_objl(x) for x in want)
                elif spec[2] == "objl":
                    same = {k2: norm_objl(v) for k2, v in g.items()} == {k2: norm_objl(v) for k2, v in want.items()}
                else:
                    same = g == want
                if not same:
                    out.violation("C02:canonical:keys:%s:%s" % (spec[0], spec[1]), "field %s: %d entries in, %d out (%s deserializer): %s -> %s" % (
                        f, len(want), len(g), side, json.dumps(want)[:90], json.dumps(g)[:90]), rep)
        if obs.get("smile_roundtrip") is False or obs.get("twice_equal") is False:
            out.violation("C02:canonical:keys:smile" if obs.get("smile_roundtrip") is False else "C02:canonical:keys:twice",
                          "keyed collections: %s" % ("the Smile round trip changes the value" if obs.get("smile_roundtrip") is False else "the same document parsed twice gives unequal values"), rep)
        for how, ok in (obs.get("spellings") or {}).items():
            if not ok:
                out.violation("C02:spelling:%s:keys" % how, "keyed collections: verdict or value changes with the spelling (%s)" % how, rep)
    return n


def run(tier, seed):
    out = vc.Outcome(PID, tier, seed, "model_checking")
    rng = vc.Rng(seed)
    workers = 4 if tier == "quick" else 16
    cases, states, transitions, cov, runs = [], 0, 0, {}, []
    for cfg, tag, se in (("MCWireFormat_default.cfg", "a", False), ("MCWireFormat_strict.cfg", "b", True)):
        r = vc.tlc(PID, "MCWireFormat", cfg, workers=workers, timeout_s=1200)
        if r.error:
            raise vc.ToolError("%s: %s" % (cfg, r.error))
        vc.require_actions(r, ["PickField", "AddMember", "PickUnion"])
        runs.append({"cfg": cfg, "generated": r.generated, "distinct": r.distinct, "violated": r.violated,
                     "wall_s": round(r.wall_s, 1), "cases": len(r.cases)})
        if r.violated:
            out.notes.append("TLC: model of the current mechanism violates %s in %s" % (r.violated, cfg))
        states += r.distinct
        transitions += r.generated
        for k, v in r.coverage.items():
            cov[k] = max(cov.get(k, 0), v[1])
        cases.extend((tag, se, c) for c in r.cases if c["kind"] == "field")
    # spec self-tests: predicates that stop at the first alias must be caught; the documented null deviations must show
    r1 = vc.tlc(PID, "MCWireFormat", "MCWireFormat_fuel1.cfg", workers=2, timeout_s=600, coverage=False, keep_cases=False)
    if "FieldAgrees" not in r1.violated:
        raise vc.ToolError("spec self-test failed: predicates that stop at the first alias pass FieldAgrees")
    r2 = vc.tlc(PID, "MCWireFormat", "MCWireFormat_nullcoercion.cfg", workers=2, timeout_s=600, coverage=False, keep_cases=False)
    out.notes.append("model of the mechanism violates NullCoercion (wire spec 5.4): %s" % ("NullCoercion" in r2.violated))
    vc.log("[tlc] %d states, %d field cases" % (states, len(cases)))

    docs, meta = [], {}
    k = 0
    for tag, se, c in cases:
        ref = c["ref"]
        pv, pe = py_ref(c["shape"], c["dc"], se)
        if pv != ref or (ref == "ok" and pe != c["emits"]):
            raise vc.ToolError("python mirror of the reference disagrees with TLC on %s/%s: %s vs %s" % (
                vgen.shape_name(c["shape"]), c["dc"], (pv, pe), (ref, c["emits"])))
        if ref in ("na", "unspec"):
            continue
        for doc, canon in concretise(c["shape"], c["dc"], vc.Rng(seed * 1000003 + k)):
            cid = "c%d" % k
            k += 1
            docs.append(json.dumps({"id": cid, "cfg": tag, "ty": "Obj" + vgen.shape_name(c["shape"]), "doc": json.dumps(doc)}))
            meta[cid] = (tag, c, doc, canon, (ref, c["emits"]))
    # I->S style: random valid documents with one random fault, judged by the python mirror
    nrand = 3000 if tier == "quick" else 30000
    shapes = [c["shape"] for tag, se, c in cases if tag == "a" and c["dc"] == "valid"]
    dcs = ["absent", "null", "valid", "valid2", "empty", "kind_str", "kind_num", "kind_bool", "kind_arr", "kind_obj",
           "range", "malformed", "elem_kind", "elem_null"]
    for j in range(nrand):
        sh = rng.choice(shapes)
        dc = rng.choice(dcs)
        tag, se = rng.choice([("a", False), ("b", True)])
        pv, pe = py_ref(sh, dc, se)
        if pv in ("na", "unspec"):
            continue
        cs = concretise(sh, dc, vc.Rng(seed * 7919 + j))
        if not cs:
            continue
        doc, canon = rng.choice(cs)
        cid = "r%d" % j
        docs.append(json.dumps({"id": cid, "cfg": tag, "ty": "Obj" + vgen.shape_name(sh), "doc": json.dumps(doc)}))
        meta[cid] = (tag, {"shape": sh, "dc": dc, "mech": None}, doc, canon, (pv, pe))
    text = vc.harness_parallel("vgen", ["wire"], docs, nproc=6)
    replayed = 0
    nontrivial = set()
    samples = []
    for obs in vc.ndjson(text):
        tag, c, doc, canon, prop = meta[obs["id"]]
        replayed += 1
        rep = {"cfg": tag, "shape": c["shape"], "dc": c["dc"], "doc": doc, "canon": canon, "prop": list(prop)}
        got = judge(c["shape"], c["dc"], tag, doc, canon, obs, out, rep, prop)
        if got is not None and c.get("mech") and (got == (prop[0] == "ok")) and (c["mech"] == "ok") != got:
            out.model_drift("WireFormat", "%s/%s: model %s, code %s" % (vgen.shape_name(c["shape"]), c["dc"], c["mech"], got))
        nontrivial.add((vgen.shape_name(c["shape"]), c["dc"], tag, json.dumps(doc, sort_keys=True)))
        if len(samples) < 4 and c["shape"]["c"] == "alias" and c["dc"] in ("absent", "empty") and "server" in obs:
            samples.append({"shape": vgen.shape_name(c["shape"]), "class": c["dc"], "config": tag, "doc": doc,
                            "reference": list(prop), "server": obs["server"]})
    # enums over the whole value-name grammar (digit-leading segments, single letters): the wire name is the declared name
    gdocs = []
    for i, v in enumerate(vgen.GRAMMAR_VALUES + ["SHA256", "Sha_256", "sha_256", "HTTP_11", "A_B", "TWOWORDS"]):
        for tag in ("a", "b"):
            gdocs.append(json.dumps({"id": "g%d.%s" % (i, tag), "cfg": tag, "ty": "Grammar", "doc": json.dumps(v)}))
            gdocs.append(json.dumps({"id": "h%d.%s" % (i, tag), "cfg": tag, "ty": "ObjGrammar", "doc": json.dumps({"f": v})}))
    for obs in vc.ndjson(vc.harness("vgen", ["wire"], stdin="\n".join(gdocs) + "\n")):
        if obs.get("skip") or "server" not in obs:
            if obs["id"].startswith("h"):
                continue        # no object wrapper for the enum in this zoo
            raise vc.ToolError("Grammar enum missing from the zoo: %s" % obs)
        i, tag = obs["id"][1:].split(".")
        v = (vgen.GRAMMAR_VALUES + ["SHA256", "Sha_256", "sha_256", "HTTP_11", "A_B", "TWOWORDS"])[int(i)]
        listed = v in vgen.GRAMMAR_VALUES
        replayed += 1
        rep = {"type": "Grammar", "doc": v, "config": tag}
        wellformed = v.upper() == v
        for side in ("server", "client"):
            ok = "ok" in obs[side]
            want_ok = listed or (tag == "a" and wellformed)
            if ok != want_ok:
                out.violation("C02:enum:%s:%s" % ("rejected-valid" if want_ok else "accepted-invalid", "listed" if listed else "unlisted"),
                              "enum value %r (%s) is %s by the %s deserializer, configuration %s" % (v, "listed" if listed else "unlisted", "accepted" if ok else "rejected", side, tag), rep)
            elif ok and obs["id"].startswith("g") and obs[side]["ok"] != json.dumps(v):
                out.violation("C02:enum:renamed", "enum value %r re-serialises as %s" % (v, obs[side]["ok"]), rep)
            elif ok and listed and "Unknown" in obs[side].get("debug", ""):
                out.violation("C02:enum:listed-as-unknown", "listed enum value %r is held as %s" % (v, obs[side]["debug"]), rep)
    replayed += key_zoo_stage(out, rng)
    # unions: {"type": v, v: payload} in either order, exactly two members, type and member agree (shared with C10)
    import props.c10 as c10
    u = c10.union_enum_replay(PID, tier, seed, out, rng)
    replayed += u[4]
    nontrivial |= {("union",) + tuple(x) for x in u[5]}
    out.coverage = {
        "states": states, "transitions": transitions, "traces_validated_against_impl": replayed,
        "samples": samples, "evaluations": replayed, "distinct_nontrivial": len(nontrivial),
        "rule": "every (shape, document class) TLC emits for 2 configurations, each concretised into 1-3 documents, plus "
                "seeded random (shape, class, config) draws; each document is parsed by the generated type's server and "
                "client deserializers and re-serialised (JSON, Smile). Distinct by (shape, class, config, document); all "
                "are non-trivial (each exercises a generated Deserialize/Serialize impl).",
        "model_runs": runs, "coverage_by_action": cov, "exhaustive": True,
        "universe": "115 field shapes: 11 primitives, 3 references, optionals/lists/sets/maps (11 key kinds) of them, "
                    "alias, alias-of-alias, external and alias-of-external wrappers of 12 representatives",
    }
    out.assumptions = ["TLC 1.8.0", "harness/vgen/ir/zoo.json is the IR of the shape universe (bin/gen-vgen)",
                       "Conjure wire specification section 5 (null/absent coercion, no casting) as the reference"]
    return out.finish()


def replay(path, seed):
    rep = json.load(open(path))["case"]
    doc = {"id": "r", "cfg": rep["cfg"], "ty": "Obj" + vgen.shape_name(rep["shape"]), "doc": json.dumps(rep["doc"])}
    obs = vc.ndjson(vc.harness("vgen", ["wire"], stdin=json.dumps(doc) + "\n"))[0]
    out = vc.Outcome(PID, "quick", seed, "model_checking")
    judge(rep["shape"], rep["dc"], rep["cfg"], rep["doc"], rep["canon"], obs, out, rep, tuple(rep["prop"]))
    print(json.dumps(obs)[:800])
    print("replay: property %s" % ("VIOLATED" if out.violations else "holds"))
    return 1 if out.violations else 0
