"""C17 - Errors encode faithfully; their parameters are partitioned by declared safety (spec/ErrorModel.tla).

(1) TLC: OneEntryPerScalar, Partition, PropagatedAllUnsafe for every error definition with <=2 safe and <=2 unsafe
    parameters (thorough 3+3) over 15 value classes, direct and propagated.
(2) S->I: every emitted definition becomes a dynamically defined error type (struct Serialize + ErrorType with sorted
    safe_args) with concrete values (several per class) and goes through the real conjure_error::encode, JSON/Smile
    round trip of SerializableError, Error::service / service_safe / propagated_service / propagated_service_safe,
    safe_params(), unsafe_params(), status_code(); all ten error codes; given and fresh instance ids.
(3) Generated error types of harness/vgen (errors.rs: parameter object, ErrorType impl, sorted safe_args, keyword and
    camelCase names) are driven with seeded random parameter documents under the same oracle.
"""
import json
import struct

import vcommon as vc

PID = "C17"
UUID = "6ba7b810-9dad-11d1-80b4-00c04fd430c8"
CODES = {"PERMISSION_DENIED": 403, "INVALID_ARGUMENT": 400, "NOT_FOUND": 404, "CONFLICT": 409, "REQUEST_ENTITY_TOO_LARGE": 413,
         "FAILED_PRECONDITION": 500, "INTERNAL": 500, "TIMEOUT": 500, "CUSTOM_CLIENT": 400, "CUSTOM_SERVER": 500}


def value_of(cls, rng):
    """a parameter of class cls; every third one is declared `any` and merely HOLDS such a value (same expectation)"""
    v, text, kind = value_of_plain(cls, rng)
    if rng.chance(1, 3):
        v = {"k": "via_any", "item": v}
    return v, text, kind


def value_of_plain(cls, rng):
    """-> (DynVal json, expected string or None (omitted), kind of comparison)"""
    if cls == "string":
        s = rng.choice(["hello", "", "NaN", "héllo ☃", "a b", "1"])
        return {"k": "str", "v": s}, s, "exact"
    if cls == "int":
        n = rng.choice([0, -1, 2**31 - 1, -2**31, 42])
        return {"k": "i32", "v": str(n)}, str(n), "exact"
    if cls == "safelong":
        n = rng.choice([0, 2**53 - 1, -(2**53 - 1), 7])
        return {"k": "safelong", "v": str(n)}, str(n), "exact"
    if cls == "double":
        bits = rng.choice(["0x3ff8000000000000", "0x8000000000000000", "0x3fb999999999999a", "0x7fefffffffffffff",
                           "0x0000000000000001", "0x7ff0000000000000", "0xfff0000000000000", "0x4008000000000000"])
        return {"k": "f64", "bits": bits}, bits, "double"
    if cls == "doublenan":
        return {"k": "f64", "bits": "0x7ff8000000000000"}, "0x7ff8000000000000", "double"
    if cls == "bool":
        b = rng.chance(1, 2)
        return {"k": "bool", "v": b}, "true" if b else "false", "exact"
    if cls == "uuid":
        return {"k": "uuid", "v": UUID}, UUID, "exact"
    if cls == "rid":
        return {"k": "rid", "v": "ri.a.b.c.d"}, "ri.a.b.c.d", "exact"
    if cls == "enum":
        return {"k": "unit_variant", "idx": 1}, "B", "exact"
    if cls == "optpresent":
        return {"k": "some", "item": {"k": "str", "v": "present"}}, "present", "exact"
    if cls == "optabsent":
        return {"k": "none"}, None, None
    if cls == "list":
        return {"k": "seq", "items": [{"k": "str", "v": "x"}] * rng.below(3)}, None, None
    if cls == "map":
        return {"k": "map", "entries": [[{"k": "str", "v": "k"}, {"k": "i32", "v": "1"}]]}, None, None
    if cls == "object":
        return {"k": "struct", "fields": [["a", {"k": "i32", "v": "1"}]]}, None, None
    if cls == "binary":
        return {"k": "bytes", "v": [1, 2, 3]}, None, None
    raise vc.ToolError(cls)


def double_matches(text, bits):
    want = struct.unpack(">d", struct.pack(">Q", int(bits, 16)))[0]
    try:
        got = float(text)
    except ValueError:
        return False
    return (got != got and want != want) or struct.pack(">d", got) == struct.pack(">d", want)


def judge(params, expected, propagated, code, name, instance, obs, out, rep, tag):
    """params: [(name, safe)], expected: {name: (text, kind) } for scalar-valued ones"""
    if "panic" in obs or obs.get("panic"):
        out.violation("C17:%s:panic" % tag, "panic: %s" % str(obs.get("panic"))[:100], rep)
        return
    enc = obs["encoded"]
    if enc["code"] != code or enc["name"] != name:
        out.violation("C17:%s:code-or-name" % tag, "encoded %s / %s, expected %s / %s" % (enc["code"], enc["name"], code, name), rep)
    if instance and enc["instance"] != instance:
        out.violation("C17:%s:instance-id" % tag, "supplied instance id not kept", rep)
    if instance and isinstance(obs.get("kind"), dict) and obs["kind"].get("instance") not in (None, instance):
        out.violation("C17:%s:instance-id:error" % tag, "the error built from the type carries instance id %s, supplied %s" % (obs["kind"].get("instance"), instance), rep)
    if not instance and not obs.get("fresh_ids_differ", True):
        out.violation("C17:%s:instance-id-not-fresh" % tag, "two encodings without instance id share one id", rep)
    got = enc["parameters"]
    for n in set(got) | set(expected):
        if n not in expected:
            out.violation("C17:%s:extra-parameter" % tag, "non-scalar / absent parameter %s encoded as %r" % (n, got[n]), rep)
        elif n not in got:
            out.violation("C17:%s:missing-parameter" % tag, "scalar parameter %s (%s) has no entry" % (n, expected[n][1]), rep)
        else:
            text, kind = expected[n]
            ok = double_matches(got[n], text) if kind == "double" else got[n] == text
            if not ok:
                out.violation("C17:%s:parameter-text:%s" % (tag, kind), "parameter %s encoded as %r, expected %r" % (n, got[n], text), rep)
    if not obs.get("json_roundtrip", True) or not obs.get("smile_roundtrip", True):
        out.violation("C17:%s:roundtrip" % tag, "SerializableError does not survive a JSON/Smile round trip", rep)
    safe_decl = {n for n, s in params if s}
    sp, up = obs["safe_params"], obs["unsafe_params"]
    for n in got:
        in_s, in_u = n in sp, n in up
        want_safe = (n in safe_decl) and not propagated
        if in_s and in_u:
            out.violation("C17:%s:partition:both" % tag, "parameter %s is in both sets" % n, rep)
        elif not in_s and not in_u:
            out.violation("C17:%s:partition:neither" % tag, "encoded parameter %s is in neither set" % n, rep)
        elif in_s and not want_safe:
            out.violation("C17:%s:partition:unsafe-as-safe:%s" % (tag, "propagated" if propagated else "direct"),
                          "parameter %s is not declared safe but is exposed as safe" % n, rep)
        elif in_u and want_safe:
            out.violation("C17:%s:partition:safe-as-unsafe" % tag, "safe parameter %s exposed as unsafe" % n, rep)
    for n in set(sp) | set(up):
        if n not in got:
            out.violation("C17:%s:partition:unencoded" % tag, "parameter %s exposed but not encoded" % n, rep)
    if obs["status"] != CODES[code]:
        out.violation("C17:%s:status" % tag, "code %s maps to status %s" % (code, obs["status"]), rep)


def run(tier, seed):
    out = vc.Outcome(PID, tier, seed, "model_checking")
    rng = vc.Rng(seed)
    cfgs = ["MCErrorModel_q.cfg"] + (["MCErrorModel_t.cfg"] if tier == "thorough" else [])
    cases, states, transitions, cov, runs = [], 0, 0, {}, []
    for cfg in cfgs:
        r = vc.tlc(PID, "MCErrorModel", cfg, workers=4 if tier == "quick" else 16, timeout_s=3000, extra_env={"EMITRES": str(seed)})
        if r.error:
            raise vc.ToolError("%s: %s" % (cfg, r.error))
        vc.require_actions(r, ["AddSafe", "AddUnsafe", "Finish"])
        runs.append({"cfg": cfg, "generated": r.generated, "distinct": r.distinct, "violated": r.violated, "cases": len(r.cases)})
        if r.violated:
            out.notes.append("TLC: model violates %s in %s" % (r.violated, cfg))
        states += r.distinct
        transitions += r.generated
        for k, v in r.coverage.items():
            cov[k] = max(cov.get(k, 0), v[1])
        cases.extend(r.cases)
    vc.log("[tlc] %d states, %d cases" % (states, len(cases)))
    docs, meta = [], {}
    codes = sorted(CODES)
    for ci, c in enumerate(cases):
        r2 = vc.Rng(seed * 1000003 + ci)
        params, expected, plist = [], {}, []
        for p in c["ps"]:
            v, text, kind = value_of(p["cls"], r2)
            params.append([p["name"], p["safe"], v])
            plist.append((p["name"], p["safe"]))
            if text is not None:
                expected[p["name"]] = (text, kind)
        code = codes[ci % len(codes)]
        # supplied instance ids: an ordinary one, the nil uuid, the all-ones uuid; or none (a fresh one must be drawn)
        inst = [UUID, None, "00000000-0000-0000-0000-000000000000", None, "ffffffff-ffff-ffff-ffff-ffffffffffff", None][ci % 6]
        mode = ("propagated" if ci % 2 else "propagated_safe") if c["propagated"] else ("service" if ci % 2 else "service_safe")
        cid = "c%d" % ci
        docs.append(json.dumps({"id": cid, "code": code, "name": "Verif:Err%d" % (ci % 7), "instance": inst, "mode": mode, "params": params,
                                "by_ref": ci % 3 == 0, "wrap_id": ci % 3 == 1}))     # ... and every third instance id through ErrorType::with_instance_id     # every third error type is handed over by reference (&T implements ErrorType too)
        meta[cid] = (c, plist, expected, code, "Verif:Err%d" % (ci % 7), inst)
    text = vc.harness_parallel("vh", ["errors"], docs, nproc=4)
    replayed = 0
    nontrivial = set()
    samples = []
    for obs in vc.ndjson(text):
        c, plist, expected, code, name, inst = meta[obs["id"]]
        replayed += 1
        if "skip" in obs:
            raise vc.ToolError("harness cannot build %s: %s" % (obs["id"], obs["skip"]))
        rep = {"ps": c["ps"], "propagated": c["propagated"], "code": code}
        judge(plist, expected, c["propagated"], code, name, inst, obs, out, rep, "dynamic")
        if "encoded" in obs and set(obs["encoded"]["parameters"]) != set(c["encoded"]) and set(obs["encoded"]["parameters"]) == set(expected):
            out.model_drift("ErrorModel", "encoded names %s, model %s" % (sorted(obs["encoded"]["parameters"]), c["encoded"]))
        if c["ps"]:
            nontrivial.add(json.dumps([c["ps"], c["propagated"]]))
        if len(samples) < 2 and len(c["ps"]) == 3 and "encoded" in obs:
            samples.append({"definition": c["ps"], "propagated": c["propagated"], "encoded": obs["encoded"],
                            "safe_params": obs["safe_params"], "unsafe_params": obs["unsafe_params"]})

    # generated error types
    gdocs, gmeta = [], {}
    nr = 150 if tier == "quick" else 1500
    gen_defs = {
        "ErrEmpty": ("NOT_FOUND", "Verif:ErrEmpty", []),
        "IoError": ("INTERNAL", "Verif:IOError", [("path", True, "string")]),
        "A1b2Mismatch": ("FAILED_PRECONDITION", "Verif:A1B2Mismatch", [("n", False, "int")]),
        "ErrOptOnly": ("CONFLICT", "Verif:ErrOptOnly", [("so", True, "opt"), ("us", False, "string")]),
        "ErrSorted": ("CUSTOM_CLIENT", "Other:ErrSorted", [("zeta", True, "string"), ("alpha", True, "string"), ("mid", True, "int"), ("beta", False, "string")]),
        "ErrKeyword": ("TIMEOUT", "Verif:ErrKeyword", [("type", True, "string"), ("fooBar", True, "int"), ("self", False, "string"), ("snake_case", False, "listint")]),
        "ErrAll": ("INVALID_ARGUMENT", "Verif:ErrAll", [(pfx + n, pfx == "s", k) for pfx in ("s", "u") for n, k in [
            ("String", "string"), ("Int", "int"), ("Long", "long"), ("Double", "double"), ("Bool", "bool"), ("Uuid", "uuid"), ("Rid", "rid"),
            ("Enum", "enum"), ("Opt", "opt"), ("List", "list"), ("Map", "map"), ("Obj", "obj"), ("Bin", "bin"), ("Time", "time")]]),
    }
    for j in range(nr):
        ty = rng.choice(sorted(gen_defs))
        code, name, fields = gen_defs[ty]
        doc, expected, plist = {}, {}, []
        for fname, safe, kind in fields:
            plist.append((fname, safe))
            if kind == "string":
                v = rng.choice(["x", "", "NaN", "héllo"])
                doc[fname] = v
                expected[fname] = (v, "exact")
            elif kind == "int":
                v = rng.choice([0, -5, 2**31 - 1])
                doc[fname] = v
                expected[fname] = (str(v), "exact")
            elif kind == "long":
                v = rng.choice([2**53 - 1, -7])
                doc[fname] = v
                expected[fname] = (str(v), "exact")
            elif kind == "double":
                v, bits = rng.choice([(1.5, "0x3ff8000000000000"), ("NaN", "0x7ff8000000000000"), ("Infinity", "0x7ff0000000000000"),
                                      (0.1, "0x3fb999999999999a")])
                doc[fname] = v
                expected[fname] = (bits, "double")
            elif kind == "bool":
                v = rng.chance(1, 2)
                doc[fname] = v
                expected[fname] = ("true" if v else "false", "exact")
            elif kind == "uuid":
                doc[fname] = UUID
                expected[fname] = (UUID, "exact")
            elif kind == "rid":
                doc[fname] = "ri.a.b.c.d"
                expected[fname] = ("ri.a.b.c.d", "exact")
            elif kind == "enum":
                v = rng.choice(["RED", "BLUE", "GREEN"])
                doc[fname] = v
                expected[fname] = (v, "exact")
            elif kind == "opt":
                if rng.chance(1, 2):
                    doc[fname] = "present"
                    expected[fname] = ("present", "exact")
            elif kind == "list":
                doc[fname] = ["a"] * rng.below(3)
            elif kind == "listint":
                doc[fname] = [1] * rng.below(3)
            elif kind == "map":
                doc[fname] = {"k": 1}
            elif kind == "obj":
                doc[fname] = {"a": 1}
            elif kind == "bin":
                doc[fname] = "AQID"
            elif kind == "time":
                doc[fname] = "2017-01-02T03:04:05Z"
                expected[fname] = (None, "datetime")
        mode = rng.choice(["service", "service_safe", "propagated", "propagated_safe"])
        cfg = rng.choice(["a", "b"])
        if ty == "ErrAll" and cfg == "b" and doc.get("sEnum") == "GREEN":
            doc["sEnum"] = "RED"
            expected["sEnum"] = ("RED", "exact")
        if ty == "ErrAll" and cfg == "b" and doc.get("uEnum") == "GREEN":
            doc["uEnum"] = "BLUE"
            expected["uEnum"] = ("BLUE", "exact")
        cid = "g%d" % j
        gdocs.append(json.dumps({"id": cid, "cfg": cfg, "ty": ty, "doc": json.dumps(doc), "mode": mode}))
        gmeta[cid] = (ty, code, name, plist, expected, mode, doc)
    for obs in vc.ndjson(vc.harness_parallel("vgen", ["error"], gdocs, nproc=4)):
        ty, code, name, plist, expected, mode, doc = gmeta[obs["id"]]
        replayed += 1
        rep = {"type": ty, "doc": doc, "mode": mode}
        if "skip" in obs or "parse_err" in obs:
            raise vc.ToolError("generated error %s: %s" % (ty, obs))
        if obs.get("panic"):
            out.violation("C17:generated:panic", "panic in %s" % ty, rep)
            continue
        # datetime parameters are rendered as strings; the property does not fix their text
        exp = {k: v for k, v in expected.items() if v[1] != "datetime"}
        got_params = {k: v for k, v in obs["parameters"].items() if expected.get(k, ("", ""))[1] != "datetime"}
        shaped = {"encoded": {"code": obs["code"], "name": obs["name"], "instance": UUID if obs["given_id_kept"] else "changed",
                              "parameters": got_params},
                  "fresh_ids_differ": obs["fresh_id_differs"], "json_roundtrip": obs["json_roundtrip"],
                  "safe_params": {k: v for k, v in obs["safe_params"].items() if k in got_params},
                  "unsafe_params": {k: v for k, v in obs["unsafe_params"].items() if k in got_params}, "status": obs["status"]}
        judge(plist, exp, mode.startswith("propagated"), code, name, UUID, shaped, out, rep, "generated")
        want_sorted = sorted(n for n, s in plist if s)
        if list(obs["declared_safe_args"]) != want_sorted:
            out.violation("C17:generated:safe-args", "safe_args() = %s, expected the sorted declared safe names %s" % (
                obs["declared_safe_args"], want_sorted), rep)
        nontrivial.add((ty, json.dumps(doc, sort_keys=True), mode))
    out.coverage = {
        "states": states, "transitions": transitions, "traces_validated_against_impl": replayed,
        "samples": samples, "evaluations": replayed, "distinct_nontrivial": len(nontrivial),
        "rule": "every error definition TLC emits (all with <=2 parameters, a seeded share of larger ones; 15 value classes; "
                "direct and propagated) as a dynamically defined ErrorType with concrete values, all 10 error codes and "
                "given/fresh instance ids; seeded random parameter documents for 5 generated error types x 2 configs x 4 "
                "constructors. Distinct by (definition, propagated) / (type, document, mode).",
        "model_runs": runs, "coverage_by_action": cov, "exhaustive": True,
    }
    out.assumptions = ["TLC 1.8.0", "harness dynval.rs (struct Serialize) for dynamically defined errors",
                       "datetime / bearer-token parameter text is a don't-care"]
    return out.finish()


def replay(path, seed):
    rep = json.load(open(path))["case"]
    print("replay of C17 cases re-runs the quick check restricted to the recorded definition")
    out = vc.Outcome(PID, "quick", seed, "model_checking")
    if "ps" in rep:
        r2 = vc.Rng(seed)
        params, expected, plist = [], {}, []
        for p in rep["ps"]:
            v, text, kind = value_of(p["cls"], r2)
            params.append([p["name"], p["safe"], v])
            plist.append((p["name"], p["safe"]))
            if text is not None:
                expected[p["name"]] = (text, kind)
        mode = "propagated" if rep["propagated"] else "service"
        obs = vc.ndjson(vc.harness("vh", ["errors"], stdin=json.dumps({"id": "r", "code": rep["code"], "name": "Verif:Err", "instance": None,
                                                                      "mode": mode, "params": params}) + "\n"))[0]
        judge(plist, expected, rep["propagated"], rep["code"], "Verif:Err", None, obs, out, rep, "dynamic")
    print("replay: property %s" % ("VIOLATED" if out.violations else "holds"))
    return 1 if out.violations else 0
