"""X07 (extension) - what the generated server trait and client say about an endpoint, as a function of its definition
(spec/EndpointAttr.tla, spec/MCEndpointAttr.tla).

TLC checks ServerAgrees / ProducesAgrees / ClientAgrees / SidesConsistent for every method x return class (13, with aliases of
binary / optional binary / list / string) x credentials x name kind x path shape x deprecation (3 744 definitions); the model
that asks `is_iterable` before the optional-binary arm must be rejected.  Every emitted definition becomes one endpoint of one
service that goes through the REAL generator (vh gen-tree); the `#[endpoint(method, path, name, produces)]` attribute and the
`#[auth]` argument of the generated server trait, and the method constant and `#[deprecated(note)]` of the generated client,
are compared with the property layer (VIOLATION; the response serializer, which X03 owns, only as MODEL-DRIFT).
"""
import json
import os
import re
import shutil
import subprocess

import irgen as ir
import vcommon as vc

PID = "X07"
PKG = "com.palantir.att"
P = ir.prim

TYPES = [ir.alias_("ABin", P("BINARY"), package=PKG), ir.alias_("AOptBin", ir.optional(P("BINARY")), package=PKG),
         ir.alias_("AList", ir.list_(P("STRING")), package=PKG), ir.alias_("AStr", P("STRING"), package=PKG),
         ir.object_("Obj", [ir.field("a", P("STRING"))], package=PKG)]
RET = {"none": None, "string": P("STRING"), "object": ir.ref("Obj", PKG), "optstring": ir.optional(P("STRING")), "list": ir.list_(P("STRING")),
       "map": ir.map_(P("STRING"), P("INTEGER")), "set": ir.set_(P("STRING")), "binary": P("BINARY"), "optbinary": ir.optional(P("BINARY")),
       "aliasbinary": ir.ref("ABin", PKG), "aliasoptbinary": ir.ref("AOptBin", PKG), "aliaslist": ir.ref("AList", PKG), "aliasstring": ir.ref("AStr", PKG)}
SER = {"absent": None, "OptionalBinary": "conjure_http::server::conjure::OptionalBinaryResponseSerializer", "Binary": "conjure_http::server::conjure::BinaryResponseSerializer",
       "Collection": "conjure_http::server::conjure::CollectionResponseSerializer", "Std": "conjure_http::server::StdResponseSerializer"}


def wire_name(kind, k):
    return {"plain": "ep%d", "camel": "getFooBar%dBaz", "acronym": "loadHTTPUrl%dX"}[kind] % k


def path_of(kind, k):
    return {"literal": "/att/e%d/fixed", "param": "/att/e%d/{p}", "params2": "/att/e%d/{p}/x/{q}", "regex": "/att/e%d/{p:.+}"}[kind] % k


def note(k):
    return "use ep%d \"instead\" - since 1.%d" % (k + 1, k)


def endpoint(k, d):
    args = [ir.arg(n, P("STRING"), "path") for n in {"literal": [], "param": ["p"], "params2": ["p", "q"], "regex": ["p"]}[d["path"]]]
    e = ir.endpoint(wire_name(d["name"], k), d["method"], path_of(d["path"], k), args, returns=RET[d["class"]],
                    auth={"none": None, "header": "header", "cookie": "CK_%d" % k}[d["auth"]])
    if d["deprecated"]:
        e["deprecated"] = note(k)
    return e


def norm(s):
    return re.sub(r"\s+", "", s)


def parse_server(text):
    """wire name -> list of (method, path, produces, auth, deprecated) over the sync and async server traits"""
    out = {}
    for m in re.finditer(r"((?:#\[[^\]]*\]\s*)*)#\[endpoint\(\s*method\s*=\s*(\w+)\s*,\s*path\s*=\s*\"([^\"]*)\"\s*,\s*name\s*=\s*\"([^\"]*)\"\s*(?:,\s*produces\s*=\s*([^)\]]*?))?\s*\)\]"
                         r"\s*(?:async\s+)?fn\s+\w+\s*\(\s*&self\s*(,\s*#\[auth(?:\(\s*cookie_name\s*=\s*\"([^\"]*)\"\s*\))?\])?", text):
        auth = "none" if not m.group(6) else ("cookie:" + m.group(7) if m.group(7) is not None else "header")
        out.setdefault(m.group(4), []).append({"method": m.group(2), "path": m.group(3), "produces": norm(m.group(5)) if m.group(5) else None, "auth": auth,
                                               "deprecated": "deprecated" in m.group(1)})
    return out


def parse_client(text, fn_names):
    """Rust fn name -> list of (method, deprecated note) over the blocking and async clients"""
    out = {}
    for m in re.finditer(r"(#\[deprecated\(\s*note\s*=\s*\"((?:[^\"\\]|\\.)*)\"\s*\)\]\s*)?pub\s+(?:async\s+)?fn\s+(\w+)\s*(?:<[^>]*>)?\s*\(\s*&self[^{]*\{(.*?)\n    \}", text, re.S):
        mm = re.search(r"method_mut\(\)\s*=\s*conjure_http::private::http::Method::(\w+)", m.group(4))
        ex = re.search(r"conjure_http::client::Endpoint::new\(\s*\"([^\"]*)\"\s*,\s*([\w:]+(?:\([^)]*\))?)\s*,\s*\"([^\"]*)\"\s*,\s*\"([^\"]*)\"\s*,?\s*\)", m.group(4))
        if mm and m.group(3) in fn_names:
            out.setdefault(m.group(3), []).append({"method": mm.group(1), "note": m.group(2), "ext": list(ex.groups()) if ex else None})
    return out


def run(tier, seed):
    out = vc.Outcome(PID, tier, seed, "model_checking")
    r = vc.tlc(PID, "MCEndpointAttr", "MCEndpointAttr.cfg", workers=4, timeout_s=600)
    if r.error:
        raise vc.ToolError(r.error)
    vc.require_actions(r, ["Pick"])
    if r.violated:
        out.model_drift("model:%s" % r.violated, "TLC reports %s" % r.violated)
    rm = vc.tlc(PID, "MCEndpointAttr", "MCEndpointAttr_mut.cfg", workers=2, timeout_s=300, coverage=False, keep_cases=False)
    if not set(rm.violated or []) & {"ProducesAgrees", "ServerAgrees"}:
        raise vc.ToolError("spec self-test failed: `is_iterable` before the optional-binary arm passes ProducesAgrees")
    vc.cargo_build("vh")
    vh = os.path.join(vc.TARGET, "debug", "vh")
    d = os.path.join(vc.OUT, "x07")
    shutil.rmtree(d, ignore_errors=True)
    os.makedirs(d)
    cases = sorted(r.cases, key=lambda c: json.dumps(c["def"], sort_keys=True))
    irp = os.path.join(d, "att.json")
    with open(irp, "w") as f:
        json.dump(ir.definition(types=TYPES, services=[ir.service("Att", [endpoint(k, c["def"]) for k, c in enumerate(cases)], package=PKG)]), f)
    od = os.path.join(d, "gen")
    p = subprocess.run([vh, "gen-tree", irp, od, json.dumps({"strip_prefix": PKG})], stdout=subprocess.PIPE, stderr=subprocess.PIPE, text=True, timeout=900)
    if p.returncode != 0:
        out.violation("X07:generate", "generation fails on a service of plain endpoints: %s" % p.stderr[-300:], {"ir": irp})
        return out.finish()
    text = ""
    for dp, _, fns in os.walk(od):
        for fn in sorted(fns):
            text += open(os.path.join(dp, fn)).read()
    srv = parse_server(text)
    # the Rust name of an endpoint is read from the server trait (naming itself is C03's subject)
    fn_of = {}
    for m in re.finditer(r"name\s*=\s*\"([^\"]*)\"[^\]]*\)\]\s*(?:async\s+)?fn\s+(\w+)", text):
        fn_of[m.group(1)] = m.group(2)
    cli = parse_client(text, set(fn_of.values()))
    if len(srv) < len(cases) or len(cli) < len(cases):
        raise vc.ToolError("parsed %d server / %d client endpoints of %d" % (len(srv), len(cli), len(cases)))
    n = 0
    for k, c in enumerate(cases):
        df, want = c["def"], c["server"]
        name = wire_name(df["name"], k)
        g = srv.get(name)
        rep = {"case": c, "endpoint": name, "server": g}
        if not g or len(g) != 2:
            out.violation("X07:name:%s" % df["name"], "endpoint %s is not in both generated server traits under its wire name (found %d)" % (name, len(g or [])), rep)
            continue
        n += 1
        want_auth = {"none": "none", "header": "header", "cookie": "cookie:CK_%d" % k}[df["auth"]]
        for s in g:
            if s["method"] != want["method"]:
                out.violation("X07:server-method:%s" % df["method"], "%s is generated with method %s" % (df["method"], s["method"]), rep)
            if s["path"] != path_of(df["path"], k):
                out.violation("X07:server-path:%s" % df["path"], "path template %s is generated as %s" % (path_of(df["path"], k), s["path"]), rep)
            if s["auth"] != want_auth:
                out.violation("X07:server-auth:%s" % df["auth"], "credentials %s are generated as %s" % (want_auth, s["auth"]), rep)
            if s["deprecated"]:
                out.violation("X07:server-deprecated", "the server trait method carries #[deprecated]", rep)
            if s["produces"] != (norm(SER[want["produces"]]) if SER[want["produces"]] else None):
                out.model_drift("X07:produces:%s" % df["class"], "return class %s is generated with serializer %s, model says %s" % (df["class"], s["produces"], want["produces"]))
        gc = cli.get(fn_of.get(name, ""))
        rep["client"] = gc
        if not gc or len(gc) != 2:
            raise vc.ToolError("client method for %s not found (%s)" % (name, fn_of.get(name)))
        for s in gc:
            if s["method"] != c["client"]["method"]:
                out.violation("X07:client-method:%s" % df["method"], "the client sends %s for a %s endpoint" % (s["method"], df["method"]), rep)
            if s["ext"] is None or s["ext"][0] != "Att" or s["ext"][2] != name or s["ext"][3] != path_of(df["path"], k):
                out.violation("X07:client-extension:%s" % ("missing" if s["ext"] is None else "service" if s["ext"][0] != "Att" else "name" if s["ext"][2] != name else "path"),
                              "the client's Endpoint extension for %s %s is %s" % (name, path_of(df["path"], k), s["ext"]), rep)
            got_note = None if s["note"] is None else json.loads('"%s"' % s["note"])
            want_note = note(k) if df["deprecated"] else None
            if got_note != want_note:
                out.violation("X07:client-deprecated:%s" % ("lost" if got_note is None else "spurious" if want_note is None else "note"),
                              "deprecation %r is generated as %r" % (want_note, got_note), rep)
    out.coverage = {"states": r.distinct, "transitions": r.generated, "traces_validated_against_impl": n, "evaluations": n, "distinct_nontrivial": n,
                    "samples": cases[1:4], "rule": "every definition TLC enumerates is one endpoint of one generated service; 2 server traits + 2 clients read back",
                    "coverage_by_action": {k2: v[1] for k2, v in r.coverage.items()}, "exhaustive": True}
    out.assumptions = ["TLC 1.8.0", "attributes are read from the generated text (formatted by the generator's own prettyplease/rustfmt pass)",
                       "Rust identifiers of endpoints are C03's subject; here they are only used to find the client method"]
    return out.finish()


def replay(path, seed):
    print("replay: re-run `bin/check X07`")
    return 0
