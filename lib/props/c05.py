"""C05 - Servers reject and clients ignore unknown object fields at every nesting depth (spec/SerdeWrap.tla).

TLC checks that strictness (UnknownFieldsBehavior) survives every re-wrap on every path to a struct (a model with one
re-wrap removed must fail).  Every emitted path gets a struct at its end; undeclared fields are injected at the first /
middle / last position (one or two of them) with eight kinds of payload; the mutated document (JSON text, Smile bytes)
goes through all server entry points (must fail naming the field) and all client entry points (must equal the value of
the clean document).  Real derived structs and random deep paths are driven the same way.
"""
import json
import os

import vcommon as vc

PID = "C05"
PAYLOADS = [None, 17, "NaN", True, {"x": [1, "NaN", None]}, [[], {}], {"a": {"b": {"c": {"d": [1, 2, {"e": None}]}}}},
            18446744073709551615, 1.5, "",
            # integers beyond 64 bits (a bare number in JSON, a BigInteger in Smile), alone and nested
            "@wide:18446744073709551616", {"x": ["@wide:-9223372036854775809", 1]}, "@wide:340282366920938463463374607431768211455",
            [["@wide:-170141183460469231731687303715884105728"]]]
NAMESETS = [["0first"], ["azz"], ["zlast"], ["0first", "zlast"], ["azz", "bzz"],
            ["azz" + "q" * 200], ["0" + "f" * 140, "z" + "l" * 300]]      # names longer than any small inline buffer
# the Deserializer structs (json_server_str ...) and the convenience functions (json_server_fn_str = json::server_from_str ...)
SERVER = ["json_server_str", "json_server_slice", "json_server_reader", "smile_server_slice", "smile_server_reader",
          "smile_server_mut_slice", "json_server_fn_str", "json_server_fn_slice", "json_server_fn_reader",
          "smile_server_fn_slice", "smile_server_fn_reader", "smile_server_fn_mut_slice",
          "json_server_http", "smile_server_http",
          "json_server_str_esckey", "json_server_slice_esckey"]      # the undeclared keys spelled with \\uXXXX escapes      # the deserializers of conjure-http's JsonEncoding / SmileEncoding
CLIENT = ["json_client_str", "json_client_slice", "json_client_reader", "smile_client_slice", "smile_client_reader",
          "smile_client_mut_slice", "json_client_fn_str", "json_client_fn_slice", "json_client_fn_reader",
          "smile_client_fn_slice", "smile_client_fn_reader", "smile_client_fn_mut_slice",
          "json_client_str_esckey", "json_client_reader_esckey"]
# the object at the end of the path: two declared fields (twice as often), none, one
SHAPES = ["struct", "struct0", "struct", "struct1"]
STEPS = ["some", "newtype_struct", "newtype_variant", "seq_elem", "tuple_elem", "tuple_struct_field",
         "tuple_variant_field", "map_value", "struct_field", "struct_variant_field"]


def judge(path, names, obs, out, rep):
    if "panic" in obs:
        out.violation("C05:panic", "panic: %s" % obs["panic"][:100], rep)
        return
    if "skip" in obs:
        raise vc.ToolError("case cannot be built: %s" % obs["skip"])
    sig_path = "/".join(path[-2:]) or "root"
    for name in SERVER:
        r = obs["results"][name]
        fmt = name.split("_")[0]
        if r["ok"]:
            out.violation("C05:server-accepts:%s:%s" % (fmt, sig_path),
                          "%s accepted a document with undeclared field(s) %s at %s" % (name, names, "/".join(path) or "root"), rep)
        elif not any(n in r["err"] for n in names):
            out.violation("C05:server-error-unnamed:%s:%s" % (fmt, sig_path),
                          "%s rejected but does not name the field: %s" % (name, r["err"][:100]), rep)
    for name in CLIENT:
        r = obs["results"][name]
        fmt = name.split("_")[0]
        if not r["ok"]:
            out.violation("C05:client-rejects:%s:%s" % (fmt, sig_path),
                          "%s failed on an undeclared field: %s" % (name, r["err"][:100]), rep)
        elif not r["equal"]:
            out.violation("C05:client-value-changed:%s:%s" % (fmt, sig_path), "%s yields a different value" % name, rep)


GEN_TYPES = [   # (generated type, clean document, paths to the objects inside it)
    ("Empty", {}, [[]]),
    ("Inner", {"a": 1}, [[]]),
    ("HoldsEmpty", {"e": {}, "l": [{}, {}]}, [[], ["e"], ["l", 1]]),
    ("ObjRefInner", {"f": {"a": 1}}, [[], ["f"]]),
    ("ObjOptRefInner", {"f": {"a": 1}}, [["f"]]),
    ("ObjListRefInner", {"f": [{"a": 1}, {"a": 2}]}, [["f", 0], ["f", 1]]),
    ("ObjAlRefInner", {"f": {"a": 1}}, [["f"]]),
    ("ObjExRefInner", {"f": {"a": 1}}, [["f"]]),
    ("DoubleBag", {"d": 1.5, "nested": {"x": 2.5}}, [[], ["nested"]]),
]


def generated_stage(out, rng):
    """the same rule on GENERATED object types (harness/vgen, both configurations): objects without fields, nested objects,
    objects behind optional / list / alias / external"""
    import copy
    docs, meta = [], {}
    k = 0
    for ty, clean, paths in GEN_TYPES:
        for path in paths:
            for names in NAMESETS:
                payload = rng.choice(PAYLOADS)
                doc = copy.deepcopy(clean)
                cur = doc
                for step in path:
                    cur = cur[step]
                for n in names:
                    cur[n] = payload
                for cfg in ("a", "b"):
                    for d, kind in ((doc, "dirty"), (clean, "clean")):
                        cid = "g%d" % k
                        k += 1
                        docs.append(json.dumps({"id": cid, "cfg": cfg, "ty": ty, "doc": json.dumps(d)}))
                        meta[cid] = (ty, path, names, kind, cfg, json.dumps(d), json.dumps(clean))
    res = {o["id"]: o for o in vc.ndjson(vc.harness("vgen", ["wire"], stdin="\n".join(docs) + "\n"))}
    n = 0
    cleans = {}
    for cid, (ty, path, names, kind, cfg, d, clean) in meta.items():
        o = res.get(cid)
        if o is None or o.get("skip"):
            raise vc.ToolError("generated type %s missing from the zoo: %s" % (ty, o))
        if kind == "clean":
            if "ok" not in o["server"] or "ok" not in o["client"]:
                raise vc.ToolError("clean document %s of %s is rejected: %s" % (d, ty, o))
            cleans[(ty, cfg)] = o["client"]["ok"]
    for cid, (ty, path, names, kind, cfg, d, clean) in meta.items():
        if kind == "clean":
            continue
        o = res[cid]
        n += 1
        rep = {"generated_type": ty, "config": cfg, "doc": d, "names": names, "path": path}
        sig = "%s:%s" % (ty, "nested" if path else "top")
        if "ok" in o["server"]:
            out.violation("C05:generated:server-accepts:%s" % sig, "the server deserializer of generated %s accepts %s" % (ty, d[:80]), rep)
        elif not any(nm in o["server"].get("err", "") for nm in names):
            out.violation("C05:generated:server-error-unnamed:%s" % sig, "rejected without naming the field: %s" % o["server"].get("err", "")[:100], rep)
        if "ok" not in o["client"]:
            out.violation("C05:generated:client-rejects:%s" % sig, "the client deserializer of generated %s fails on %s: %s" % (ty, d[:60], o["client"].get("err", "")[:80]), rep)
        elif o["client"]["ok"] != cleans[(ty, cfg)]:
            out.violation("C05:generated:client-value-changed:%s" % sig, "client value %s differs from the clean document's %s" % (o["client"]["ok"][:60], cleans[(ty, cfg)][:60]), rep)
    return n


def run(tier, seed):
    out = vc.Outcome(PID, tier, seed, "model_checking")
    rng = vc.Rng(seed)
    workers = 4 if tier == "quick" else 16
    cfgs = ["MCSerdeWrap_q.cfg"] + (["MCSerdeWrap_t.cfg"] if tier == "thorough" else [])
    cases, states, transitions, cov, runs = [], 0, 0, {}, []
    for cfg in cfgs:
        r = vc.tlc(PID, "MCSerdeWrap", cfg, workers=workers, timeout_s=3000, extra_env={"EMITRES": str(seed)})
        if r.error:
            raise vc.ToolError("%s: %s" % (cfg, r.error))
        vc.require_actions(r, ["Step", "PickStruct"])
        runs.append({"cfg": cfg, "generated": r.generated, "distinct": r.distinct, "violated": r.violated,
                     "wall_s": round(r.wall_s, 1), "cases": len(r.cases)})
        if r.violated:
            out.notes.append("TLC: model of the current mechanism violates %s in %s" % (r.violated, cfg))
        states += r.distinct
        transitions += r.generated
        for k, v in r.coverage.items():
            cov[k] = max(cov.get(k, 0), v[1])
        cases.extend(c for c in r.cases if c["leaf"] == "struct")
    rm = vc.tlc(PID, "MCSerdeWrap", "MCSerdeWrap_mutde.cfg", workers=2, timeout_s=300, coverage=False, keep_cases=False)
    if not rm.violated:
        raise vc.ToolError("spec self-test failed: a deserializer without one re-wrap passes all invariants")
    vc.log("[tlc] %d states, %d struct paths" % (states, len(cases)))
    docs, meta, shapes = [], {}, {}
    seen = set()
    k = 0
    for ci, c in enumerate(cases):
        if tuple(c["path"]) in seen:
            continue
        seen.add(tuple(c["path"]))
        combos = [(n, p) for n in NAMESETS for p in PAYLOADS]
        if tier == "quick" and len(c["path"]) >= 2:
            combos = rng.sample(combos, 6)
        for names, payload in combos:
            cid = "c%d" % k
            k += 1
            docs.append(json.dumps({"id": cid, "path": c["path"], "names": names, "payload": payload, "seed": seed + k, "shape": SHAPES[len(docs) % 4]}))
            shapes[cid] = SHAPES[(len(docs) - 1) % 4]
            meta[cid] = (c["path"], names, payload)
    # deep random paths (I->S style: seeded random, beyond the exhaustive bound)
    ndeep = 1500 if tier == "quick" else 15000
    for j in range(ndeep):
        path = [rng.choice(STEPS) for _ in range(4 + rng.below(5))]
        names, payload = rng.choice(NAMESETS), rng.choice(PAYLOADS)
        cid = "d%d" % j
        docs.append(json.dumps({"id": cid, "path": path, "names": names, "payload": payload, "seed": seed * 31 + j, "shape": SHAPES[j % 4]}))
        shapes[cid] = SHAPES[j % 4]
        meta[cid] = (path, names, payload)
    text = vc.harness_parallel("vh", ["serde", "c05"], docs, nproc=6)
    replayed = generated_stage(out, rng)
    nontrivial = set()
    samples = []
    for obs in vc.ndjson(text):
        path, names, payload = meta[obs["id"]]
        replayed += 1
        judge(path, names, obs, out, {"path": path, "names": names, "payload": payload, "shape": shapes[obs["id"]]})
        if path:
            nontrivial.add((tuple(path), tuple(names), json.dumps(payload)))
        if len(samples) < 3 and len(path) == 3 and "doc" in obs:
            samples.append({"path": path, "names": names, "doc": obs["doc"], "server": obs["results"]["json_server_str"],
                            "client": obs["results"]["json_client_str"]})
    out.coverage = {
        "states": states, "transitions": transitions, "traces_validated_against_impl": replayed,
        "samples": samples, "evaluations": replayed, "distinct_nontrivial": len(nontrivial),
        "rule": "every path TLC emits to a struct (all of length <=2, a seeded share of longer ones) x {first, middle, "
                "last, two fields} x 10 payloads (quick: 6 random combinations for paths >=2), JSON text and Smile bytes, "
                "6 server + 6 client entry points; plus seeded random paths of 4-8 steps. Non-trivial = non-empty path; "
                "distinct by (path, injected names, payload).",
        "model_runs": runs, "coverage_by_action": cov, "exhaustive": True,
    }
    out.assumptions = ["TLC 1.8.0", "serde_json / serde_smile are used to build the mutated documents",
                       "unknown keys directly inside a serde struct *variant* are outside the property (object types only)"]
    return out.finish()


def replay(path, seed):
    rep = json.load(open(path))["case"]
    obs = vc.ndjson(vc.harness("vh", ["serde", "c05"], stdin=json.dumps({"id": "r", "path": rep["path"], "names": rep["names"],
                                                                         "payload": rep["payload"], "seed": seed, "shape": rep.get("shape", "struct")}) + "\n"))[0]
    out = vc.Outcome(PID, "quick", seed, "model_checking")
    judge(rep["path"], rep["names"], obs, out, rep)
    print(json.dumps(obs)[:1500])
    print("replay: property %s" % ("VIOLATED" if out.violations else "holds"))
    return 1 if out.violations else 0
