"""C10 - Unknown enum values and union variants survive a round trip unless exhaustive (spec/WireFormat.tla).

TLC checks the generated union deserializer's automaton (type-first / value-first / end) against the reference for every
member sequence of length <= 3 over {type, two listed variants, an unlisted one} x payload classes, for both
configurations, plus KnownNeverUnknown / ExhaustiveRejectsUnlisted; enum names are classified over the name grammar.
Every emitted sequence is concretised with several JSON payloads (nested objects, arrays, numbers incl. 64-bit extremes,
null, strings such as "NaN") and parsed by the generated Shape/Color types of both configurations (harness/vgen);
unknown values must re-serialise to an equivalent document, listed ones must be classified as themselves.
Seeded random unlisted names and payloads extend the bound.
"""
import json

import vcommon as vc

PID = "C10"
PAYLOADS = [None, 14.5, 17, -9223372036854775808, 18446744073709551615, "NaN", "Infinity", "", "x", True, [], {},
            [1, "NaN", None, {"a": []}], {"a": {"b": {"c": [1.5, "-Infinity", None]}}, "type": "zzz", "1": 1}, 1e300, -0.0,
            "AQID", [[[[]]]], {"": None}, {"007": 1, "1.50": 2, "inf": 3, "01": 4, "1": 5, "true": 6, "-0": 7, "1e3": 8}, [{"NaN": {"+1": "x"}}],
            # doubles that are exactly representable in 32 bits but have a long 64-bit decimal, alone and nested (mid-range
            # exponents only: serde_json without float_roundtrip may parse 17-digit numbers at extreme exponents 1 ulp off)
            0.10000000149011612, 2.000000238418579, [0.30000001192092896, {"x": 0.699999988079071}], {"f": 1.100000023841858}]
GOOD = {"circle": [1.5, "NaN", 3, -0.0], "name": ["x", "", "NaN"]}
BAD = {"circle": ["abc", True, [1], {"q": 1}, None], "name": [12, False, [], {}, None]}


def member_docs(members, rng):
    """abstract member sequence -> list of (json text, unknown payload or None).  Text keeps the member order."""
    outs = []
    for trial in range(3):
        parts = []
        payload = None
        for m in members:
            if m["key"] == "type":
                parts.append((json.dumps("type"), json.dumps(m["val"] if m["val"] not in ("zzz", "yyy") else {"zzz": "fooBar", "yyy": "bazqux"}[m["val"]])))
            else:
                key = m["key"] if m["key"] != "zzz" else "fooBar"
                if m["key"] in GOOD:
                    v = rng.choice(GOOD[m["key"]] if m["val"] == "good" else BAD[m["key"]])
                else:
                    v = rng.choice(PAYLOADS)
                    payload = v
                parts.append((json.dumps(key), json.dumps(v)))
        outs.append(("{" + ",".join("%s:%s" % p for p in parts) + "}", payload))
    return outs


def json_equiv(a, b):
    return json.dumps(a, sort_keys=True) == json.dumps(b, sort_keys=True)


def judge_union(pid, members, exhaustive, text, obs, ref, out, rep):
    if obs.get("panic"):
        out.violation("%s:union:panic" % pid, "panic on %s" % text[:80], rep)
        return None
    got = None
    for side in ("server", "client"):
        o = obs[side]
        accepted = "ok" in o
        got = accepted
        if ref == "reject" and accepted:
            kinds = [m["key"] for m in members]
            what = "mismatch" if len(members) == 2 and "type" in kinds else ("members=%d" % len(members))
            out.violation("%s:union:accepted-invalid:%s:%s" % (pid, what, "exhaustive" if exhaustive else "default"),
                          "%s accepts %s" % (side, text[:100]), rep)
        elif ref in ("known", "unknown") and not accepted:
            out.violation("%s:union:rejected-valid:%s:%s" % (pid, ref, "type-first" if members[0]["key"] == "type" else "value-first"),
                          "%s rejects %s: %s" % (side, text[:100], o.get("err", "")[:80]), rep)
        elif accepted:
            re = json.loads(o["ok"])
            orig = json.loads(text)
            if not json_equiv(re, orig):
                # numbers may legitimately change spelling (3 -> 3.0 for a double); compare numerically
                if not (ref == "known" and loosely_equal(re, orig)):
                    out.violation("%s:union:not-equivalent:%s" % (pid, ref), "%s re-serialised as %s" % (text[:80], o["ok"][:80]), rep)
            if list(re.keys())[0] != "type":
                out.violation("%s:union:canonical-order" % pid, "re-serialised document does not start with \"type\": %s" % o["ok"][:80], rep)
    return got


def loosely_equal(a, b):
    if isinstance(a, dict) and isinstance(b, dict):
        return set(a) == set(b) and all(loosely_equal(a[k], b[k]) for k in a)
    if isinstance(a, list) and isinstance(b, list):
        return len(a) == len(b) and all(loosely_equal(x, y) for x, y in zip(a, b))
    if isinstance(a, (int, float)) and isinstance(b, (int, float)) and not isinstance(a, bool) and not isinstance(b, bool):
        return float(a) == float(b)
    return a == b and type(a) == type(b)


def union_enum_replay(pid, tier, seed, out, rng):
    """runs the union and enum parts; returns (states, transitions, runs, coverage, replayed, nontrivial, samples)"""
    workers = 4 if tier == "quick" else 16
    cases, states, transitions, cov, runs = [], 0, 0, {}, []
    for cfg, tag, ex in (("MCWireFormat_default.cfg", "a", False), ("MCWireFormat_strict.cfg", "b", True)):
        r = vc.tlc(pid, "MCWireFormat", cfg, workers=workers, timeout_s=1200)
        if r.error:
            raise vc.ToolError("%s: %s" % (cfg, r.error))
        vc.require_actions(r, ["AddMember", "PickUnion", "PickEnum"])
        runs.append({"cfg": cfg, "generated": r.generated, "distinct": r.distinct, "violated": r.violated,
                     "wall_s": round(r.wall_s, 1)})
        if r.violated:
            out.notes.append("TLC: %s violated in %s" % (r.violated, cfg))
        states += r.distinct
        transitions += r.generated
        for k, v in r.coverage.items():
            cov[k] = max(cov.get(k, 0), v[1])
        cases.extend((tag, ex, c) for c in r.cases if c["kind"] in ("union", "enum"))
    docs, meta = [], {}
    k = 0
    for tag, ex, c in cases:
        if c["kind"] == "union":
            for text, payload in member_docs(c["members"], vc.Rng(seed * 1000003 + k)):
                cid = "u%d" % k
                k += 1
                docs.append(json.dumps({"id": cid, "cfg": tag, "ty": "Shape", "doc": text}))
                meta[cid] = ("union", tag, ex, c, text)
        else:
            name = {"lower": "red", "": ""}.get(c["ename"], c["ename"])
            for nm in ([name] if name in ("RED", "BLUE", "") else [name, name + "_2"] if name != "red" else ["red", "Red", "RED BLUE", "GRÜN"]):
                cid = "e%d" % k
                k += 1
                docs.append(json.dumps({"id": cid, "cfg": tag, "ty": "Color", "doc": json.dumps(nm)}))
                meta[cid] = ("enum", tag, ex, c, nm)
    # seeded random unlisted names / payloads (beyond the enumerated bound), both member orders
    nrand = 1500 if tier == "quick" else 15000
    for j in range(nrand):
        tag, ex = rng.choice([("a", False), ("b", True)])
        alpha = "abcXYZ_09-. "
        name = "".join(rng.choice(alpha) for _ in range(1 + rng.below(8)))
        if name in ("circle", "name", "type"):
            continue
        payload = rng.choice(PAYLOADS)
        first = rng.chance(1, 2)
        parts = [(json.dumps("type"), json.dumps(name)), (json.dumps(name), json.dumps(payload))]
        if not first:
            parts.reverse()
        text = "{" + ",".join("%s:%s" % p for p in parts) + "}"
        cid = "r%d" % j
        members = [{"key": "type", "val": "zzz"}, {"key": "zzz", "val": "good"}]
        if not first:
            members.reverse()
        docs.append(json.dumps({"id": cid, "cfg": tag, "ty": "Shape", "doc": text}))
        meta[cid] = ("union", tag, ex, {"members": members, "ref": "reject" if ex else "unknown", "mech": None}, text)
        ename = "".join(rng.choice("ABCZ019_") for _ in range(1 + rng.below(10)))
        if ename not in ("RED", "BLUE"):
            cid = "s%d" % j
            docs.append(json.dumps({"id": cid, "cfg": tag, "ty": "Color", "doc": json.dumps(ename)}))
            meta[cid] = ("enum", tag, ex, {"ename": ename, "ref": "reject" if ex else "unknown", "mech": None}, ename)
    text = vc.harness_parallel("vgen", ["wire"], docs, nproc=6)
    replayed = 0
    nontrivial = set()
    samples = []
    for obs in vc.ndjson(text):
        kind, tag, ex, c, doc = meta[obs["id"]]
        replayed += 1
        rep = {"kind": kind, "cfg": tag, "doc": doc, "ref": c["ref"], "members": c.get("members")}
        if "skip" in obs:
            raise vc.ToolError("Shape/Color missing from the zoo")
        va = obs.get("via_any") or {}
        if va.get("agree") is False and (obs.get("client") or {}).get("ok"):
            out.violation("%s:%s:via-any" % (pid, kind), "%s viewed through the dynamic `any` gives %s, direct parsing gives %s" % (
                doc[:70], str(va.get("text") or va.get("err"))[:70], obs["client"]["ok"][:70]), rep)
        for how, same in (obs.get("spellings") or {}).items():
            if not same:
                out.violation("%s:%s:spelling:%s" % (pid, kind, how), "%s: the verdict or value changes when the same document is read %s" % (
                    doc[:70], "from a reader" if "reader" in how else "with its strings written as \\uXXXX escapes" if "escaped" in how else "from a byte slice"), rep)
        if kind == "union":
            got = judge_union(pid, c["members"], ex, doc, obs, c["ref"], out, rep)
            if got is not None and c.get("mech") and got == (c["ref"] != "reject") and got != (c["mech"] != "reject"):
                out.model_drift("WireFormat", "union %s: model %s, code %s" % (doc[:60], c["mech"], got))
            nontrivial.add((tag, doc))
            if len(samples) < 3 and c["ref"] == "unknown" and c["members"][0]["key"] != "type" and "client" in obs:
                samples.append({"config": tag, "doc": doc, "reference": c["ref"], "client": obs["client"]})
        else:
            if obs.get("panic"):
                out.violation("%s:enum:panic" % pid, "panic on %r" % doc, rep)
                continue
            for side in ("server", "client"):
                o = obs[side]
                accepted = "ok" in o
                if c["ref"] == "reject" and accepted:
                    out.violation("%s:enum:accepted-invalid:%s" % (pid, "exhaustive" if ex else "ill-formed"),
                                  "%s accepts enum value %r" % (side, doc), rep)
                elif c["ref"] != "reject" and not accepted:
                    out.violation("%s:enum:rejected-valid:%s" % (pid, c["ref"]), "%s rejects enum value %r: %s" % (
                        side, doc, o.get("err", "")[:80]), rep)
                elif accepted and json.loads(o["ok"]) != doc:
                    out.violation("%s:enum:changed" % pid, "enum value %r re-serialised as %s" % (doc, o["ok"]), rep)
            nontrivial.add((tag, "enum", doc))
    return states, transitions, runs, cov, replayed, nontrivial, samples


def run(tier, seed):
    out = vc.Outcome(PID, tier, seed, "model_checking")
    rng = vc.Rng(seed)
    states, transitions, runs, cov, replayed, nontrivial, samples = union_enum_replay(PID, tier, seed, out, rng)
    # listed variants behave identically in the two configurations (ListedBehaveIdentically)
    docs = []
    import vgen
    grammar = ['"%s"' % v for v in vgen.GRAMMAR_VALUES]
    listed = ['{"type":"circle","circle":1.5}', '{"circle":"NaN","type":"circle"}', '{"type":"name","name":"x"}', '"RED"', '"BLUE"'] + grammar
    for i, d in enumerate(listed):
        for tag in ("a", "b"):
            docs.append(json.dumps({"id": "%d.%s" % (i, tag), "cfg": tag, "ty": "Grammar" if d in grammar else "Color" if d.startswith('"') else "Shape", "doc": d}))
    res = {o["id"]: o for o in vc.ndjson(vc.harness("vgen", ["wire"], stdin="\n".join(docs) + "\n"))}
    for i, d in enumerate(listed):
        a, b = res["%d.a" % i], res["%d.b" % i]
        if a["server"] != b["server"] or a["client"] != b["client"] or "ok" not in a["client"]:
            out.violation("C10:listed-differs", "listed value %s behaves differently under exhaustive" % d, {"doc": d})
        elif d.startswith('"') and "Unknown" in a["client"].get("debug", ""):
            out.violation("C10:listed-as-unknown", "listed enum value %s is held as %s" % (d, a["client"]["debug"]), {"doc": d})
        elif d.startswith('"') and (a["client"]["ok"] != d or a["server"].get("ok") != d):
            # a listed enum value is itself on the wire: it re-serialises to the declared name (an Unknown(..) holder would too,
            # so the PLAIN view in C12 and as_str are checked there)
            out.violation("C10:listed-renamed", "listed enum value %s re-serialises as %s" % (d, a["client"]["ok"]), {"doc": d})
        replayed += 2
    out.coverage = {
        "states": states, "transitions": transitions, "traces_validated_against_impl": replayed,
        "samples": samples, "evaluations": replayed, "distinct_nontrivial": len(nontrivial),
        "rule": "every union member sequence (<=3 members over type/circle/name/unlisted x payload class) and enum name "
                "class TLC emits, x 2 configurations, 3 payload draws each from 19 JSON payloads; seeded random unlisted "
                "names/payloads in both member orders. Distinct by (config, document); all non-trivial.",
        "model_runs": runs, "coverage_by_action": cov, "exhaustive": True,
    }
    out.assumptions = ["TLC 1.8.0", "generated types Shape {circle: double, name: string} and Color {RED, BLUE} of harness/vgen"]
    return out.finish()


def replay(path, seed):
    rep = json.load(open(path))["case"]
    ty = "Shape" if rep["kind"] == "union" else "Color"
    doc = rep["doc"] if rep["kind"] == "union" else json.dumps(rep["doc"])
    obs = vc.ndjson(vc.harness("vgen", ["wire"], stdin=json.dumps({"id": "r", "cfg": rep["cfg"], "ty": ty, "doc": doc}) + "\n"))[0]
    print(json.dumps(obs)[:800])
    out = vc.Outcome(PID, "quick", seed, "model_checking")
    if rep["kind"] == "union":
        judge_union(PID, rep["members"], rep["cfg"] == "b", rep["doc"], obs, rep["ref"], out, rep)
    else:
        ok = "ok" in obs["client"]
        if (rep["ref"] == "reject") == ok:
            out.violation("C10:enum", "verdict differs", rep)
    print("replay: property %s" % ("VIOLATED" if out.violations else "holds"))
    return 1 if out.violations else 0
