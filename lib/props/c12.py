"""C12 - PLAIN text of every parameter value parses back to the same value (spec/Plain.tla).

The TLA+ part is deliberately thin (see DESIGN.md): it fixes the prescribed spellings and the class partition of each
type's domain and checks the Print;Parse law on classes.  Every class TLC emits is concretised with many seeded values
(random f64 bit patterns per class, i32 / safelong boundaries, byte strings of every length mod 3, instants over years
0000-9999 at nanosecond precision, Unicode strings) through the real ToPlain / FromPlain impls, and through the
generated alias / enum impls of harness/vgen; spelling predicates are evaluated on the real text.
"""
import base64
import json
import re
import struct

import vcommon as vc

PID = "C12"
UUID_RE = re.compile(r"\A[0-9a-f]{8}-[0-9a-f]{4}-[0-9a-f]{4}-[0-9a-f]{4}-[0-9a-f]{12}\Z")
RFC3339 = re.compile(r"\A\d{4}-\d{2}-\d{2}T\d{2}:\d{2}:\d{2}(\.\d+)?(Z|[+-]\d{2}:\d{2})\Z")
DAYS = lambda y, m, d: __import__("datetime").date(y, m, d).toordinal() - __import__("datetime").date(1970, 1, 1).toordinal()


def bits(x):
    return "0x%016x" % x


def double_values(cls, rng, n):
    fixed = {"nan": [0x7ff8000000000000, 0xfff8000000000001, 0x7ff0000000000001], "inf": [0x7ff0000000000000],
             "ninf": [0xfff0000000000000], "pzero": [0], "nzero": [0x8000000000000000]}
    if cls in fixed:
        return [bits(b) for b in fixed[cls]]
    out = []
    for _ in range(n):
        if cls == "integral":
            v = float(rng.below(2**53) * (1 if rng.chance(1, 2) else -1))
            out.append(bits(struct.unpack(">Q", struct.pack(">d", v))[0]))
        elif cls == "fraction":
            v = (rng.below(10**6) + 1) / 1000.0 * (1 if rng.chance(1, 2) else -1)
            out.append(bits(struct.unpack(">Q", struct.pack(">d", v))[0]))
        elif cls == "needs17":
            out.append(bits((rng.next() % (0x7fe0000000000000 - 0x0010000000000000)) + 0x0010000000000000))
        elif cls == "subnormal":
            out.append(bits(1 + rng.next() % 0x000fffffffffffff))
        elif cls == "huge":
            out.append(bits(0x7fe0000000000000 + rng.next() % 0x000fffffffffffff | (0x8000000000000000 if rng.chance(1, 2) else 0)))
        else:
            out.append(bits(0x0010000000000000 + rng.next() % 0x00ffffffffffffff))
    return out


def instant(y, mo, d, h, mi, s, nanos):
    return {"secs": DAYS(max(y, 1), mo, d) * 86400 + h * 3600 + mi * 60 + s - (366 * 86400 if y == 0 else 0), "nanos": nanos}


def values_for(ty, cls, rng, n):
    if ty == "double":
        return double_values(cls, rng, n)
    if ty == "integer":
        return {"min": ["-2147483648"], "m1": ["-1"], "zero": ["0"], "one": ["1"], "max": ["2147483647"]}[cls] + \
            [str(rng.below(2**32) - 2**31) for _ in range(n // 4)]
    if ty == "safelong":
        return {"min": [str(-(2**53 - 1))], "m1": ["-1"], "zero": ["0"], "max": [str(2**53 - 1)]}[cls] + \
            [str(rng.below(2**54 - 1) - (2**53 - 1)) for _ in range(n // 4)]
    if ty == "boolean":
        return [cls == "true"]
    if ty == "uuid":
        if cls == "nil":
            return ["00000000-0000-0000-0000-000000000000"]
        if cls == "max":
            return ["ffffffff-ffff-ffff-ffff-ffffffffffff"]
        return ["%08x-%04x-%04x-%04x-%012x" % (rng.below(2**32), rng.below(2**16), rng.below(2**16), rng.below(2**16), rng.below(2**48))
                for _ in range(n)]
    if ty == "rid":
        # every component at its shortest and with every character class of its grammar
        return {"minimal": ["ri.a.b.c.d", "ri.a..t.c", "ri.a1.0.t-2.L"], "emptyinstance": ["ri.service..type.locator", "ri.s..t.l", "ri.s9-x..t9-y._.-"],
                "dottedlocator": ["ri.my-svc.i-1.some-type.a.b_c-D.9", "ri.a..t....", "ri.a.b.c.d.E-_.9"]}[cls]
    if ty == "bearertoken":
        return {"plain": ["abcXYZ019", "a", "0"], "padded": ["dG9rZW4=", "dG9rZQ==", "a=", "a==========="], "symbols": ["a-._~+/b", "-", "~/+._"]}[cls]
    if ty == "binary":
        if cls == "highbytes":
            return [[251, 239, 190, 255, 254], [255] * 7]
        ln = int(cls[3:])
        # lengths around 512 / 1536 / 4098: piecewise encoders have to carry the 3-byte groups across their buffer boundaries
        return [[rng.below(256) for _ in range(ln + 3 * k)] for k in (0, 1, 2, 170, 512, 1366)]
    if ty == "datetime":
        base = {"y0000": [instant(0, 1, 1, 0, 0, 0, 0), instant(0, 12, 31, 23, 59, 59, 999999999)],
                "y0001": [instant(1, 1, 1, 0, 0, 0, 0)], "epoch": [instant(1970, 1, 1, 0, 0, 0, 0)],
                "leapday": [instant(2000, 2, 29, 12, 0, 0, 0), instant(2024, 2, 29, 23, 59, 59, 5)],
                "y9999end": [instant(9999, 12, 31, 23, 59, 59, 999999999)], "nanos1": [instant(2017, 1, 2, 3, 4, 5, 1)],
                "nanosmax": [instant(2017, 1, 2, 3, 4, 5, 999999999)], "millis": [instant(2017, 1, 2, 3, 4, 5, 123000000), instant(2017, 1, 2, 3, 4, 5, 1000000), instant(2017, 1, 2, 3, 4, 5, 12345000),
                           instant(2017, 1, 2, 3, 4, 5, 1000), instant(2017, 1, 2, 3, 4, 5, 99999000), instant(2017, 1, 2, 3, 4, 5, 100000000),
                           instant(2017, 1, 2, 3, 4, 5, 10), instant(2017, 1, 2, 3, 4, 5, 1230)]}[cls]
        lo, hi = DAYS(1, 1, 1) * 86400 - 366 * 86400, DAYS(9999, 12, 31) * 86400 + 86399
        return base + [{"secs": lo + rng.next() % (hi - lo + 1),
                        "nanos": rng.below(10**9) if i % 3 == 0 else rng.below(10**5) * rng.choice([1, 10, 1000, 10000])} for i in range(n)]
    if ty == "string":
        # white space at the edges (blank, tab, line feed, no-break space) is part of the value
        return {"empty": [""], "ascii": ["hello world", " lead", "trail ", " ", "\ttab\t", "line\n"], "reserved": ["a/b?c=d&e#f%20+ ", "%41", "+"],
                "unicode": ["héllo ☃ \U0001f600", "\u00a0nbsp\u00a0", "\u3000wide"], "looksnumeric": ["123", "1e5", "true", " 1", "1 "],
                "NaNtext": ["NaN", "Infinity", " NaN"]}[cls]
    return []


def check_spelling(ty, v, text):
    if ty == "double":
        x = struct.unpack(">d", struct.pack(">Q", int(v, 16)))[0]
        if x != x:
            return text == "NaN"
        if x == float("inf"):
            return text == "Infinity"
        if x == float("-inf"):
            return text == "-Infinity"
        try:
            return struct.pack(">d", float(text)) == struct.pack(">d", x)
        except ValueError:
            return False
    if ty == "boolean":
        return text == ("true" if v else "false")
    if ty == "binary":
        return text == base64.b64encode(bytes(v)).decode()
    if ty == "uuid":
        return bool(UUID_RE.match(text)) and text == v
    if ty == "datetime":
        return bool(RFC3339.match(text))
    if ty in ("rid", "bearertoken", "string"):
        return text == v
    if ty in ("integer", "safelong"):
        return text == v
    return True


def run(tier, seed):
    out = vc.Outcome(PID, tier, seed, "exploration")
    rng = vc.Rng(seed)
    r = vc.tlc(PID, "MCPlain", "MCPlain.cfg", workers=2, timeout_s=300)
    if r.error:
        raise vc.ToolError(r.error)
    vc.require_actions(r, ["Pick", "DoPrint", "DoParse"])
    n = 200 if tier == "quick" else 20000
    docs, meta, gdocs, gmeta = [], {}, [], {}
    k = 0
    for c in r.cases:
        ty, cls = c["ty"], c["cls"]
        if ty == "enum":
            for cfg in ("a", "b"):
                for name in (["RED", "BLUE"] if cls == "listed" else ["GREEN", "A_1"]):
                    cid = "g%d" % k
                    k += 1
                    gdocs.append(json.dumps({"id": cid, "cfg": cfg, "ty": "Color", "text": name}))
                    gmeta[cid] = (ty, cls, cfg, name, name)
                import vgen
                for name in (vgen.GRAMMAR_VALUES if cls == "listed" else ["SHA_257", "HTTP_1", "B"]):
                    cid = "g%d" % k
                    k += 1
                    gdocs.append(json.dumps({"id": cid, "cfg": cfg, "ty": "Grammar", "text": name}))
                    gmeta[cid] = (ty, cls, cfg, name, name)
            continue
        if ty == "alias":
            m = {"ofstring": ("PlStr", "string", "ascii"), "ofdouble": ("PlDbl", "double", "needs17"), "ofaliasofstring": ("PlPlStr", "string", "unicode"),
                 "ofinteger": ("PlInt", "integer", "min"), "ofuuid": ("PlUuid", "uuid", "random"), "ofbinary": ("PlBin", "binary", "len2")}[cls]
            # an alias value is written as the PLAIN text of its target (computed by python from the concrete value)
            extra = {"ofdouble": [("PlDbl", "double", c2) for c2 in ("nan", "inf", "ninf")] + [("PlPlDbl", "double", "inf")],
                     "ofstring": [("PlRid", "rid", "dottedlocator"), ("PlTok", "bearertoken", "padded"), ("PlLong", "safelong", "max"),
                                  ("PlBool", "boolean", "true"), ("PlTime", "datetime", "nanos1")]}.get(cls, [])
            for tname, tty, tcls in [m] + extra:
                for v in values_for(tty, tcls, vc.Rng(seed + k), 20)[:20]:
                    text = py_plain(tty, v)
                    if text is None:
                        continue
                    for cfg in ("a", "b"):
                        cid = "g%d" % k
                        k += 1
                        gdocs.append(json.dumps({"id": cid, "cfg": cfg, "ty": tname, "text": text}))
                        gmeta[cid] = (tty, tcls, cfg, text, v)
            continue
        for v in values_for(ty, cls, vc.Rng(seed * 1000003 + k), n):
            cid = "c%d" % k
            k += 1
            docs.append(json.dumps({"id": cid, "ty": ty, "v": v}))
            meta[cid] = (ty, cls, v)
    replayed = 0
    nontrivial = set()
    samples = []
    for obs in vc.ndjson(vc.harness_parallel("vh", ["plain"], docs, nproc=4)):
        ty, cls, v = meta[obs["id"]]
        replayed += 1
        rep = {"ty": ty, "cls": cls, "v": v}
        if "panic" in obs:
            out.violation("C12:%s:panic" % ty, "panic: %s" % obs["panic"][:100], rep)
            continue
        if "skip" in obs:
            if ty in ("rid", "bearertoken", "safelong", "uuid"):
                # these values exist only as validated text: refusing a value of the grammar IS the finding (its text cannot parse back)
                out.violation("C12:%s:%s:unparsable" % (ty, cls), "the value %r is refused: %s" % (v, str(obs["skip"])[:80]), rep)
                continue
            raise vc.ToolError("plain harness cannot build %s %s: %s" % (ty, v, obs["skip"]))
        if not obs["back"]:
            out.violation("C12:%s:%s:unparsable" % (ty, cls), "printed %r does not parse: %s" % (obs["text"], obs.get("err", "")[:80]), rep)
        elif not obs["equal"]:
            out.violation("C12:%s:%s:changed" % (ty, cls), "printed %r parses to a different value" % obs["text"], rep)
        if not check_spelling(ty, v, obs["text"]):
            out.violation("C12:%s:%s:spelling" % (ty, cls), "PLAIN text %r is not the Conjure spelling" % obs["text"], rep)
        nontrivial.add((ty, json.dumps(v)))
        if len(samples) < 4 and cls in ("needs17", "y9999end", "highbytes", "nan"):
            samples.append({"type": ty, "class": cls, "value": v, "text": obs["text"]})
    for obs in vc.ndjson(vc.harness_parallel("vgen", ["plain"], gdocs, nproc=4)):
        ty, cls, cfg, text, v = gmeta[obs["id"]]
        replayed += 1
        rep = {"ty": ty, "cls": cls, "text": text, "cfg": cfg}
        if "skip" in obs:
            raise vc.ToolError("generated PLAIN type missing from the zoo: %s" % obs)
        if obs.get("panic"):
            out.violation("C12:generated:%s:panic" % ty, "panic", rep)
            continue
        if ty == "enum" and cls == "unknown" and cfg == "b":
            if "ok" in obs:
                out.notes.append("exhaustive enum accepts unlisted PLAIN value %s" % text)
            continue
        if ty == "enum" and cls == "listed" and "Unknown" in obs.get("debug", ""):
            out.violation("C12:generated:enum:listed-as-unknown", "PLAIN text %r of a listed enum value parses to %s" % (text, obs["debug"]), rep)
        if "err" in obs:
            out.violation("C12:generated:%s:%s:unparsable" % (ty, cls), "generated type rejects PLAIN text %r: %s" % (text, obs["err"][:80]), rep)
        else:
            if not obs["reparse_equal"]:
                out.violation("C12:generated:%s:%s:changed" % (ty, cls), "generated type: %r -> %r does not parse back equal" % (text, obs["ok"]), rep)
            same = obs["ok"] == text
            if ty == "double":
                same = check_spelling("double", v, obs["ok"])
            elif ty == "datetime":
                same = bool(RFC3339.match(obs["ok"]))
            if not same:
                out.violation("C12:generated:%s:%s:spelling" % (ty, cls), "generated type prints %r for %r" % (obs["ok"], text), rep)
        nontrivial.add(("gen", ty, text, cfg))
    out.coverage = {
        "evaluations": replayed, "distinct_nontrivial": len(nontrivial),
        "rule": "every (type, class) of spec/Plain.tla with up to %d seeded values per class through the runtime ToPlain/"
                "FromPlain impls (random f64 bit patterns per class, full-range integers, instants over years 0000-9999 "
                "with nanoseconds, byte strings of every length mod 3), and the PLAIN text of such values through 12 "
                "generated alias types and the generated enum in 2 configurations. Distinct by (type, value); every value "
                "exercises print and parse." % n,
        "samples": samples, "states": r.distinct, "transitions": r.generated,
        "classes": len(r.cases), "exhaustive": False,
    }
    out.assumptions = ["TLC 1.8.0 (class table only)", "python float/base64/date arithmetic as the spelling oracle",
                       "years outside 0000-9999 are excluded by the property"]
    return out.finish()


def py_plain(ty, v):
    """PLAIN text of a concrete value, written by python (input for generated alias types)"""
    if ty == "string":
        return v
    if ty in ("integer", "safelong", "uuid", "rid", "bearertoken"):
        return v
    if ty == "boolean":
        return "true" if v else "false"
    if ty == "binary":
        return base64.b64encode(bytes(v)).decode()
    if ty == "double":
        x = struct.unpack(">d", struct.pack(">Q", int(v, 16)))[0]
        if x != x:
            return "NaN"
        if abs(x) == float("inf"):
            return "Infinity" if x > 0 else "-Infinity"
        return repr(x)
    if ty == "datetime":
        import datetime
        if v["secs"] < -62135596800:
            return None
        d = datetime.datetime(1970, 1, 1, tzinfo=datetime.timezone.utc) + datetime.timedelta(seconds=v["secs"])
        return "%04d-%02d-%02dT%02d:%02d:%02d" % (d.year, d.month, d.day, d.hour, d.minute, d.second) + (".%09d" % v["nanos"] if v["nanos"] else "") + "Z"
    return None


def replay(path, seed):
    rep = json.load(open(path))["case"]
    if "v" in rep:
        obs = vc.ndjson(vc.harness("vh", ["plain"], stdin=json.dumps({"id": "r", "ty": rep["ty"], "v": rep["v"]}) + "\n"))[0]
        bad = not obs.get("back") or not obs.get("equal") or not check_spelling(rep["ty"], rep["v"], obs.get("text", ""))
    else:
        raise KeyError("generated-type record")
    print(json.dumps(obs))
    print("replay: property %s" % ("VIOLATED" if bad else "holds"))
    return 1 if bad else 0
