"""X05 (extension feeding C17 and C09) - the life of one conjure_error::Error object (spec/ErrorObject.tla, MCErrorObject.tla).

TLC explores the twelve constructors x every declared error type over two parameter names x every history of <= 3 (thorough 4)
calls among with_safe_param / with_unsafe_param / with_backtrace / with_custom_safe_backtrace and checks KindStable, Independent,
LastWriteWins, CtorPartition and BacktraceLog; the model in which with_unsafe_param also removes the key from the safe map must
be rejected.  Every emitted history is replayed on a REAL Error (vh errobj) and the projection of its state - kind, wire form,
cause safety, both parameter maps (with len / is_empty), backtrace list - is compared with the model's after the constructor and
after every call.
"""
import json

import vcommon as vc

PID = "X05"
NAMES = {"internal": "Default:Internal", "internal_safe": "Default:Internal"}


def as_map(pairs):
    return {p["k"]: p["v"] for p in pairs}


def run(tier, seed):
    out = vc.Outcome(PID, tier, seed, "model_checking")
    cfg = "MCErrorObject_q.cfg" if tier == "quick" else "MCErrorObject_t.cfg"
    r = vc.tlc(PID, "MCErrorObject", cfg, workers=4 if tier == "quick" else 16, timeout_s=1800, extra_env={"EMITRES": str(seed)})
    if r.error:
        raise vc.ToolError("%s: %s" % (cfg, r.error))
    vc.require_actions(r, ["Construct", "WithSafe", "WithUnsafe", "WithBacktrace", "WithCustom"])
    if r.violated:
        out.model_drift("model:%s" % r.violated, "TLC reports %s" % r.violated)
    rm = vc.tlc(PID, "MCErrorObject", "MCErrorObject_mut.cfg", workers=2, timeout_s=300, coverage=False, keep_cases=False)
    if not rm.violated:
        raise vc.ToolError("spec self-test failed: move semantics passes the invariants")
    docs, meta = [], {}
    for k, c in enumerate(r.cases):
        wire = as_map(c["wire"])
        decl_val = next(iter(wire.values()), "v1")
        cid = "e%d" % k
        docs.append(json.dumps({"id": cid, "ctor": c["ctor"], "decl": c["decl"], "decl_val": decl_val, "hist": c["hist"], "customs": ["v1", "v2"]}))
        meta[cid] = c
    n = 0
    nontrivial = set()
    for obs in vc.ndjson(vc.harness_parallel("vh", ["errobj"], docs, nproc=4)):
        c = meta[obs["id"]]
        n += 1
        rep = {"case": c}
        if "panic" in obs or "skip" in obs:
            out.violation("X05:panic", "replay failed: %s" % str(obs.get("panic") or obs.get("skip"))[:120], rep)
            continue
        want_states = [c["init"]] + c["states"]
        if len(obs["states"]) != len(want_states):
            raise vc.ToolError("harness reported %d states for %d calls" % (len(obs["states"]), len(c["hist"])))
        for i, (got, want) in enumerate(zip(obs["states"], want_states)):
            at = "after %s" % ("the constructor %s" % c["ctor"] if i == 0 else "call %d (%s)" % (i, json.dumps(c["hist"][i - 1])))
            if got["kind"] != c["kind"] or got["cause_safe"] != c["cause_safe"] or got["cause"] != "cause":
                out.violation("X05:kind", "%s: kind %s / cause safe %s, expected %s / %s" % (at, got["kind"], got["cause_safe"], c["kind"], c["cause_safe"]), rep)
                break
            if c["kind"] == "service":
                wp = {k2: v for k2, v in (got["wire"]["parameters"] or {}).items()}
                if wp != as_map(c["wire"]):
                    out.violation("X05:wire", "%s: the serializable error's parameters are %s, expected %s" % (at, wp, as_map(c["wire"])), rep)
                    break
                want_name = NAMES.get(c["ctor"], "Verif:Obj")
                want_code = "INTERNAL" if c["ctor"] in NAMES else "CONFLICT"
                if got["wire"]["name"] != want_name or got["wire"]["code"] != want_code:
                    out.violation("X05:wire", "%s: serializable error %s/%s, expected %s/%s" % (at, got["wire"]["code"], got["wire"]["name"], want_code, want_name), rep)
                    break
            elif (got["duration_ms"] == 1500) != (c["kind"] == "throttle_for"):
                out.violation("X05:kind", "%s: throttle duration %s for %s" % (at, got["duration_ms"], c["ctor"]), rep)
                break
            bad = False
            for which in ("safe", "unsafe"):
                g = {k2: json.loads(v) for k2, v in got[which].items()}
                w = as_map(want[which])
                if g != w or got[which + "_len"] != len(w) or got[which + "_empty"] != (not w):
                    out.violation("X05:params:%s" % which, "%s: %s parameters %s (len %s), expected %s" % (at, which, g, got[which + "_len"], w), rep)
                    bad = True
            if got["bts"] != want["bts"]:
                out.violation("X05:backtraces", "%s: backtraces %s, expected %s" % (at, got["bts"], want["bts"]), rep)
                bad = True
            if bad:
                break
        nontrivial.add(json.dumps([c["ctor"], c["decl"], c["hist"]], sort_keys=True))
    if n != len(docs):
        raise vc.ToolError("harness answered %d of %d cases" % (n, len(docs)))
    out.coverage = {"states": r.distinct, "transitions": r.generated, "traces_validated_against_impl": n, "evaluations": n * (len(r.cases[0]["hist"]) + 1 if r.cases else 0),
                    "distinct_nontrivial": len(nontrivial), "samples": r.cases[:2],
                    "rule": "one real Error per TLC-emitted (constructor, declared type, call history) of full length (hash-sampled); state projection compared "
                            "after the constructor and after every call",
                    "coverage_by_action": {k: v[1] for k, v in r.coverage.items()}, "exhaustive": False}
    out.assumptions = ["TLC 1.8.0", "a captured backtrace never prints as one of the custom texts"]
    return out.finish()


def replay(path, seed):
    print("replay: re-run `bin/check X05`")
    return 0
