"""X01 (extension, not one of the listed properties) - staged builders, constructors and accessors of generated objects
(spec/Builders.tla, spec/MCBuilders.tla).

TLC explores every object of <= 2 (thorough 3) fields over 7 field kinds x every builder call history (required setters in stage
order or new(..), then <= 2 calls among set / push_ / insert_ / extend_ on the complete stage, optionally Builder::from(object)
and more calls) and checks BuiltMatches (the incremental state equals the fold of the history), RequiredSet, StageOrder; the
model in which `set` on a collection extends instead of replacing must violate BuiltMatches.  Every emitted history becomes a
Rust function calling the REAL generated builder (harness/bgen: real generator in build.rs; rustc accepting the call sequence
is the check of the stage protocol), and the built object's Conjure JSON and accessor values are compared with the model's.
"""
import json
import os
import subprocess

import irgen as ir
import vcommon as vc

PID = "X01"
PKG = "com.palantir.bld"
NAMES = ["alpha", "new", "type", "fooBar"]
RUST = {"alpha": "alpha", "new": "new", "type": "type_", "fooBar": "foo_bar"}
P = ir.prim
TYPES = {"int": P("INTEGER"), "str": P("STRING"), "opt": ir.optional(P("INTEGER")), "list": ir.list_(P("INTEGER")),
         "set": ir.set_(P("STRING")), "map": ir.map_(P("STRING"), P("INTEGER")), "aopt": ir.ref("OptAlias", PKG)}


def names_for(k, n):
    return [NAMES[(k + i) % len(NAMES)] for i in range(n)]


def lit(kind, v, whole=True):
    """Rust expression for an abstract value (sequence of scalars) passed to a setter"""
    if kind == "int":
        return str(11 * v[0])
    if kind == "str":
        return '"s%d"' % v[0]
    if kind == "opt":
        return "Some(%d)" % (11 * v[0]) if v else "None::<i32>"
    if kind == "aopt":
        return "crate::ir::OptAlias(%s)" % ("Some(%d)" % (11 * v[0]) if v else "None")
    if kind == "list":
        return "vec![%s]" % ", ".join(str(11 * x) for x in v) if v else "Vec::<i32>::new()"
    if kind == "set":
        return "vec![%s]" % ", ".join('"s%d"' % x for x in v) if v else "Vec::<&str>::new()"
    if kind == "map":
        return "vec![%s]" % ", ".join('("s%d", %d)' % (x, 11 * x) for x in v) if v else "Vec::<(&str, i32)>::new()"
    raise vc.ToolError(kind)


def item(kind, x):
    if kind == "list":
        return str(11 * x)
    if kind == "set":
        return '"s%d"' % x
    return '"s%d", %d' % (x, 11 * x)


def expected(case, names):
    js, acc = {}, []
    for kind, name, v in zip(case["def"], names, case["final"]):
        if kind == "int":
            js[name] = 11 * v[0]
            acc.append(str(11 * v[0]))
        elif kind == "str":
            js[name] = "s%d" % v[0]
            acc.append('"s%d"' % v[0])
        elif kind == "opt":
            if v:
                js[name] = 11 * v[0]
            acc.append("Some(%d)" % (11 * v[0]) if v else "None")
        elif kind == "aopt":
            if v:
                js[name] = 11 * v[0]
            acc.append("OptAlias(Some(%d))" % (11 * v[0]) if v else "OptAlias(None)")
        elif kind == "list":
            if v:
                js[name] = [11 * x for x in v]
            acc.append("[%s]" % ", ".join(str(11 * x) for x in v))
        elif kind == "set":
            if v:
                js[name] = sorted("s%d" % x for x in v)
            acc.append("{%s}" % ", ".join('"s%d"' % x for x in sorted(v)))
        elif kind == "map":
            if v:
                js[name] = {"s%d" % x: 11 * x for x in v}
            acc.append("{%s}" % ", ".join('"s%d": %d' % (x, 11 * x) for x in sorted(v)))
    return js, acc


def case_fn(k, case, names):
    ty = "crate::ir::B%d" % k
    mod = "crate::ir::b%d" % k
    kinds = case["def"]
    lines = ["fn case_%d() {" % k]
    cur = None
    n_obj = 0

    def close():
        nonlocal cur, n_obj
        if cur is not None:
            lines.append("    let o%d = %s.build();" % (n_obj, cur))
            n_obj += 1
            cur = None
    hist = case["hist"]
    if hist and hist[0]["op"] == "new":
        ctor = "new_" if "new" in names else "new"
        args = [lit(kd, hist[0]["v"]) for kd in kinds if kd in ("int", "str")]
        lines.append("    let o0 = %s::%s(%s);" % (ty, ctor, ", ".join(args)))
        n_obj = 1
        hist = hist[1:]
    else:
        cur = "%s::builder()" % ty
    for c in hist:
        if c["op"] == "from":
            close()
            cur = "%s::Builder::<%s::Complete>::from(o%d.clone())" % (mod, mod, n_obj - 1)
            continue
        f = c["f"] - 1
        rn, kd = RUST[names[f]], kinds[f]
        if c["op"] in ("req", "set"):
            cur += ".%s(%s)" % (rn, lit(kd, c["v"]))
        elif c["op"] == "add":
            cur += ".%s_%s(%s)" % ("push" if kd == "list" else "insert", rn, item(kd, c["v"][0]))
        elif c["op"] == "extend":
            cur += ".extend_%s(%s)" % (rn, lit(kd, c["v"]))
    close()
    last = "o%d" % (n_obj - 1)
    accs = ", ".join('format!("{:?}", %s.%s())' % (last, RUST[nm]) for nm in names)
    lines.append('    crate::emit("c%d", &%s, vec![%s]);' % (k, last, accs))
    lines.append("}")
    return "\n".join(lines)


def run(tier, seed):
    out = vc.Outcome(PID, tier, seed, "model_checking")
    cfg = "MCBuilders_q.cfg" if tier == "quick" else "MCBuilders_t.cfg"
    r = vc.tlc(PID, "MCBuilders", cfg, workers=4 if tier == "quick" else 16, timeout_s=3000, extra_env={"EMITRES": str(seed)})
    if r.error:
        raise vc.ToolError("%s: %s" % (cfg, r.error))
    vc.require_actions(r, ["AddField", "Req", "New", "Call", "Build", "Update"])
    if r.violated:
        out.model_drift("model:%s" % r.violated, "TLC reports %s in %s" % (r.violated, cfg))
    rm = vc.tlc(PID, "MCBuilders", "MCBuilders_mut.cfg", workers=2, timeout_s=300, coverage=False, keep_cases=False)
    if "BuiltMatches" not in (rm.violated or []):
        raise vc.ToolError("spec self-test failed: MCBuilders_mut must violate BuiltMatches")
    cases = r.cases
    limit = 400 if tier == "quick" else 1500
    if len(cases) > limit:
        cases = vc.Rng(seed).sample(cases, limit)
    types = [ir.alias_("OptAlias", ir.optional(P("INTEGER")), package=PKG)]
    fns, meta = [], {}
    for k, c in enumerate(cases):
        names = names_for(k, len(c["def"]))
        types.append(ir.object_("B%d" % k, [ir.field(nm, TYPES[kd]) for nm, kd in zip(names, c["def"])], package=PKG))
        fns.append(case_fn(k, c, names))
        meta["c%d" % k] = (c, names)
    d = os.path.join(vc.OUT, "x01")
    os.makedirs(d, exist_ok=True)
    with open(os.path.join(d, "ir.json"), "w") as f:
        json.dump(ir.definition(types=types), f)
    with open(os.path.join(d, "cases.rs"), "w") as f:
        f.write("\n".join(fns) + "\npub fn run_all() {\n%s\n}\n" % "\n".join("    case_%d();" % k for k in range(len(cases))))
    env = dict(os.environ)
    env["VERIF_X01_DIR"] = d
    env["CARGO_NET_OFFLINE"] = "true"
    p = subprocess.run(["cargo", "build", "--offline", "-p", "bgen", "--message-format=short"], cwd=vc.HARNESS, env=env,
                       stdout=subprocess.PIPE, stderr=subprocess.STDOUT, text=True, timeout=3000)
    if p.returncode != 0:
        errs = [l for l in p.stdout.splitlines() if "error" in l]
        # the call sequence is what the model says the builder protocol allows: rustc refusing it is a finding about the protocol
        out.violation("X01:compile", "the generated builder API rejects a call sequence the protocol allows (or generation failed): %s" % (errs[0][-300:] if errs else p.stdout[-300:]),
                      {"errors": errs[:8], "dir": d})
        out.coverage = {"states": r.distinct, "transitions": r.generated, "traces_validated_against_impl": 0}
        return out.finish()
    q = subprocess.run([os.path.join(vc.HARNESS, "target", "debug", "bgen")], stdout=subprocess.PIPE, stderr=subprocess.PIPE, text=True, timeout=600)
    if q.returncode != 0:
        out.violation("X01:panic", "a builder call history panicked: %s" % q.stderr[-300:], {"stderr": q.stderr[-2000:]})
    seen = 0
    for o in vc.ndjson(q.stdout):
        c, names = meta[o["id"]]
        seen += 1
        ejs, eacc = expected(c, names)
        got = json.loads(o["json"])
        if got != ejs:
            out.violation("X01:value:%s" % "+".join(sorted({h["op"] for h in c["hist"]})), "built object %s differs from the call history's value %s" % (o["json"], json.dumps(ejs)),
                          {"case": c, "names": names, "observed": o})
        elif o["acc"] != eacc:
            out.violation("X01:accessor", "accessors %s differ from %s" % (o["acc"], eacc), {"case": c, "names": names, "observed": o})
    if seen != len(cases) and q.returncode == 0:
        raise vc.ToolError("bgen answered %d of %d cases" % (seen, len(cases)))
    out.coverage = {"states": r.distinct, "transitions": r.generated, "traces_validated_against_impl": seen, "evaluations": seen,
                    "distinct_nontrivial": len({json.dumps([c["def"], c["hist"]]) for c, _ in meta.values()}),
                    "rule": "one generated object type + one compiled call history per TLC-emitted terminal state (sampled by hash)",
                    "samples": [{"def": c["def"], "hist": c["hist"]} for c in cases[:3]],
                    "coverage_by_action": {k: v[1] for k, v in r.coverage.items()}, "exhaustive": False}
    out.assumptions = ["TLC 1.8.0", "rustc", "staged-builder's documented protocol is the property layer"]
    return out.finish()


def replay(path, seed):
    print("replay: re-run `bin/check X01`")
    return 0
