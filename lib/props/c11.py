"""C11 - Response encoding honours Accept; request decoding honours Content-Type.

(1) TLC: Mech = Prop for all Accept lists / registrations inside the bounds (spec/MCNegotiation.tla).
(2) S->I: emitted cases rendered to real header text (several spellings) and run through the real ConjureRuntime
    (response_body_encoding, StdResponseSerializer, request_body_encoding).
(3) I->S: seeded random long Accept lists recorded from the real runtime and validated by TraceNegotiation.tla.
"""
import json
import os

import vcommon as vc

PID = "C11"
TYS = ["application", "text", "image", "x-verif", "audio"]
SUBS = ["json", "x-jackson-smile", "plain", "cbor", "vnd.verif+json", "html"]
QTEXT = {1000: [None, "q=1", "q=1.0", "q=1.000", "q=1."], 0: ["q=0", "q=0.0", "q=0.000", "q=0."],
         500: ["q=0.5", "q=0.50", "q=0.500"], 1: ["q=0.001"], 999: ["q=0.999"], 250: ["q=0.25", "q=0.250"],
         100: ["q=0.1", "q=0.100"], 10: ["q=0.01", "q=0.010"]}
JUNK = ["foo", "a / b"]


def names(rng):
    tys, subs = rng.shuffle(TYS), rng.shuffle(SUBS)
    if rng.chance(1, 3):
        # two DIFFERENT subtypes that differ only by a structured-syntax suffix (RFC 6838 4.2.8): never the same media type
        base = rng.choice(["json", "x-jackson-smile", "cbor"])
        pair = rng.choice([[base, base + "+xml"], [base + "+json", base], [base, base + "-seq"]])
        subs = pair + [x for x in subs if x not in pair]
    return tys, subs


def render_range(r, tys, subs, rng, scale=1):
    ty = "*" if r["ty"] == 0 else tys[r["ty"] - 1]
    sub = "*" if r["sub"] == 0 else subs[r["sub"] - 1]
    # `scale` multiplies every range's parameter count alike (hundreds of parameters): the order between ranges is unchanged
    params = [rng.choice(["v=%d" % (i + 1), "charset=utf-8", "level=%d" % (i + 1)]) if i == 0 else "p%d=x" % i
              for i in range(r["np"] * scale)]
    q = rng.choice(QTEXT[r["q"]])
    parts = list(params)
    if q is not None:
        parts.insert(rng.below(len(parts) + 1), q)
    sep = rng.choice([";", "; ", " ;", " ; "])
    return ty + "/" + sub + "".join(sep + p for p in parts)


def render_accept(ranges, tys, subs, rng):
    """-> list of header values (several Accept headers), possibly with unparsable entries interleaved."""
    if not ranges:
        return []
    scale = rng.choice([300, 520, 800]) if rng.chance(1, 12) else 1
    items = [render_range(r, tys, subs, rng, scale) for r in ranges]
    if rng.chance(1, 3):
        items.insert(rng.below(len(items) + 1), rng.choice(JUNK))
    headers, cur = [], []
    for it in items:
        cur.append(it)
        if rng.chance(1, 4):
            headers.append(cur)
            cur = []
    if cur:
        headers.append(cur)
    return [rng.choice([",", ", ", " , "]).join(h) for h in headers]


def render_enc(e, k, tys, subs):
    return "%s/%s;id=%d" % (tys[e["ty"] - 1], subs[e["sub"] - 1], k)


def render_ct(ct, tys, subs, rng):
    if ct["ty"] < 0:
        return None
    ty = "*" if ct["ty"] == 0 else tys[ct["ty"] - 1]
    sub = "*" if ct["sub"] == 0 else subs[ct["sub"] - 1]
    s = ty + "/" + sub
    if ct["np"]:
        s += rng.choice(["; charset=utf-8", ";charset=UTF-8", "; boundary=x", ";v=2"])
    return s


def concretise(case, rng):
    tys, subs = names(rng)
    encs = [render_enc(e, k + 1, tys, subs) for k, e in enumerate(case["encs"])]
    if case["kind"] == "response":
        return {"kind": "response", "accept": render_accept(case["ranges"], tys, subs, rng), "encs": encs}
    return {"kind": "request", "ctype": render_ct(case["ct"], tys, subs, rng), "encs": encs}


def prop_ok(case, chosen):
    if case["kind"] == "request":
        allowed = [k + 1 for k, a in enumerate(case["allowed"]) if a]
        return (chosen in allowed) if allowed else chosen == 0
    if case["ambiguous"]:
        if chosen != 0 and not case["may"][chosen - 1]:
            return False
        if any(case["must"]) and chosen == 0:
            return False
        return True
    return chosen == case["prop"]


def random_case(rng):
    nt, ns = 3, 4
    encs = [{"ty": 1 + rng.below(nt), "sub": 1 + rng.below(ns)} for _ in range(1 + rng.below(5))]
    if rng.chance(1, 6):
        ct = {"ty": rng.below(nt + 1), "sub": rng.below(ns + 1), "np": rng.below(2)}
        if rng.chance(1, 2):
            e = rng.choice(encs)
            ct = {"ty": e["ty"], "sub": e["sub"], "np": rng.below(2)}
        return {"kind": "request", "ct": ct, "encs": encs}
    ranges = []
    for _ in range(rng.below(13)):
        k = rng.below(6)
        if k == 0:
            ty, sub = 0, 0
        elif k == 1:
            ty, sub = 1 + rng.below(nt), 0
        elif k <= 3:
            e = rng.choice(encs)
            ty, sub = e["ty"], e["sub"]
        else:
            ty, sub = 1 + rng.below(nt), 1 + rng.below(ns)
        ranges.append({"ty": ty, "sub": sub, "np": rng.below(3), "q": rng.choice([0, 0, 1, 10, 100, 250, 500, 999,
                                                                                   1000, 1000])})
    return {"kind": "response", "ranges": ranges, "encs": encs}


def endpoint_stage(out, cases, rng):
    """The same negotiation through generated endpoints (private::server::response -> the response serializer): TLC's response
    cases with two encodings of one type are mapped onto the runtime's defaults (JSON, Smile); every header line the case
    renders becomes one Accept line of a request sent through the loopback of harness/vgen."""
    docs, meta = [], {}
    k = 0
    for c in cases:
        if c["kind"] != "response" or len(c["encs"]) != 2:
            continue
        e1, e2 = c["encs"]
        if e1["ty"] != e2["ty"] or e1["sub"] == e2["sub"]:
            continue
        tys = {e1["ty"]: "application"}
        subs = {e1["sub"]: "json", e2["sub"]: "x-jackson-smile"}
        tl = [tys.get(i + 1, ["text", "image", "x-verif"][i % 3]) for i in range(5)]
        sl = [subs.get(i + 1, ["plain", "cbor", "html", "xml"][i % 4]) for i in range(6)]
        lines = render_accept(c["ranges"], tl, sl, rng)
        muts = [{"op": "drop_header", "name": "accept"}] + [{"op": "append_header", "name": "accept", "value": l} for l in lines]
        for client in ("gen-blocking", "gen-async"):
            cid = "e%d" % k
            k += 1
            docs.append(json.dumps({"id": cid, "endpoint": "limited", "args": {"body": "b"}, "ret": "text", "client": client, "server": client,
                                    "mutations": muts, "smile": False, "chunk": 1}))
            meta[cid] = (c, lines)
    if not docs:
        raise vc.ToolError("no response case with two encodings of one type")
    n = 0
    for obs in vc.ndjson(vc.harness_parallel("vgen", ["rpc"], docs, nproc=4)):
        c, lines = meta[obs["id"]]
        n += 1
        rep = {"accept_lines": lines, "ranges": c["ranges"], "endpoint": "limited"}
        if "panic" in obs or "skip" in obs:
            out.violation("C11:endpoint:panic", "loopback call failed: %s" % str(obs.get("panic") or obs.get("skip"))[:100], rep)
            continue
        ex = obs["exchanges"][0] if obs["exchanges"] else {}
        ct = ex.get("resp_ctype")
        chosen = {"application/json": 1, "application/x-jackson-smile": 2}.get(ct, 0)
        if ex.get("server_error") is None and chosen == 0:
            out.violation("C11:endpoint:unregistered", "Accept lines %s through a generated endpoint: the response is labelled %r, which is no registered encoding" % (lines, ct), rep)
            continue
        if not prop_ok(c, chosen):
            out.violation("C11:endpoint:%s" % ("not-permitted" if chosen else "none-chosen"),
                          "Accept lines %s through a generated endpoint: encoding %s chosen, the property demands %s" % (
                              lines, ct or "none (error)", c.get("prop")), rep)
    vc.log("[endpoints] %d negotiated responses" % n)
    return n


def content_type_stage(out, seed):
    """request decoding honours Content-Type END TO END: the body is decoded by the encoding the header names and by no other one
    (the expected value written in the other registered encoding is refused), and a Content-Type that is present - whatever it
    holds - never makes an optional body absent.  Through the real StdRequestDeserializer / OptionalRequestDeserializer and
    conjure_endpoints handlers (vh body), blocking and async."""
    import props.bodyprops as bp
    docs, meta = [], {}
    k = 0
    for enc in ("json", "smile"):
        for kind in ("std", "optional"):
            for ct, cls in (("exact", "doc"), ("params", "doc"), ("exact", "otherenc"), ("params", "otherenc"), ("near", "doc"), ("other", "doc"),
                            ("wildcard", "doc"), ("garbage", "doc"), ("absent", "doc"), ("garbage", "empty"), ("absent", "empty"), ("other", "empty"),
                            ("exact", "empty"), ("near", "otherenc")):
                for h in ([] if cls == "empty" else [2], [0] if cls == "empty" else [1, 1], [0, 0] if cls == "empty" else [1, 0, 1]):
                    for flavour in bp.FLAVOURS:
                        for rep_ in range(3):      # several draws of the concrete Content-Type text per class
                            case = {"side": "server", "h": h, "total": sum(h), "par": {"kind": kind, "ct": ct, "limit": -1, "cls": cls, "ret": "", "status": 0}}
                            case["prop"] = bp.py_mech_prop(case)
                            cid = "ct%d" % k
                            d = {"id": cid, "side": "server", "enc": enc, "flavour": flavour, "h": h, "par": case["par"], "seed": seed * 100019 + k, "random_cut": bool(k % 2)}
                            k += 1
                            docs.append(json.dumps(d))
                            meta[cid] = (case, d)
    n = 0
    for obs in vc.ndjson(vc.harness_parallel("vh", ["body"], docs, nproc=4)):
        case, d = meta[obs["id"]]
        if "skip" in obs:
            continue
        n += 1
        cc = dict(case)
        cc["enc"] = d["enc"]
        bp.judge_server(cc, obs, out, {"case": d, "prop": case["prop"], "observed": {k2: v for k2, v in obs.items() if k2 != "id"}}, pid="C11")
    if n < len(docs) * 3 // 4:
        raise vc.ToolError("content-type stage: %d of %d cases could be concretised" % (n, len(docs)))
    return n


def run(tier, seed):
    out = vc.Outcome(PID, tier, seed, "model_checking")
    rng = vc.Rng(seed)
    od = vc.outdir(PID)
    workers = 4 if tier == "quick" else 16
    cfgs = [("MCNegotiation_q.cfg", 600)] + ([("MCNegotiation_t.cfg", 3000)] if tier == "thorough" else [])
    cases, states, transitions, cov, runs = [], 0, 0, {}, []
    for cfg, to in cfgs:
        r = vc.tlc(PID, "MCNegotiation", cfg, workers=workers, timeout_s=to, extra_env={"EMITRES": str(seed)})
        if r.error:
            raise vc.ToolError("%s: %s" % (cfg, r.error))
        vc.require_actions(r, ["AddEnc", "AddRange", "Respond", "Request"])
        runs.append({"cfg": cfg, "generated": r.generated, "distinct": r.distinct, "violated": r.violated,
                     "wall_s": round(r.wall_s, 1), "cases": len(r.cases)})
        if r.violated:
            out.notes.append("TLC: model of the current mechanism violates %s in %s" % (r.violated, cfg))
        states += r.distinct
        transitions += r.generated
        for k, v in r.coverage.items():
            cov[k] = max(cov.get(k, 0), v[1])
        cases.extend(r.cases)
    vc.log("[tlc] %d states, %d cases" % (states, len(cases)))

    # ---- S->I ----
    nconc = 2 if tier == "quick" else 3
    docs, meta = [], {}
    for ci, c in enumerate(cases):
        for k in range(nconc):
            cid = "%d.%d" % (ci, k)
            conc = concretise(c, vc.Rng(seed * 1000003 + ci * 5 + k))
            conc["id"] = cid
            docs.append(json.dumps(conc))
            meta[cid] = (c, conc)
    text = vc.harness("vh", ["negotiate"], stdin="\n".join(docs) + "\n")
    replayed = endpoint_stage(out, cases, rng)
    replayed += content_type_stage(out, seed)
    nontrivial = set()
    samples = []
    for obs in vc.ndjson(text):
        c, conc = meta[obs["id"]]
        replayed += 1
        if "panic" in obs:
            out.violation("C11:panic", "negotiation panicked: %s" % obs["panic"], {"case": c, "concrete": conc})
            continue
        o = obs["obs"]
        chosen = o["direct"]["chosen"]
        views = [("direct", chosen)]
        if c["kind"] == "response":
            views.append(("serializer", o["ser"]["chosen"]))
            if o["ser"]["chosen"] > 0 and not o["ser"].get("body_ok"):
                out.violation("C11:response:body", "response body not written in the chosen encoding",
                              {"case": c, "concrete": conc, "observed": o})
        for view, ch in views:
            if not prop_ok(c, ch):
                if c["kind"] == "request":
                    sig = "C11:request:%s" % ("accepted-wrong" if ch else "rejected-registered")
                else:
                    sig = "C11:response:%s:%s" % (view, "none-chosen" if ch == 0 else
                                                  ("not-permitted" if not c["may"][ch - 1] else "not-best"))
                out.violation(sig, "chosen=%s but the property designates %s" % (
                    ch, c.get("prop", c.get("allowed"))), {"case": c, "concrete": conc, "observed": o})
            elif ch != c["mech"]:
                out.model_drift("Negotiation", "case %s (%s): model predicted %s, code chose %s" % (
                    obs["id"], view, c["mech"], ch))
        if c["kind"] == "request" or len(c["ranges"]) >= 2:
            nontrivial.add(json.dumps(c, sort_keys=True))
        if len(samples) < 3 and c["kind"] == "response" and len(c["ranges"]) >= 2 and chosen:
            samples.append({"kind": "S->I", "abstract": c, "concrete": conc, "observed": o})

    # ---- I->S ----
    nruns = 3000 if tier == "quick" else 30000
    docs, meta = [], {}
    for k in range(nruns):
        c = random_case(rng)
        conc = concretise(c, vc.Rng(seed * 7919 + k))
        conc["id"] = "t%d" % k
        docs.append(json.dumps(conc))
        meta[conc["id"]] = (c, conc)
    text = vc.harness("vh", ["negotiate"], stdin="\n".join(docs) + "\n")
    trace_path = os.path.join(od, "trace.ndjson")
    lines = []
    with open(trace_path, "w") as f:
        for obs in vc.ndjson(text):
            c, conc = meta[obs["id"]]
            if "panic" in obs:
                out.violation("C11:panic", "negotiation panicked: %s" % obs["panic"], {"case": c, "concrete": conc})
                continue
            o = obs["obs"]
            if c["kind"] == "response":
                rec = {"ev": "response", "ranges": c["ranges"], "encs": c["encs"], "chosen": o["direct"]["chosen"]}
            else:
                rec = {"ev": "request", "ct": c["ct"], "encs": c["encs"], "chosen": o["direct"]["chosen"]}
            f.write(json.dumps(rec) + "\n")
            lines.append((c, conc, o))
            if c["kind"] == "response" and len(c["ranges"]) >= 3:
                nontrivial.add(json.dumps(c, sort_keys=True))
    tr, pf, mf = vc.validate_trace(PID, "TraceNegotiation", "TraceNegotiation.cfg", trace_path, len(lines))
    for p in pf:
        c, conc, o = lines[p["line"] - 1]
        out.violation("C11:%s:trace" % c["kind"], "recorded choice %s contradicts the property" % o["direct"],
                      {"case": c, "concrete": conc, "observed": o})
    for p in mf[:5]:
        out.model_drift("TraceNegotiation", "line %d: choice differs from the mechanism model" % p["line"])

    def corrupt(recs):
        for r in recs:
            if r["ev"] == "response" and r["chosen"] > 0 and len(r["encs"]) >= 2:
                e = r["encs"][r["chosen"] - 1]
                other = [k + 1 for k, x in enumerate(r["encs"]) if x != e]
                if other:
                    r["chosen"] = other[0]
                    return True
        return False
    bound = vc.binding_selftest(PID, "TraceNegotiation", "TraceNegotiation.cfg", trace_path, corrupt)
    with open(trace_path) as f:
        samples.append({"kind": "I->S trace line", "line": json.loads(next(f))})

    out.coverage = {
        "states": states, "transitions": transitions,
        "traces_validated_against_impl": replayed + len(lines) - len(pf),
        "samples": samples,
        "evaluations": replayed + len(lines),
        "distinct_nontrivial": len(nontrivial),
        "rule": "S->I: TLC-emitted (Accept list, registrations) and (Content-Type, registrations) cases, %d header "
                "spellings each; I->S: seeded random lists of up to 12 ranges over 5 registrations. Non-trivial = "
                "request-side case, or an Accept list of >=2 (S->I) / >=3 (I->S) ranges; distinct by abstract input." % nconc,
        "model_runs": runs, "coverage_by_action": cov, "trace_lines": len(lines),
        "binding_selftest_rejected_corrupted_trace": bool(bound),
        "exhaustive": True,
        "bounds": "quick: 2 types x 2 subtypes (+wildcards), q in {0,0.5,1}, <=1 extra parameter, <=2 ranges, <=3 "
                  "registrations with repetition; thorough adds <=3 ranges with q in {0,0.001,0.5,1}",
    }
    out.assumptions = ["TLC 1.8.0", "mediatype crate parses the rendered header text as intended (junk entries 'foo', "
                       "'a / b' are unparsable)", "registrations are identified through an ignored ';id=k' parameter"]
    return out.finish()


def replay(path, seed):
    with open(path) as f:
        rep = json.load(f)
    c = rep["case"]["case"]
    conc = dict(rep["case"]["concrete"])
    conc["id"] = "r"
    obs = vc.ndjson(vc.harness("vh", ["negotiate"], stdin=json.dumps(conc) + "\n"))[0]
    print(json.dumps(obs))
    if "panic" in obs:
        return 1
    ok = prop_ok(c, obs["obs"]["direct"]["chosen"])
    if c["kind"] == "response":
        ok = ok and prop_ok(c, obs["obs"]["ser"]["chosen"])
    print("replay: property %s" % ("holds" if ok else "VIOLATED"))
    return 0 if ok else 1
