"""X02 (extension feeding C14's selection and C20's determinism) - which comparison strategy the generator selects for an
object: Educe with DoubleOps methods, or plain derives (spec/Derives.tla, spec/MCDerives.tla).

TLC explores every definition of 3 object types with <= 2 (thorough 3) fields over {integer, double, optional<reference>} and
checks, on the memoised evaluation with its provisional entry, PlainIsValid, EduceIfDirect, NoSpuriousEduce and Functional;
self-tests: warming the cache in a seed-dependent order must violate Functional; the selection is NOT independent of the IR
order (config orderdep must be violated) - which is why any hash-ordered evaluation is a determinism defect.
Every emitted definition becomes three object types of ONE IR document; the real generator runs in three separate processes
(trees must be identical), the strategy of every object is read from its file and compared with the property layer
(VIOLATION) and with the model's prediction (MODEL-DRIFT), and rustc type-checks the whole document (harness/cgen).
"""
import json
import os
import re
import shutil
import subprocess

import irgen as ir
import vcommon as vc
from props import c03

PID = "X02"
PKG = "com.palantir.drv"
P = ir.prim
LET = "ABCDEFGH"


def tname(k, i):
    return "Case%dType%s" % (k, LET[i - 1])


def pkg_of(k, i):
    """every second case spreads its types over three packages (generation order between packages must not matter)"""
    return PKG if k % 2 == 0 else "%s.p%d" % (PKG, i)


def build_ir(cases):
    types = []
    for k, c in enumerate(cases):
        for i, fields in enumerate(c["def"], 1):
            fs = []
            for pos, f in enumerate(fields):
                if f == -1:
                    fs.append(ir.field("d%d" % pos, P("DOUBLE")))
                elif f == 0:
                    fs.append(ir.field("i%d" % pos, P("INTEGER")))
                else:
                    fs.append(ir.field("r%d" % pos, ir.optional(ir.ref(tname(k, f), pkg_of(k, f)))))
            types.append(ir.object_(tname(k, i), fs, package=pkg_of(k, i)))
    return ir.definition(types=types)


def snake(k, i):
    return ("" if k % 2 == 0 else "p%d/" % i) + "case%d_type_%s" % (k, LET[i - 1].lower())


def tlc_cases(tier, seed, pid=PID):
    cfg = "MCDerives_q.cfg" if tier == "quick" else "MCDerives_t.cfg"
    r = vc.tlc(pid, "MCDerives", cfg, workers=4 if tier == "quick" else 16, timeout_s=3000, extra_env={"EMITRES": str(seed)})
    if r.error:
        raise vc.ToolError("%s: %s" % (cfg, r.error))
    vc.require_actions(r, ["AddType", "Done"])
    return r


def run(tier, seed):
    out = vc.Outcome(PID, tier, seed, "model_checking")
    r = tlc_cases(tier, seed)
    if r.violated:
        out.model_drift("model:%s" % r.violated, "TLC reports %s" % r.violated)
    for cfg, inv in (("MCDerives_warm.cfg", "Functional"), ("MCDerives_genorder.cfg", "Functional"), ("MCDerives_orderdep.cfg", "OrderIndependent")):
        rm = vc.tlc(PID, "MCDerives", cfg, workers=2, timeout_s=300, coverage=False, keep_cases=False)
        if inv not in (rm.violated or []):
            raise vc.ToolError("spec self-test failed: %s must violate %s" % (cfg, inv))
    cases = r.cases
    limit = 600 if tier == "quick" else 3000
    if len(cases) > limit:
        cases = vc.Rng(seed).sample(cases, limit)
    doc = build_ir(cases)
    d = os.path.join(vc.OUT, "x02")
    shutil.rmtree(d, ignore_errors=True)
    os.makedirs(d)
    irp = os.path.join(d, "ir.json")
    with open(irp, "w") as f:
        json.dump(doc, f)
    vc.cargo_build("vh")
    vh = os.path.join(vc.TARGET, "debug", "vh")
    trees = []
    for n in range(3):
        od = os.path.join(d, "gen%d" % n)
        p = subprocess.run([vh, "gen-tree", irp, od, json.dumps({"strip_prefix": PKG, "exhaustive": n == 9})], stdout=subprocess.PIPE, stderr=subprocess.PIPE, text=True, timeout=600)
        if p.returncode != 0:
            out.violation("X02:generate", "generation failed: %s" % p.stderr[-300:], {"ir_file": irp})
            return out.finish()
        tree = {}
        for dp, _, fns in os.walk(od):
            for fn in fns:
                tree[os.path.relpath(os.path.join(dp, fn), od)] = open(os.path.join(dp, fn)).read()
        trees.append(tree)
    for n in (1, 2):
        if trees[n] != trees[0]:
            diff = [fn for fn in trees[0] if trees[n].get(fn) != trees[0][fn]]
            out.violation("X02:nondeterministic", "two processes emit different code for %d file(s), first %s" % (len(diff), diff[0]), {"files": diff[:10], "ir_file": irp})
    checked = 0
    for k, c in enumerate(cases):
        for i, fields in enumerate(c["def"], 1):
            text = trees[0].get(snake(k, i) + ".rs")
            if text is None:
                raise vc.ToolError("missing file %s.rs" % snake(k, i))
            got = "educe" if "Educe" in text else "plain"
            direct = -1 in fields
            checked += 1
            rep = {"def": c["def"], "type": i, "observed": got, "model": c["sel"][i - 1]}
            if got == "plain" and direct:
                out.violation("X02:plain-with-double", "type %d of %s derives Eq/Ord/Hash although it holds a bare double" % (i, c["def"]), rep)
            elif got == "educe" and not reachable(c["def"], i):
                out.violation("X02:educe-without-double", "type %d of %s uses Educe although no double is reachable" % (i, c["def"]), rep)
            elif got != c["sel"][i - 1]:
                out.model_drift("Derives", "type %d of %s: generator %s, model %s" % (i, c["def"], got, c["sel"][i - 1]))
    # rustc: the whole document type-checks (plain derives need every field type to implement the traits)
    set_dir = c03.write_set("x02", [("x02", doc, {"strip_prefix": PKG})])
    rc, report, errors, other, log = c03.cargo_check(set_dir)
    if any(not rep["ok"] for rep in report):
        out.violation("X02:generate", "generation failed in the build script", {"report": report})
    for cid, errs in errors.items():
        out.violation("X02:compile", "generated code does not compile: %s" % errs[0][-200:], {"errors": errs[:5], "ir_file": irp})
    if rc != 0 and not errors:
        raise vc.ToolError("cargo check failed outside the generated modules:\n%s" % "\n".join(other[:10] or log.splitlines()[-15:]))
    out.coverage = {"states": r.distinct, "transitions": r.generated, "traces_validated_against_impl": len(cases), "evaluations": checked,
                    "distinct_nontrivial": len({json.dumps(c["def"]) for c in cases}),
                    "rule": "one 3-type definition per TLC-emitted terminal state (hash-sampled), all in one IR document, generated in 3 processes, "
                            "strategy read per object file, document type-checked by rustc",
                    "samples": cases[:3], "coverage_by_action": {k: v[1] for k, v in r.coverage.items()}, "exhaustive": False}
    out.assumptions = ["TLC 1.8.0", "rustc", "`Educe` appears in an object's file iff the Educe strategy was selected"]
    return out.finish()


def reachable(d, i):
    seen, todo = set(), [i]
    while todo:
        j = todo.pop()
        if j in seen:
            continue
        seen.add(j)
        todo += [f for f in d[j - 1] if f > 0]
    return any(-1 in d[j - 1] for j in seen)


def replay(path, seed):
    print("replay: re-run `bin/check X02`")
    return 0
