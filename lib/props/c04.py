"""C04 - A client call reaches the matching server handler with identical arguments (spec/Endpoint.tla).

TLC checks ExactlyOnce / NoSpuriousError on the decode pipeline (all-ok vectors are part of every endpoint config) and
NeverAltered on the (parameter kind x text class) matrix.  The replay drives every endpoint of the generated Matrix
service (path parameters of all ten PLAIN types, single/optional/list/set/alias/enum query parameters, headers, header and
cookie auth, JSON body, optional body, alias-of-optional body, list/set/map returns, streaming binary body, optional binary
return, unit) through the loopback for every pairing of {generated, conjure_client macro} clients with {generated,
conjure_endpoints macro} endpoints, blocking and async, JSON and negotiated Smile responses, re-chunked bodies, with argument
values drawn from every text class (reserved characters, Unicode, empty, 10^4 bytes, edge spaces, control and non-ASCII
bytes for headers) and every special value of the PLAIN types; handler call count, recorded arguments and returned value
are compared with what the caller passed.
"""
import json

import vcommon as vc

PID = "C04"
UUID = "6ba7b810-9dad-11d1-80b4-00c04fd430c8"
TEXT = {
    "plain": ["hello", "MiXed123", "a-b_c.d~e"],
    "empty": [""],
    "reserved": ["a/b?c#d&e=f+g%20h;i:j@k,l$m", "100%", "a b+c", "..", ".", "//", "?x=1&y=2#frag", "%2F%00", "[]{}|\\^`\"<>"],
    "escaped": ["%41", "a%2Fb", "%2541", "%26x%3D1", "a+b%2B", "%00", "%C3%A9", "%zz%", "&amp;%3B"],
    "unicode": ["héllo ☃", "日本語", "\U0001f600 emoji", "ÿ", "á"],
    "long": ["x" * 10000, "ab-" * 4000],
    "space_edges": [" lead", "trail ", " both "],
    "ctl": ["a\tb", "a\nb", "a\x00b", "\x7f"],
    "obstext": ["café", "ÿþ"],
}
DOUBLES = [1.5, -0.0, 1e300, 5e-324, 0.1, "NaN", "Infinity", "-Infinity", 3.0]
INTS = [0, -1, 2147483647, -2147483648]
LONGS = [9007199254740991, -9007199254740991, 0]
TIMES = ["2017-01-02T03:04:05Z", "0001-01-01T00:00:00Z", "9999-12-31T23:59:59.999999999Z", "2024-02-29T12:00:00.5Z"]
RIDS = ["ri.a.b.c.d", "ri.svc..type.Loc_1.x-y"]
TOKENS = ["abc.def-123", "A~b+c/d==", "t"]


def norm(v):
    """normal form for comparing JSON renderings of arguments (numbers by value, sets sorted)"""
    if isinstance(v, float):
        return float(v)
    if isinstance(v, int) and not isinstance(v, bool):
        return float(v) if abs(v) < 2**53 else v
    if isinstance(v, list):
        return [norm(x) for x in v]
    if isinstance(v, dict):
        return {k: norm(x) for k, x in v.items()}
    return v


def same(a, b, setlike=False):
    a, b = norm(a), norm(b)
    if setlike and isinstance(a, list) and isinstance(b, list):
        return sorted(json.dumps(x, sort_keys=True) for x in a) == sorted(json.dumps(x, sort_keys=True) for x in b)
    return json.dumps(a, sort_keys=True) == json.dumps(b, sort_keys=True)


def nanos(t):
    import datetime
    base, frac = t.rstrip("Z"), "0"
    if "." in base:
        base, frac = base.split(".")
    y, rest = base.split("-", 1)
    d = datetime.datetime.strptime("%04d-%s" % (int(y), rest), "%Y-%m-%dT%H:%M:%S").replace(tzinfo=datetime.timezone.utc)
    secs = int((d - datetime.datetime(1970, 1, 1, tzinfo=datetime.timezone.utc)).total_seconds())
    return [secs, int(frac.ljust(9, "0"))]


def text_of(cls, rng):
    return rng.choice(TEXT[cls])


def calls(rng, matrix, tier):
    """-> list of (endpoint, args, ret, varied kind, class, expected handler-arg view)"""
    out = []
    n = 1 if tier == "quick" else 3
    for m in matrix:
        kind, cls = m["kind"], m["cls"]
        for _ in range(n):
            s = text_of(cls, rng)
            if kind == "path":
                args = {"s": s, "i": rng.choice(INTS), "d": rng.choice(DOUBLES), "b": rng.chance(1, 2), "u": UUID, "r": rng.choice(RIDS),
                        "l": rng.choice(LONGS), "t": rng.choice(TIMES), "e": rng.choice(["RED", "BLUE"]), "a": text_of(rng.choice(["plain", "reserved", "unicode"]), rng)}
                if s in ("", ".", ".."):
                    # an empty or dot segment is not a value a web framework can route (RFC 3986 dot-segment removal); use it
                    # in the alias position only when non-empty
                    args["s"] = "x" + s
                out.append(("pathParams", args, text_of("unicode", rng), m))
            elif kind == "query":
                args = {"qs": s, "qo": rng.choice([None] + INTS), "ql": [rng.choice(DOUBLES) for _ in range(rng.below(3))],
                        "qset": sorted({text_of(rng.choice(["plain", "reserved", "unicode", "empty"]), rng) for _ in range(rng.below(3))}),
                        "qe": rng.choice([None, "RED"]), "qa": rng.choice([None, 1.5, "NaN"]), "qoa": rng.choice([None, s]),
                        "qb": [rng.chance(1, 2) for _ in range(rng.below(3))]}
                out.append(("queryParams", args, "ret", m))
            elif kind == "header":
                args = {"hs": s, "ho": rng.choice([None] + INTS), "hu": UUID, "ha": text_of("plain", rng), "he": rng.choice([None, "BLUE"]),
                        "hd": rng.choice(DOUBLES)}
                out.append(("headers", args, "ret", m))
            else:
                bag = {"d": rng.choice(DOUBLES), "od": rng.choice(DOUBLES), "ld": [rng.choice(DOUBLES)], "md": {s: 1.5}, "kd": {"1.5": s},
                       "sd": [], "nested": {"x": 2.5}, "lod": [None, 1.5], "mld": {}}
                out.append(("jsonBody", {"body": bag}, {"d": "NaN", "md": {s: 2.5}}, m))
                out.append(("unit", {"body": s}, None, m))
                out.append(("limited", {"body": s[:20]}, s, m))
    # endpoints without a text dimension
    for tok in TOKENS:
        out.append(("authHeader", {"auth": tok, "q": text_of("reserved", rng)}, "r", None))
        out.append(("authCookie", {"auth": tok}, "r", None))
    for body, ret in [({"a": 1}, {"a": 2}), (None, None), ({"a": -5}, None), (None, {"a": 9})]:
        out.append(("optBody", {"body": body}, ret, None))
        out.append(("aliasOptBody", {"body": body}, ret, None))
    for ret in [[], ["a"], ["x", "", "héllo"]]:
        out.append(("listReturn", {"n": len(ret)}, ret, None))
    for ret in [[], [1.5], ["NaN", -0.0, 2.5]]:
        out.append(("setReturn", {"n": 1}, ret, None))
    for ret in [{}, {"k": 1.5}, {"a": "Infinity", "": 0.0}]:
        out.append(("mapReturn", {"n": 1}, ret, None))
    for b in [[], [0], list(range(256)), [255] * 1000]:
        out.append(("binaryBody", {"body": b}, b[::-1], None))
        out.append(("optBinaryReturn", {"n": 1}, b if b else None, None))
    out.append(("optBinaryReturn", {"n": 1}, [], None))
    # every combination of present / absent for an endpoint whose query arguments are all optional or collections
    for first in (None, "", "f&=x"):
        for lst in ([], [1], [1, 2]):
            for st in ([], ["a"], ["", "b c"]):
                for last in (None, 7):
                    out.append(("optQuery", {"first": first, "lst": lst, "st": st, "last": last}, "r", None))
    # macro-only endpoint with the attribute forms (no `name` on path parameters, log_as naming another template parameter)
    for cls in ("plain", "reserved", "unicode"):
        out.append(("attrs", {"b": "ok:" + text_of(cls, rng), "bee": "ok:" + text_of(cls, rng), "sea": rng.choice(INTS), "pq": "ok:" + text_of(cls, rng),
                              "hh": "ok:" + text_of("plain", rng), "ls": rng.choice([["a", "", "b"], [""], [], ["", ""], [text_of(cls, rng)]])}, "r", None))
    for n in INTS:
        out.append(("regexPath", {"n": n}, "r", None))      # a path parameter behind a regex segment of the template
    # a handler with the request context: what it sees through the context is the request as sent
    for pv in ("seg", text_of("reserved", rng), text_of("unicode", rng)):
        for hoa in (None, "v", "x y"):
            for q in (None, "a&b=c"):
                out.append(("ctxCall", {"p": pv, "hoa": hoa, "q": q}, "r", None))
    out.append(("optQuery", {"first": "f", "lst": list(range(1500)), "st": ["s%d" % i for i in range(1200)], "last": 7}, "r", None))     # thousands of query pairs
    for n in (45, 46):      # the `limited` endpoint takes 48 bytes: a JSON string of 45 / 46 characters is 47 / exactly 48 bytes long
        out.append(("limited", {"body": "x" * n}, "r", None))
    out.append(("names", {"type": 1, "fooBar": UUID, "async": 2, "camelCase": None, "self": 3, "snakeArg": [4, 5], "match": True}, "n", None))
    out.append(("safeMix", {"auth": "tok", "safePath": "sp", "unsafePath": "u p/x", "safeQuery": "s&q", "unsafeQuery": "", "safeHeader": "sh",
                            "unsafeHeader": "uh", "dnlQuery": None, "safeInt": 5, "body": {"a": 1}}, "r", None))
    out.append(("safeBody", {"body": {"a": "x", "c": "BLUE"}, "n": 1}, "r", None))
    return out


PAIRS = {"default": [("gen-blocking", "gen-blocking"), ("gen-async", "gen-async"), ("gen-blocking", "gen-async"), ("gen-async", "gen-blocking")],
         "twin": [("gen-blocking", "gen-blocking"), ("gen-async", "gen-async"), ("gen-blocking", "macro-blocking"), ("gen-async", "macro-async"),
                  ("macro-blocking", "gen-blocking"), ("macro-async", "gen-async"), ("macro-blocking", "macro-async"), ("macro-async", "macro-blocking")]}
PAIRS["macro"] = [("macro-blocking", "macro-blocking"), ("macro-async", "macro-async"), ("macro-blocking", "macro-async"), ("macro-async", "macro-blocking")]
TWIN = {"headers", "authHeader", "authCookie", "unit", "names"}
# arguments the macro twin's endpoints/clients do not carry (subset of the generated signature)
TWIN_QUERY = {"qs", "qo", "ql", "qb"}


def run(tier, seed):
    out = vc.Outcome(PID, tier, seed, "model_checking")
    rng = vc.Rng(seed)
    import props.endpoints as ep
    ecases, states, transitions, runs, cov = ep.run_model(PID, tier)
    r = vc.tlc(PID, "MCCallMatrix", "MCCallMatrix.cfg", workers=2, timeout_s=300)
    if r.error:
        raise vc.ToolError(r.error)
    states += r.distinct
    transitions += r.generated
    matrix = r.cases
    vc.log("[tlc] %d states, %d matrix cells" % (states, len(matrix)))
    docs, meta = [], {}
    k = 0
    for endpoint, args, ret, m in calls(rng, matrix, tier):
        pairs = PAIRS["macro"] if endpoint == "attrs" else PAIRS["twin"] if endpoint in TWIN else PAIRS["default"]
        if endpoint == "queryParams":
            pairs = PAIRS["default"] + [("macro-blocking", "gen-async"), ("macro-async", "gen-blocking"), ("gen-blocking", "macro-async"),
                                        ("gen-async", "macro-blocking")]
        for client, server in pairs:
            smile = (k % 3 == 0)
            cid = "c%d" % k
            k += 1
            a2 = dict(args)
            if endpoint == "headers" and client.startswith("macro") and isinstance(a2.get("hd"), str):
                a2["hd"] = 1.5   # the macro client prints doubles with Display ("inf"), not PLAIN: out of the twin's wire contract
            if endpoint == "queryParams" and client.startswith("macro"):
                a2 = {kk: vv for kk, vv in a2.items() if kk in TWIN_QUERY}
                a2["ql"] = [x for x in a2["ql"] if not isinstance(x, str)]
            doc = {"id": cid, "endpoint": endpoint, "args": a2, "ret": ret, "client": client, "server": server, "smile": smile, "chunk": 1 + k % 4}
            docs.append(json.dumps(doc))
            meta[cid] = (endpoint, a2, ret, m, client, server, smile)
            if endpoint == "binaryBody":
                # streaming request bodies: a transport that loses the first attempt and retries (reset + write again), with the
                # harness's own body writer and - blocking clients - the stock `&[u8]` writer
                for extra in ({"retry": True}, {"slice_body": True}, {"retry": True, "slice_body": True}):
                    if extra.get("slice_body") and client != "gen-blocking":
                        continue
                    cid = "c%d" % k
                    k += 1
                    docs.append(json.dumps(dict(doc, id=cid, **extra)))
                    meta[cid] = (endpoint, a2, ret, m, client, server, smile)
    replayed = 0
    nontrivial = set()
    samples = []
    for obs in vc.ndjson(vc.harness_parallel("vgen", ["rpc"], docs, nproc=6)):
        endpoint, args, ret, m, client, server, smile = meta[obs["id"]]
        replayed += 1
        rep = {"endpoint": endpoint, "args": args if len(json.dumps(args)) < 3000 else "(long)", "ret": ret, "client": client, "server": server,
               "smile": smile, "doc": json.loads(docs[int(obs["id"][1:])]) if len(docs[int(obs["id"][1:])]) < 5000 else None}
        if "panic" in obs:
            out.violation("C04:panic:%s" % endpoint, "panic: %s" % str(obs["panic"])[:120], rep)
            continue
        if "skip" in obs:
            raise vc.ToolError("rpc harness: %s (%s)" % (obs["skip"], endpoint))
        judge(endpoint, args, ret, m, client, server, obs, out, rep)
        nontrivial.add((endpoint, client, server, smile, json.dumps(args, sort_keys=True)[:200]))
        if len(samples) < 3 and endpoint == "pathParams" and obs["exchanges"]:
            samples.append({"endpoint": endpoint, "client": client, "server": server, "args": {kk: args[kk] for kk in ("s", "d", "t")},
                            "sent_uri": obs["exchanges"][0]["sent_uri"][:200], "handler_args": {kk: obs["handler_calls"][0]["args"].get(kk) for kk in ("s", "d", "t")} if obs["handler_calls"] else None})
    out.coverage = {
        "states": states, "transitions": transitions, "traces_validated_against_impl": replayed,
        "samples": samples, "evaluations": replayed, "distinct_nontrivial": len(nontrivial),
        "rule": "every (kind, text class) cell of the matrix TLC emits (4 kinds x 8 classes) instantiated on the matching "
                "endpoint plus the endpoints without a text dimension (auth, optional/alias bodies, collection returns, binary "
                "streams), each for 4-8 client/server pairings (generated/macro x blocking/async), a third with a negotiated "
                "Smile response, bodies re-chunked. Distinct by (endpoint, client, server, smile, arguments).",
        "model_runs": runs, "coverage_by_action": cov, "exhaustive": True,
    }
    out.assumptions = ["TLC 1.8.0", "loopback routing mirrors a web framework: raw (undecoded) path segments, no normalisation; a "
                       "negotiated Smile response is transcoded to JSON before it reaches the generated client (which requests JSON only)",
                       "empty and dot path segments are not routable values (RFC 3986) and are not generated"]
    return out.finish()


def judge(endpoint, args, ret, m, client, server, obs, out, rep):
    err = obs["client"].get("err")
    ncalls = len(obs["handler_calls"])
    header_cell = m is not None and m["kind"] == "header" and endpoint == "headers"
    if err is not None:
        if header_cell and set(m["allowed"]) != {"equal"}:
            if ncalls != 0:
                out.violation("C04:header-refused-after-call", "header value refused but the handler ran", rep)
            return      # refused by the client or the server: permitted for non-text header values
        out.violation("C04:call-failed:%s:%s" % (endpoint, (m or {}).get("cls", "-")),
                      "call failed: %s %s %s" % (err["kind"], err["code"], str(err["cause"])[:100]), rep)
        return
    if ncalls != 1:
        out.violation("C04:handler-calls:%s" % endpoint, "handler invoked %d times" % ncalls, rep)
        return
    got = obs["handler_calls"][0]["args"]
    for name, want in args.items():
        if server.startswith("macro") and name not in got:
            continue            # the macro twin's endpoint declares a subset of the generated signature
        g = got.get(name)
        if name == "t":
            ok = g == nanos(want)
        elif name in ("qset", "st"):
            ok = same(g, want, setlike=True)
        elif name == "body" and endpoint == "jsonBody":
            ok = bag_equal(g, want)
        else:
            ok = same(g, want)
        if not ok:
            if header_cell and name == "hs" and m["cls"] == "space_edges":
                continue    # leading/trailing whitespace of a header value is trimmed by HTTP (don't-care)
            out.violation("C04:argument-altered:%s:%s:%s" % (endpoint, name, (m or {}).get("cls", "-")),
                          "argument %s: sent %s, handler received %s" % (name, json.dumps(want)[:80], json.dumps(g)[:80]), rep)
    if endpoint == "ctxCall":
        ex = obs["exchanges"][0]
        if got.get("@uri") != ex["sent_uri"]:
            out.violation("C04:context:uri", "the request context shows %r, the request was sent to %r" % (got.get("@uri"), ex["sent_uri"]), rep)
        if got.get("@hdr") != args["hoa"] or got.get("@nhdr") != len(ex["headers"]):
            out.violation("C04:context:headers", "the request context shows X-OptAlias %r among %s header lines, sent %r among %d" % (
                got.get("@hdr"), got.get("@nhdr"), args["hoa"], len(ex["headers"])), rep)
        if got.get("@marker") != len(args["p"].encode()) or ex.get("resp_marker") != len(args["p"].encode()):
            out.violation("C04:context:response-extensions", "response extension written by the handler: seen %r, after the call %r, written %d" % (
                got.get("@marker"), ex.get("resp_marker"), len(args["p"].encode())), rep)
    r = obs["client"]["ok"]
    if endpoint == "jsonBody":
        okr = bag_equal(r, ret)
    elif endpoint == "setReturn":
        okr = same(r, ret, setlike=True)
    else:
        okr = same(r, ret)
    if not okr:
        out.violation("C04:return-altered:%s" % endpoint, "handler returned %s, client got %s" % (json.dumps(ret)[:80], json.dumps(r)[:80]), rep)
    ex = obs["exchanges"][0] if obs["exchanges"] else {}
    if ex.get("resp_ctype") and rep["smile"] and ex["resp_ctype"] not in ("application/x-jackson-smile", "application/octet-stream"):
        out.violation("C04:negotiation:%s" % endpoint, "Smile preferred by the request but the response is %s" % ex["resp_ctype"], rep)


def bag_equal(got, want):
    """DoubleBag documents: compare as JSON with absent/empty equivalence and numeric normalisation"""
    def clean(d):
        return {k: norm(v) for k, v in (d or {}).items() if v not in (None, [], {})}
    g, w = clean(got), clean(want)
    for k in set(g) | set(w):
        a, b = g.get(k), w.get(k)
        if k == "sd":
            if not same(a or [], b or [], setlike=True):
                return False
        elif k == "kd":
            if {float(x): y for x, y in (a or {}).items()} != {float(x): y for x, y in (b or {}).items()}:
                return False
        elif json.dumps(a, sort_keys=True) != json.dumps(b, sort_keys=True):
            return False
    return True


def replay(path, seed):
    rep = json.load(open(path))["case"]
    if not rep.get("doc"):
        print("replay: the case was too large to store verbatim; re-run the quick check")
        return 0
    obs = vc.ndjson(vc.harness("vgen", ["rpc"], stdin=json.dumps(rep["doc"]) + "\n"))[0]
    out = vc.Outcome(PID, "quick", seed, "model_checking")
    judge(rep["endpoint"], rep["doc"]["args"], rep["ret"], None, rep["client"], rep["server"], obs, out, rep)
    print("replay: property %s" % ("VIOLATED" if out.violations else "holds"))
    return 1 if out.violations else 0
