"""C20 - Code generation is deterministic: same definition and options, same bytes (spec/Generate.tla).

TLA+ : Generate.tla models one generation as Out(def, cfg, seed): file set, item order of every mod.rs / lib.rs, the
Cargo.toml dependency order, package name/version, endpoint-metadata version; `seed` is the order in which the process's
HashMaps present their keys.  TLC checks Deterministic (Out does not depend on the seed), CliEqualsLib (main.rs's
flag -> Config mapping equals the documented one, for every accepted combination of flag forms) and Confined.  Self-tests:
the model with Cargo dependencies in a HashMap, and with root modules emitted by iterating the type table, must violate
Deterministic.
Binding (S -> I): every (definition, command line) case TLC emits becomes an IR document and is generated in SEPARATE
PROCESSES (own hash seeds): the conjure-rust binary built from /repo with the case's flag forms, and the library entry
point (vh gen-tree) with the configuration the model computes; runs differ in cwd, relative/absolute paths, TMPDIR, HOME,
locale, pre-existing empty output directory.  All trees must be byte-identical (property), and the tree must be the one the
model predicts: file set, `pub mod` order per directory, dependency order, package, version (model conformance).
Confinement: each run's sandbox (cwd, TMPDIR, HOME, parent of the output directory) must contain nothing new outside the
output directory; a sample of runs is executed under strace and every file-creating system call is checked.
"""
import concurrent.futures
import hashlib
import json
import os
import re
import shutil
import subprocess

import c03gen
import irgen as ir
import vcommon as vc

PID = "C20"
CLI = os.path.join(vc.TARGET, "debug", "conjure-rust")
VH = os.path.join(vc.TARGET, "debug", "vh")
BASE = os.path.join(vc.OUT, "c20")
P = ir.prim


def build_cli():
    env = dict(os.environ)
    env["CARGO_NET_OFFLINE"] = "true"
    p = subprocess.run(["cargo", "build", "--offline", "-q", "--manifest-path", "/repo/conjure-rust/Cargo.toml"], cwd=vc.HARNESS, env=env,
                       stdout=subprocess.PIPE, stderr=subprocess.STDOUT, text=True)
    if p.returncode != 0 or not os.path.exists(CLI):
        raise vc.ToolError("building the conjure-rust binary failed:\n%s" % "\n".join(l for l in p.stdout.splitlines() if "warning" not in l)[-3000:])
    vc.cargo_build("vh")


# ------------------------------------------------------------------------------------------------
def case_ir(case, k):
    """IR for a definition of spec/MCGenerate.tla: items with kind type / error / service, in IR order"""
    items = case["def"]
    tys = [it for it in items if it["kind"] == "type"]

    def tref(j):
        it = tys[j % len(tys)]
        return ir.ref(it["name"], ".".join(it["pkg"]))
    some_type = tref(0) if tys else P("STRING")
    types, errors, services = [], [], []
    ti = 0
    for i, it in enumerate(items):
        pkg = ".".join(it["pkg"])
        if it["kind"] == "type":
            nxt = tref(ti + 1)
            kind = (ti + k) % 4
            if kind == 0:
                types.append(ir.object_(it["name"], [ir.field("next", ir.optional(nxt)), ir.field("xs", ir.list_(P("STRING"))), ir.field("n", P("INTEGER"))], package=pkg))
            elif kind == 1:
                types.append(ir.union_(it["name"], [ir.field("next", nxt), ir.field("n", P("INTEGER"))], package=pkg))
            elif kind == 2:
                types.append(ir.enum_(it["name"], ["A", "B"], package=pkg))
            else:
                types.append(ir.object_(it["name"], [ir.field("m", ir.map_(P("STRING"), nxt)), ir.field("o", ir.optional(P("DOUBLE")))], package=pkg))
            ti += 1
        elif it["kind"] == "error":
            errors.append(ir.error(it["name"], "Ns", "CONFLICT", [ir.field("zeta", P("STRING")), ir.field("alpha", ir.optional(some_type)), ir.field("mid", P("INTEGER"))],
                                   [ir.field("u2", P("STRING")), ir.field("u1", P("INTEGER"))], package=pkg))
        else:
            eps = [ir.endpoint("getIt", "POST", "/a/{p}", [ir.arg("p", P("STRING"), "path"), ir.arg("q2", ir.optional(P("INTEGER")), "query", "q2"),
                                                            ir.arg("q1", ir.list_(P("STRING")), "query", "q1"), ir.arg("h", P("STRING"), "header", "X-H"),
                                                            ir.arg("body", some_type, "body")], returns=ir.optional(some_type), auth="header"),
                   ir.endpoint("other", "GET", "/b", [], returns=P("STRING"))]
            services.append(ir.service(it["name"], eps, package=pkg))
    return ir.definition(types=types, services=services, errors=errors)


def cli_args(fl):
    a = ["generate"]
    for key, flag in (("ex", "--exhaustive"), ("sec", "--serializeEmptyCollections")):
        f = fl[key]
        if f == "bare":
            a.append(flag)
        elif f in ("true", "false"):
            a.append("%s=%s" % (flag, f))
    if fl["strip"]:
        a += ["--stripPrefix", ".".join(fl["strip"])]
    if fl["pname"] != "none":
        a += ["--productName", fl["pname"]]
    if fl["pver"] != "none":
        a += ["--productVersion", fl["pver"]]
    if fl["cver"] != "none":
        a += ["--crateVersion", fl["cver"]]
    return a


def lib_cfg(cfg):
    """the model's LibConfig record -> vh gen-tree's JSON"""
    none = lambda v: None if v == "none" else v
    return {"exhaustive": cfg["exhaustive"], "serialize_empty_collections": cfg["serialize_empty_collections"],
            "strip_prefix": ".".join(cfg["strip_prefix"]) if cfg["strip_prefix"] else None,
            "crate_name": none(cfg["crate_name"]), "crate_version": none(cfg["crate_version"]), "version": none(cfg["version"])}


def flags_of_cfg(c):
    """command line equivalent to a library configuration (for the hand-designed IR families)"""
    a = ["generate"]
    if c.get("exhaustive"):
        a.append("--exhaustive")
    if c.get("serialize_empty_collections"):
        a.append("--serializeEmptyCollections=true")
    if c.get("strip_prefix"):
        a += ["--stripPrefix", c["strip_prefix"]]
    if c.get("crate_name"):
        a += ["--productName", c["crate_name"], "--productVersion", c["version"]]
        if c["crate_version"] != c["version"]:
            a += ["--crateVersion", c["crate_version"]]
    return a


# ------------------------------------------------------------------------------------------------
def snapshot(root):
    """relative path -> sha256 (files) / 'dir' / 'link:<target>' for everything below root"""
    out = {}
    for d, dirs, files in os.walk(root):
        for n in dirs:
            p = os.path.join(d, n)
            out[os.path.relpath(p, root)] = "link:" + os.readlink(p) if os.path.islink(p) else "dir"
        for n in files:
            p = os.path.join(d, n)
            if os.path.islink(p):
                out[os.path.relpath(p, root)] = "link:" + os.readlink(p)
            else:
                with open(p, "rb") as f:
                    out[os.path.relpath(p, root)] = hashlib.sha256(f.read()).hexdigest()
    return out


CREATE_CALLS = re.compile(r"^(\d+\s+)?(openat|open|creat|mkdir|mkdirat|rename|renameat|renameat2|link|linkat|symlink|symlinkat|mknod|mknodat|unlink|unlinkat|rmdir|truncate|chmod|fchmodat|chown)\(")


def strace_writes(logfile, cwd):
    """paths a traced process (tree) created, wrote, renamed or removed"""
    touched = []
    for line in open(logfile, errors="replace"):
        m = CREATE_CALLS.match(line)
        if not m or " = -1 " in line:
            continue
        call = m.group(2)
        paths = re.findall(r'"((?:[^"\\]|\\.)*)"', line)
        if call in ("open", "openat"):
            if not re.search(r"O_(WRONLY|RDWR|CREAT|TRUNC|APPEND)", line):
                continue
            paths = paths[:1]
        for p in paths:
            if p in ("/dev/null", "/dev/tty") or p.startswith("/proc/"):
                continue
            touched.append((call, os.path.normpath(os.path.join(cwd, p))))
    return touched


def stale_copy(src, dst):
    """an older generation of the same definition: every file present with the same length but other bytes (letters change case)"""
    for d, dirs, files in os.walk(src):
        rel = os.path.relpath(d, src)
        os.makedirs(os.path.join(dst, rel), exist_ok=True)
        for n in files:
            with open(os.path.join(d, n), "rb") as f:
                data = f.read()
            with open(os.path.join(dst, rel, n), "wb") as f:
                f.write(data.swapcase())


def one_run(sandbox, rid, kind, ir_path, argv_or_cfg, variant, trace=False, stale_from=None):
    """One generation in its own process.  Returns (tree snapshot, problems)"""
    box = os.path.join(sandbox, rid)
    shutil.rmtree(box, ignore_errors=True)
    cwd, tmp, home = (os.path.join(box, n) for n in ("cwd", "tmp", "home"))
    for d in (cwd, tmp, home):
        os.makedirs(d)
    outname = ["out", "o", "generated-output-directory-with-a-long-name", "out.d", "src", "lib.rs", "mod"][variant % 7]
    outdir = os.path.join(box, "w", outname)
    os.makedirs(os.path.join(box, "w"))
    if stale_from is not None:
        stale_copy(stale_from, outdir)            # regeneration over an older generation of the same definition
    elif variant % 3 == 1:
        os.makedirs(outdir)                       # an existing, empty directory is fresh too
    out_arg = outdir if variant % 2 == 0 else os.path.relpath(outdir, cwd)
    ir_arg = ir_path
    if variant % 4 >= 2:                          # the IR under another path, given relatively
        local = os.path.join(box, "w", "in-%d.json" % variant)
        shutil.copyfile(ir_path, local)
        ir_arg = os.path.relpath(local, cwd)
    env = {"PATH": "/usr/bin:/bin", "TMPDIR": tmp, "HOME": home, "LANG": ["C", "C.UTF-8", "en_US.UTF-8", "tr_TR.UTF-8"][variant % 4],
           "TZ": ["UTC", "Asia/Kolkata", "America/St_Johns"][variant % 3], "RUST_BACKTRACE": str(variant % 2),
           "CARGO_PKG_VERSION": "9.9.9", "OUT_DIR": os.path.join(box, "w", "env-out-dir"), "SOURCE_DATE_EPOCH": str(variant)}
    if kind == "cli":
        cmd = [CLI] + argv_or_cfg + [ir_arg, out_arg]
    else:
        cmd = [VH, "gen-tree", ir_arg, out_arg, json.dumps(argv_or_cfg)]
    before = snapshot(box)
    log = os.path.join(sandbox, rid + ".strace")
    if trace:
        cmd = ["strace", "-f", "-qq", "-e", "trace=%file", "-o", log] + cmd
    p = subprocess.run(cmd, cwd=cwd, env=env, stdout=subprocess.PIPE, stderr=subprocess.PIPE, text=True, timeout=600)
    problems = []
    if p.returncode != 0:
        return None, [("error", "%s exited %d: %s" % (kind, p.returncode, p.stderr.strip()[-300:]))]
    after = snapshot(box)
    rel_out = os.path.relpath(outdir, box)
    tree = {}
    for path, h in after.items():
        if path == rel_out or path.startswith(rel_out + os.sep):
            if path != rel_out:
                tree[os.path.relpath(path, rel_out)] = h
        elif before.get(path) != h:
            problems.append(("escape", "created or changed outside the output directory: %s" % path))
    if trace:
        real_out = os.path.realpath(outdir)
        for call, path in strace_writes(log, cwd):
            rp = os.path.realpath(path)
            if not (rp == real_out or rp.startswith(real_out + os.sep) or rp == os.path.dirname(real_out)):
                problems.append(("escape", "%s(%s) outside the output directory" % (call, path)))
            elif rp == os.path.dirname(real_out) and call not in ("mkdir", "mkdirat"):
                problems.append(("escape", "%s(%s) on the parent of the output directory" % (call, path)))
        os.remove(log)
    return (tree, outdir), problems


def mods_of(text):
    return re.findall(r"^pub mod ([A-Za-z0-9_]+);", text, re.M)


def uses_of(text):
    return re.findall(r"^pub use self::([A-Za-z0-9_]+)::", text, re.M)


def check_model(case, outdir, tree):
    """the emitted tree against the model's prediction; returns list of drift messages"""
    drift = []
    files = {p for p, h in tree.items() if h != "dir"}
    want = {"/".join(f) for f in case["files"]}
    if files != want:
        drift.append("file set: model-only %s, tree-only %s" % (sorted(want - files)[:4], sorted(files - want)[:4]))
    crate = case["lib"]["crate_name"] != "none"
    for m in case["mods"]:
        d = list(m["dir"])
        name = "lib.rs" if (crate and not d) else "mod.rs"
        path = os.path.join(outdir, *((["src"] if crate else []) + d + [name]))
        if not os.path.exists(path):
            continue
        text = open(path).read()
        got = mods_of(text)
        if got != m["mods"]:
            drift.append("`pub mod` order of %s: model %s, tree %s" % ("/".join(d + [name]), m["mods"], got))
        ntypes = len(uses_of(text))
        if uses_of(text) != m["mods"][:ntypes]:
            drift.append("`pub use` order of %s: %s vs %s" % ("/".join(d + [name]), uses_of(text), m["mods"][:ntypes]))
    if crate:
        toml = open(os.path.join(outdir, "Cargo.toml")).read()
        deps = re.findall(r"^(conjure-[a-z]+)\s*=", toml.split("[dependencies]")[1] if "[dependencies]" in toml else "", re.M)
        if deps != case["deps"]:
            drift.append("Cargo.toml dependency order: model %s, tree %s" % (case["deps"], deps))
        if 'name = "%s"' % case["lib"]["crate_name"] not in toml or 'version = "%s"' % case["lib"]["crate_version"] not in toml:
            drift.append("Cargo.toml package: %s" % toml[:120])
    ev = case["endpoint_version"]
    for it in case["def"]:
        if it["kind"] != "service":
            continue
        for p in tree:
            if p.endswith(".rs") and tree[p] != "dir":
                text = open(os.path.join(outdir, p)).read()
                if "conjure_http::client::Endpoint::new" in text:
                    has = re.findall(r'Option::Some\(\s*"([^"]+)"\s*,?\s*\)', text)
                    if ev == "none" and has or ev != "none" and (not has or set(has) != {ev}):
                        drift.append("endpoint metadata version: model %s, tree %s" % (ev, sorted(set(has))))
        break
    return drift


def check_family_tree(doc, outdir, tree):
    """Larger IR documents (no TLC case): the tree against the module-trie rules of spec/Modules.tla, read off the tree itself -
    per directory the `pub use` lines follow IR order (types, errors, services), `pub mod` repeats them and ends with the
    sub-directories in byte order; every declared module has a file or directory.  Returns drift messages."""
    norm = lambda x: x.lower().replace("_", "")       # the generator re-cases names (IOError -> IoError, Self -> Self_)
    order = {}
    n = 0
    for t in doc.get("types", []):
        body = t[t["type"]]
        order[norm(body["typeName"]["name"])] = n
        n += 1
    for e in doc.get("errors", []):
        order[norm(e["errorName"]["name"])] = n
        n += 1
    for sv in doc.get("services", []):
        order[norm(sv["serviceName"]["name"] + "Client")] = n
        n += 1
    drift = []
    for path in sorted(p for p, h in tree.items() if h != "dir" and os.path.basename(p) in ("mod.rs", "lib.rs")):
        text = open(os.path.join(outdir, path)).read()
        uses = [(m, a or b) for m, a, b in
                re.findall(r"^pub use self::([A-Za-z0-9_]+)::(?:\{([^}]*)\}|([A-Za-z0-9_#]+));", text, re.M | re.S)]
        mods = mods_of(text)
        use_mods = [m for m, _ in uses]
        idx = []
        for m, names in uses:
            first = names.split(",")[0].strip()
            if first.startswith("r#"):
                first = first[2:]
            idx.append(order.get(norm(first), -1))
        if any(i < 0 for i in idx):
            drift.append("%s: re-exported name not in the IR (%s)" % (path, [u[1].split(",")[0].strip() for u, i in zip(uses, idx) if i < 0][:3]))
        elif idx != sorted(idx):
            drift.append("%s: re-exports are not in IR order" % path)
        if mods[:len(use_mods)] != use_mods:
            drift.append("%s: `pub mod` does not repeat the re-exported modules in order" % path)
        subs = mods[len(use_mods):]
        if subs != sorted(subs, key=lambda x: x.encode()):
            drift.append("%s: sub-modules %s are not in byte order" % (path, subs))
        d = os.path.dirname(path)
        for m in mods:
            if os.path.join(d, m + ".rs") not in tree and os.path.join(d, m, "mod.rs") not in tree:
                drift.append("%s declares module %s without a file" % (path, m))
    return drift


def generate_group(gid, ir_doc, runs, case=None, trace_first=False):
    """runs: list of (kind, argv|cfg).  All trees must be identical.  Returns dict(result)."""
    sandbox = os.path.join(BASE, gid)
    shutil.rmtree(sandbox, ignore_errors=True)
    os.makedirs(sandbox)
    ir_path = os.path.join(sandbox, "ir.json")
    with open(ir_path, "w") as f:
        json.dump(ir_doc, f)
    res = {"id": gid, "violations": [], "drift": [], "runs": 0, "files": 0}
    ref = None
    for n, (kind, conf) in enumerate(runs):
        # the last run of a group regenerates over a same-length, different-content copy of the reference tree
        stale = ref[1] if (ref is not None and n == len(runs) - 1 and n >= 2) else None
        got, problems = one_run(sandbox, "r%d" % n, kind, ir_path, conf, variant=n + (len(gid) % 3), trace=(trace_first and n < 2), stale_from=stale)
        res["runs"] += 1
        for k, msg in problems:
            res["violations"].append(("C20:%s:%s" % (k, kind), "%s run %d: %s" % (kind, n, msg), {"run": n, "kind": kind, "conf": conf}))
        if got is None:
            continue
        tree, outdir = got
        if ref is None:
            ref = (tree, outdir, kind, n)
            res["files"] = len(tree)
            if case is not None:
                res["drift"] = check_model(case, outdir, tree)
            else:
                res["drift"] = check_family_tree(ir_doc, outdir, tree)
            continue
        if tree != ref[0]:
            diff = sorted(p for p in set(tree) | set(ref[0]) if tree.get(p) != ref[0].get(p))
            what = "regenerated-over-older-output" if stale is not None else "cli-vs-lib" if kind != ref[2] else "run-vs-run:" + kind
            fk = "Cargo.toml" if diff[0].endswith("Cargo.toml") else ("mod.rs" if diff[0].endswith(("mod.rs", "lib.rs")) else "module")
            detail = ""
            a, b = os.path.join(ref[1], diff[0]), os.path.join(outdir, diff[0])
            if os.path.isfile(a) and os.path.isfile(b):
                la, lb = open(a, errors="replace").read().splitlines(), open(b, errors="replace").read().splitlines()
                for i in range(min(len(la), len(lb))):
                    if la[i] != lb[i]:
                        detail = " line %d: %r vs %r" % (i + 1, la[i][:80], lb[i][:80])
                        break
            res["violations"].append(("C20:differs:%s:%s" % (what, fk), "trees differ (%s run %d vs %s run %d) in %d file(s), first %s%s" % (
                ref[2], ref[3], kind, n, len(diff), diff[0], detail), {"files": diff[:10], "runs": [ref[3], n]}))
    if not res["violations"]:
        shutil.rmtree(sandbox, ignore_errors=True)
    return res


SEQ_STEPS = [
    # (same Config object as the step before?, setters applied, configuration in effect)
    (False, {"exhaustive": True, "serialize_empty_collections": True, "strip_prefix": "com.palantir"}, None),
    (True, {"exhaustive": False, "serialize_empty_collections": False}, {"strip_prefix": "com.palantir"}),
    (False, {}, None),
    (False, {"exhaustive": True, "strip_prefix": "com.palantir.conjure"}, None),
    (False, {"crate_name": "prod-api", "crate_version": "1.2.3", "version": "1.2.3"}, None),
    (False, {"strip_prefix": "com"}, None),
]


def sequence_group(gid, ir_doc):
    """histories: the SEQ_STEPS generations in ONE process and on one thread (vh gen-seq), the second one on the Config
    object of the first; every tree must equal the tree a fresh process writes for the configuration in effect."""
    sandbox = os.path.join(BASE, gid)
    shutil.rmtree(sandbox, ignore_errors=True)
    os.makedirs(sandbox)
    ir_path = os.path.join(sandbox, "ir.json")
    with open(ir_path, "w") as f:
        json.dump(ir_doc, f)
    res = {"id": gid, "violations": [], "drift": [], "runs": 0, "files": 0}
    steps = [{"ir": ir_path, "out": os.path.join(sandbox, "seq%d" % k), "config": setters, "same_config": same}
             for k, (same, setters, _) in enumerate(SEQ_STEPS)]
    with open(os.path.join(sandbox, "steps.json"), "w") as f:
        json.dump(steps, f)
    p = subprocess.run([VH, "gen-seq", os.path.join(sandbox, "steps.json")], stdout=subprocess.PIPE, stderr=subprocess.PIPE, text=True, timeout=900)
    if p.returncode != 0:
        raise vc.ToolError("vh gen-seq failed: %s" % p.stderr[-300:])
    answers = [json.loads(l) for l in p.stdout.splitlines() if l.startswith("{")]
    for k, (same, setters, effective) in enumerate(SEQ_STEPS):
        cfg = effective if effective is not None else setters
        ref_dir = os.path.join(sandbox, "ref%d" % k)
        q = subprocess.run([VH, "gen-tree", ir_path, ref_dir, json.dumps(cfg)], stdout=subprocess.PIPE, stderr=subprocess.PIPE, text=True, timeout=900)
        res["runs"] += 2
        ok_seq = k < len(answers) and answers[k]["ok"]
        if (q.returncode == 0) != ok_seq:
            res["violations"].append(("C20:history:outcome", "step %d (%s): generation %s in a fresh process but %s after %d earlier generation(s) in the same process" % (
                k, json.dumps(cfg), "succeeds" if q.returncode == 0 else "fails", "succeeds" if ok_seq else "fails", k), {"step": k, "steps": steps}))
            continue
        if q.returncode != 0:
            continue
        a, b = snapshot(ref_dir), snapshot(steps[k]["out"])
        res["files"] += len(a)
        if a != b:
            diff = sorted(x for x in set(a) | set(b) if a.get(x) != b.get(x))
            res["violations"].append(("C20:differs:history:%s" % ("same-config" if same else "fresh-config"),
                                      "step %d (%s): the tree written after %d earlier generation(s) in the same process differs from a fresh process's in %d path(s), first %s" % (
                                          k, json.dumps(cfg), k, len(diff), diff[0]), {"files": diff[:10], "step": k, "steps": steps}))
    if not res["violations"]:
        shutil.rmtree(sandbox, ignore_errors=True)
    return res


def family_docs():
    docs = {"names": c03gen.names_ir(), "recursion": c03gen.recursion_ir(), "services": c03gen.services_ir()}
    for name, path in (("zoo", os.path.join(vc.HARNESS, "vgen", "ir", "zoo.json")), ("repo-test-ir", "/repo/conjure-test/test-ir.json"),
                       ("repo-errors", "/repo/conjure-error/error-types.conjure.json"), ("repo-example", "/repo/conjure-codegen/example-types-ir.json"),
                       ("repo-conjure-api", "/repo/conjure-codegen/conjure-api-4.32.0.conjure.json")):
        if os.path.exists(path):
            docs[name] = json.load(open(path))
    ext = c03gen.services_ir()
    ext["extensions"] = {"recommended-product-dependencies": [
        {"product-group": "com.palantir.%s" % g, "product-name": n, "minimum-version": "1.%d.0" % i, "maximum-version": "1.x.x",
         "recommended-version": "1.%d.1" % i, "optional": i % 2 == 0}
        for i, (g, n) in enumerate([("z", "zeta"), ("a", "alpha"), ("m", "mid"), ("a", "beta"), ("q", "zeta"), ("b", "alpha"), ("k", "kappa")])],
        "zzz": {"b": 1, "a": [2, {"d": 1, "c": 2}]}}
    docs["extensions"] = ext
    return docs


FAMILY_CONFIGS = [
    {},
    {"exhaustive": True, "serialize_empty_collections": True, "strip_prefix": "com.palantir"},
    {"crate_name": "prod-api", "crate_version": "1.2.3", "version": "1.2.3"},
    {"exhaustive": True, "crate_name": "prod-api", "crate_version": "0.9.0", "version": "1.2.3", "strip_prefix": "com.palantir.conjure"},
]


def run(tier, seed):
    out = vc.Outcome(PID, tier, seed, "model_checking")
    build_cli()
    workers = 8 if tier == "quick" else 16
    cfgs = ["MCGenerate_cli.cfg", "MCGenerate_det.cfg"] + (["MCGenerate_t.cfg"] if tier == "thorough" else [])
    cases, states, transitions, cov, runs = [], 0, 0, {}, []
    for cfg in cfgs:
        r = vc.tlc(PID, "MCGenerate", cfg, workers=workers, timeout_s=6000, extra_env={"EMITRES": str(seed)})
        if r.error:
            raise vc.ToolError("%s: %s" % (cfg, r.error))
        vc.require_actions(r, ["AddItem", "Run"])
        runs.append({"cfg": cfg, "generated": r.generated, "distinct": r.distinct, "violated": r.violated, "cases": len(r.cases)})
        if r.violated:
            out.notes.append("TLC: %s violated in %s" % (r.violated, cfg))
            out.model_drift("model:%s" % r.violated, "TLC reports %s in %s: the transcription of main.rs / lib.rs no longer satisfies the property layer" % (r.violated, cfg))
        states += r.distinct
        transitions += r.generated
        for k, v in r.coverage.items():
            cov[k] = max(cov.get(k, 0), v[1])
        cases.extend(r.cases)
    for st in ("hashdeps", "itertypes"):
        ro = vc.tlc(PID, "MCGenerate", "MCGenerate_%s.cfg" % st, workers=2, timeout_s=300, coverage=False, keep_cases=False)
        if "DeterministicInv" not in (ro.violated or []):
            raise vc.ToolError("spec self-test failed: MCGenerate_%s must violate DeterministicInv (got %r, %r)" % (st, ro.violated, ro.error))
    vc.log("[tlc] %d states, %d cases" % (states, len(cases)))

    rng = vc.Rng(seed)
    limit = 400 if tier == "quick" else 3000
    if len(cases) > limit:
        crate_cases = [c for c in cases if c["lib"]["crate_name"] != "none" and len(c["deps"]) >= 2]
        rest = [c for c in cases if c not in crate_cases]
        keep = rng.sample(crate_cases, min(len(crate_cases), limit // 2))
        cases = keep + rng.sample(rest, min(len(rest), limit - len(keep)))
    jobs = []
    for k, c in enumerate(cases):
        doc = case_ir(c, k)
        n = 3 if (c["lib"]["crate_name"] != "none" and len(c["deps"]) >= 2) else 2
        rr = []
        for j in range(n):
            rr.append(("cli", cli_args(c["flags"])))
            rr.append(("lib", lib_cfg(c["lib"])))
        jobs.append(("m%d" % k, doc, rr, c, k % 40 == 0))
    fam = family_docs()
    nfam = 0
    for name, doc in fam.items():
        for j, cfg in enumerate(FAMILY_CONFIGS):
            reps = (2 if tier == "quick" else 4) + (1 if cfg.get("crate_name") else 0)
            rr = []
            for i in range(reps):
                rr.append(("cli", flags_of_cfg(cfg)))
                rr.append(("lib", cfg))
            jobs.append(("%s-%d" % (name, j), doc, rr, None, j == 2))
            nfam += 1
    shutil.rmtree(BASE, ignore_errors=True)
    os.makedirs(BASE)
    results = []
    seq_jobs = [("seq-%s" % name, doc) for name, doc in fam.items()]
    with concurrent.futures.ThreadPoolExecutor(max_workers=14) as ex:
        futs = [ex.submit(generate_group, *j) for j in jobs] + [ex.submit(sequence_group, *j) for j in seq_jobs]
        for f in futs:
            results.append(f.result())
    for gid, doc in seq_jobs:
        jobs.append((gid, doc, [("seq", st[1]) for st in SEQ_STEPS], None, False))
    nruns = sum(r["runs"] for r in results)
    nfiles = sum(r["files"] for r in results)
    by_id = {j[0]: j for j in jobs}
    for r in results:
        job = by_id[r["id"]]
        for sig, what, detail in r["violations"]:
            if sig.startswith("C20:error:"):
                # the generator refusing an input is C03's business; for C20 only a disagreement between runs matters
                if len({v[0] for v in r["violations"] if v[0].startswith("C20:error:")}) == 1 and sum(1 for v in r["violations"] if v[0].startswith("C20:error:")) == r["runs"]:
                    continue
            ir_file = os.path.join(BASE, r["id"], "ir.json")
            out.violation(sig, "%s: %s" % (r["id"], what), {"group": r["id"], "detail": detail, "ir_file": ir_file, "ir": job[1] if len(json.dumps(job[1])) < 20000 else None,
                                                         "runs": job[2], "flags": job[3]["flags"] if job[3] else None})
        for d in r["drift"]:
            out.model_drift("tree:" + d.split(":")[0], "%s: %s" % (r["id"], d))
    out.coverage = {
        "states": states, "transitions": transitions, "traces_validated_against_impl": len(results),
        "evaluations": nruns, "distinct_nontrivial": len(results),
        "samples": [{"id": j[0], "runs": [[k, c if isinstance(c, list) else json.dumps(c)] for k, c in j[2][:2]]} for j in jobs[:2] + jobs[-2:]],
        "rule": "%d generator processes in %d groups (one group = one IR + configuration, >= 4 processes alternating the conjure-rust binary and the "
                "library, 6 for crates with >= 2 dependencies); %d groups come from TLC cases (definition x flag forms), %d from %d IR documents "
                "(3 designed families, the 115-shape zoo, the repository's 4 IR files, an IR with extensions) x 4 configurations; %d files compared per "
                "reference tree in total; 1 in 40 TLC groups and every crate-mode family group run under strace; per IR document one history of "
                "%d generations in ONE process (the second on the first one's Config object), each tree compared with a fresh process's" % (
                    nruns, len(results), len(cases), nfam, len(fam), nfiles, len(SEQ_STEPS)),
        "model_runs": runs, "coverage_by_action": cov, "exhaustive": False,
    }
    out.assumptions = ["TLC 1.8.0", "separate processes draw independent hash seeds (std RandomState)", "strace sees every file-creating system call of the traced process tree",
                       "definitions whose tree has the recorded module clash (C03) are excluded"]
    return out.finish()


def replay(path, seed):
    rep = json.load(open(path))["case"]
    build_cli()
    if rep.get("ir") is None:
        doc = json.load(open(rep["ir_file"]))
    else:
        doc = rep["ir"]
    runs = [(k, c) for k, c in rep["runs"]] * 3
    r = generate_group("replay", doc, runs, None, True)
    for sig, what, detail in r["violations"]:
        print("VIOLATION property=C20 replay=%s\n  %s %s" % (path, sig, what))
    return 1 if r["violations"] else 0
