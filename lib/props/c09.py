"""C09 - Data of arguments not declared safe never reaches any safe-to-log channel (spec/Endpoint.tla).

TLC checks NoLeak (a safe cause is never built from input; the safe-parameter set only holds safe, decoded, non-auth
arguments) and SafeRecorded (safe arguments appear under their declared names once decoded, also when a later argument
fails) for every outcome vector with <=2 faults of 8 endpoint signatures.  Every vector is realised through the loopback
with every argument value (valid or corrupted) carrying a unique marker; the markers of non-safe arguments and of the
auth token are searched for in the response SafeParams, in the returned error's safe parameters and - iff the cause is
flagged safe - in the Display/Debug/source chain of the cause.  BearerToken's Debug rendering is checked as well.
"""
import json

import props.endpoints as ep
import vcommon as vc

PID = "C09"


def run(tier, seed):
    out = vc.Outcome(PID, tier, seed, "model_checking")
    cases, states, transitions, runs, cov = ep.run_model(PID, tier)
    vc.log("[tlc] %d states, %d cases" % (states, len(cases)))
    docs, meta = [], {}
    reps = 1 if tier == "quick" else 4
    k = 0
    for c in cases:
        for _ in range(reps):
            client, server = ep.flavours(c["endpoint"], k + 1)
            doc, args, injected = ep.build_case("c%d" % k, c, seed * 173 + k, client, server)
            docs.append(json.dumps(doc))
            meta["c%d" % k] = (c, doc, args, injected)
            k += 1
    replayed = 0
    nontrivial = set()
    samples = []
    for obs in vc.ndjson(vc.harness_parallel("vgen", ["rpc"], docs, nproc=6)):
        c, doc, args, injected = meta[obs["id"]]
        replayed += 1
        rep = {"endpoint": c["endpoint"], "out": c["out"], "doc": doc}
        if "panic" in obs:
            out.violation("C09:panic:%s" % c["endpoint"], "panic: %s" % str(obs["panic"])[:100], rep)
            continue
        if "skip" in obs:
            raise vc.ToolError("rpc harness: %s" % obs["skip"])
        judge(c, args, injected, obs, out, rep)
        nontrivial.add((c["endpoint"], tuple(c["out"]), doc["client"], doc["server"]))
        if len(samples) < 3 and c["first"] > 3 and obs["exchanges"]:
            samples.append({"endpoint": c["endpoint"], "outcomes": c["out"], "server_safe_params": obs["exchanges"][0]["server_safe_params"],
                            "error_safe_params": (obs["client"].get("err") or {}).get("safe_params")})
    # a bearer token's debug rendering never contains the token
    toks = ["abc.def-123", "REDACTED", "tok.MKdebug==", "A", "BearerToken", "x" * 300]
    for o in vc.ndjson(vc.harness("vgen", ["token-debug"], stdin="\n".join(json.dumps({"id": i, "token": t}) for i, t in enumerate(toks)) + "\n")):
        t = toks[o["id"]]
        replayed += 1
        if o.get("invalid"):
            raise vc.ToolError("token %r rejected" % t)
        # a token that happens to be a substring of the constant rendering cannot be told apart from it
        constant = 'BearerToken("REDACTED")'
        if t in o["debug"] and t not in constant or t in o["debug_alt"] and t not in constant + "(\n    \"REDACTED\",\n)":
            out.violation("C09:token-debug", "Debug rendering of the bearer token contains it: %s" % o["debug"][:80], {"token": t})
    out.coverage = {
        "states": states, "transitions": transitions, "traces_validated_against_impl": replayed,
        "samples": samples, "evaluations": replayed, "distinct_nontrivial": len(nontrivial),
        "rule": "every outcome vector (<=2 faults) of 8 endpoint signatures through the loopback with marker-carrying values; "
                "3 safe channels searched per call (response SafeParams, error safe params, safe cause chain). Distinct by "
                "(endpoint, vector, client, server); every call is non-trivial (it carries markers of non-safe arguments).",
        "model_runs": runs, "coverage_by_action": cov, "exhaustive": True,
    }
    out.assumptions = ["TLC 1.8.0", "markers are unique strings/numbers embedded in every argument value by construction",
                       "loopback routing of harness/vgen"]
    return out.finish()


def judge(c, args, injected, obs, out, rep):
    channels = ep.safe_channels(obs)
    decoded_upto = c["first"] - 1 if c["first"] else len(c["args"])
    for i, a in enumerate(c["args"]):
        is_safe = a["safe"] and a["kind"] != "auth"
        markers = []
        m = ep.marker_of(c["endpoint"], a["name"], args)
        if m:
            markers.append(m)
        if a["name"] in injected:
            markers.append(injected[a["name"]])
        if not is_safe:
            for mk in markers:
                for chan, text in channels:
                    if mk in text:
                        out.violation("C09:leak:%s:%s:%s" % (a["kind"], c["out"][i], chan.replace(" ", "-")),
                                      "marker %s of non-safe argument %s appears in the %s: %s" % (mk, a["name"], chan, text[:120]), rep)
        else:
            # SafeRecorded: decoded safe arguments are in the response's safe-parameter set under their declared name
            if i < decoded_upto and obs["exchanges"]:
                sp = obs["exchanges"][0].get("server_safe_params", {})
                if a["name"] not in sp:
                    out.violation("C09:safe-not-recorded:%s" % a["kind"], "safe argument %s was decoded but is not in SafeParams %s" % (
                        a["name"], list(sp)), rep)
            # a corrupted safe argument's raw text is not safe data either: it failed to decode as the declared type
    # nothing but declared-safe argument names may be keys of the safe parameter set
    if obs["exchanges"]:
        allowed = {a["name"] for a in c["args"] if a["safe"] and a["kind"] != "auth"}
        extra = set(obs["exchanges"][0].get("server_safe_params", {})) - allowed
        if extra:
            out.violation("C09:unexpected-safe-param", "SafeParams holds %s, declared safe arguments are %s" % (sorted(extra), sorted(allowed)), rep)
    m = c["safe"]
    if obs["exchanges"] and set(obs["exchanges"][0].get("server_safe_params", {})) != set(m):
        if not out.violations:
            out.model_drift("Endpoint", "%s %s: SafeParams %s, model %s" % (c["endpoint"], c["out"], sorted(obs["exchanges"][0].get("server_safe_params", {})), m))


def replay(path, seed):
    rep = json.load(open(path))["case"]
    obs = vc.ndjson(vc.harness("vgen", ["rpc"], stdin=json.dumps(rep["doc"]) + "\n"))[0]
    for chan, text in ep.safe_channels(obs):
        print(chan, text[:300])
    print("replay: inspect the safe channels above for markers of non-safe arguments")
    return 0
