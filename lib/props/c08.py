"""C08 - An argument is generated safe-to-log exactly when all it can hold is safe.

(1) TLC: Mech => Prop (Sound, Complete, MemoSound, MemoClean) over all bounded type tables (spec/MCLogSafety.tla).
(2) S->I: every emitted (table, args) case becomes IR documents (base layout + reordered layouts); the real
    generator runs; the `safe` flags of the generated server traits are compared with the order-free reference
    (Prop => VIOLATION) and, for the base layout, with the model's prediction (Mech => MODEL-DRIFT).
(3) I->S: seeded random large tables; the hook in context.rs logs the recursion; TraceLogSafety.tla validates.
"""
import json
import os

import irgen as ir
import vcommon as vc

PID = "C08"
PRIMS = ["STRING", "INTEGER", "ANY", "DOUBLE", "SAFELONG", "BOOLEAN", "RID", "UUID", "DATETIME", "BINARY"]


# ---------------------------------------------------------------------------------------------
# abstract -> IR


# an external reference says nothing about log safety, whatever its fallback type is: these fallbacks are all safe
EXT_TYPES = [ir.enum_("ExtSafeEnum", ["A", "B"]), ir.alias_("ExtSafeAlias", ir.prim("STRING"), "safe"),
             ir.object_("ExtSafeObj", [ir.field("a", ir.prim("STRING"), "safe")])]


def atom_type(a, rng, in_key=False):
    if a == 0:
        k = rng.below(8)
        if in_key:
            return ir.prim(rng.choice(["STRING", "INTEGER", "RID", "UUID", "SAFELONG"]))
        if k == 0:
            return ir.external(ir.prim("STRING"))
        if k == 1:
            return ir.external(ir.ref(rng.choice(["ExtSafeEnum", "ExtSafeAlias", "ExtSafeObj"])), name="ExtOf%d" % rng.below(3))
        return ir.prim(rng.choice(PRIMS))
    if a == -1:
        return ir.prim("BEARERTOKEN")
    return ir.ref("T%d" % a)


def wrap(t, rng, allow=True):
    if not allow:
        return t
    k = rng.below(5)
    if k == 0:
        return ir.optional(t)
    if k == 1:
        return ir.list_(t)
    if k == 2:
        return ir.set_(t)
    if k == 3:
        return ir.list_(ir.optional(t))
    return t


def expr_type(e, rng, wrap_ok=True):
    if len(e) == 1:
        return wrap(atom_type(e[0], rng), rng, wrap_ok)
    m = ir.map_(atom_type(e[0], rng, in_key=True), wrap(atom_type(e[1], rng), rng))
    return ir.optional(m) if (wrap_ok and rng.chance(1, 4)) else m


def field_type(e, rng, kind):
    """Object fields never hold a bare reference (the Conjure compiler rejects recursion through required fields);
    union members and alias targets may (cf. RecursiveUnion in the repository's test IR)."""
    if kind == "object" and len(e) == 1 and e[0] > 0:
        t = atom_type(e[0], rng)
        return rng.choice([ir.optional, ir.list_, ir.set_, lambda x: ir.list_(ir.optional(x)),
                           lambda x: ir.map_(ir.prim("STRING"), x) if False else ir.optional(x)])(t)
    return expr_type(e, rng)


def alias_acyclic(tab):
    n = len(tab)
    for t in range(1, n + 1):
        if tab[t - 1]["kind"] != "alias":
            continue
        seen, stack = set(), [a for a in tab[t - 1]["fields"][0]["ty"] if a > 0]
        while stack:
            x = stack.pop()
            if x == t:
                return False
            if x in seen:
                continue
            seen.add(x)
            if tab[x - 1]["kind"] == "alias":
                stack.extend(a for a in tab[x - 1]["fields"][0]["ty"] if a > 0)
    return True


def type_def(t, d, rng, bare=False):
    name = "T%d" % t
    kind = d["kind"]
    if kind == "enum":
        return ir.enum_(name, ["A", "B"])
    fields = [ir.field("f%d" % (j + 1), field_type(f["ty"], rng, kind),
                       None if f["decl"] == "undeclared" else f["decl"])
              for j, f in enumerate(d["fields"])]
    if kind == "alias":
        f = d["fields"][0]
        # base layout: the alias names its target directly (alias chains), other layouts wrap it in optional / list / set
        return ir.alias_(name, expr_type(f["ty"], rng, wrap_ok=not bare),
                         None if f["decl"] == "undeclared" else f["decl"])
    if kind == "object":
        return ir.object_(name, fields)
    return ir.union_(name, fields)


def arg_def(j, a, rng):
    name = "a%d" % j
    e = a["ty"]
    markers, tags = [], []
    if a["legacy"]:
        if rng.chance(1, 2):
            markers = [ir.SAFE_MARKER]
        else:
            tags = ["safe"]
    safety = None if a["decl"] == "undeclared" else a["decl"]
    if len(e) == 1 and e[0] == 0 and rng.chance(1, 5):
        kind = "body"
        ty = atom_type(0, rng)          # sometimes an external reference with a safe fallback
    elif len(e) == 1 and e[0] <= 0:
        kind = rng.choice(["query", "header", "body", "path"])
        ty = atom_type(e[0], rng) if e[0] == -1 else ir.prim(rng.choice(["STRING", "INTEGER", "RID", "BOOLEAN"]))
        if kind == "query" and rng.chance(1, 3):
            ty = rng.choice([ir.optional, ir.list_, ir.set_])(ty)
        elif kind in ("header", "body") and rng.chance(1, 3):
            ty = ir.optional(ty)
    else:
        kind = "body"
        ty = expr_type(e, rng)
    return ir.arg(name, ty, kind, param_id=("X-%s" % name if kind == "header" else name), safety=safety,
                  markers=markers, tags=tags)


def ep_path(base, args):
    return base + "".join("/{%s}" % a["argName"] for a in args if a["paramType"]["type"] == "path")


def renamed(a, name):
    """the argument definition under another name (argument names are scoped to their endpoint)"""
    b = json.loads(json.dumps(a))
    b["argName"] = name
    pt = b["paramType"]
    if pt["type"] in ("query", "header"):
        pt[pt["type"]]["paramId"] = "X-%s" % name if pt["type"] == "header" else name
    return b


def case_to_ir(case, rng, layout, argmap=None):
    """layout 0: types in index order, one service, one endpoint per argument in order (evaluation order = model).
    layout k>0: types shuffled, arguments shuffled over several services/endpoints; when `argmap` is given the arguments
    are named by their position in their endpoint, so different endpoints of one service share argument names
    (argmap[j] = (service, endpoint, name))."""
    tab, args = case["tab"], case["args"]
    types = [type_def(t + 1, d, rng, bare=(layout == 0)) for t, d in enumerate(tab)]
    adefs = [arg_def(j + 1, a, rng) for j, a in enumerate(args)]
    if layout == 0:
        eps = [ir.endpoint("e%d" % (j + 1), "POST", ep_path("/e%d" % (j + 1), [a]), [a]) for j, a in enumerate(adefs)]
        services = [ir.service("S1", eps)]
    else:
        types = rng.shuffle(types)
        order = rng.shuffle(list(range(len(adefs))))
        nserv = 1 + rng.below(2)
        buckets = [[] for _ in range(nserv)]
        for j in order:
            buckets[rng.below(nserv)].append(j)
        services = []
        for si, b in enumerate(buckets):
            eps = []
            cur = []
            for j in b:
                a = adefs[j]
                has_body = any(x["paramType"]["type"] == "body" for x in cur)
                if cur and (rng.chance(1, 2) or (a["paramType"]["type"] == "body" and has_body)):
                    eps.append(cur)
                    cur = []
                if argmap is not None:
                    a = renamed(a, "x%d" % (len(cur) + 1))
                    argmap[j] = ("S%d" % (si + 1), "e%d" % (len(eps) + 1), a["argName"])
                cur.append(a)
            if cur:
                eps.append(cur)
            services.append(ir.service("S%d" % (si + 1),
                                       [ir.endpoint("e%d" % (k + 1), "POST", ep_path("/s%d/e%d" % (si + 1, k + 1), e), e)
                                        for k, e in enumerate(eps)]))
        services = [s for s in services if s["endpoints"]]
    return ir.definition(types=types + EXT_TYPES, services=services)


# ---------------------------------------------------------------------------------------------
# random abstract tables for the I->S driver (python mirror of the alphabet in MCLogSafety, larger bounds)


def random_case(rng, max_types, max_args):
    n = 1 + rng.below(max_types)
    refs = list(range(1, n + 1))
    # decide kinds first so that map keys can be restricted to enums / aliases of primitives
    kinds = [rng.choice(["enum", "alias", "object", "object", "object", "union"]) for _ in refs]
    tab = [None] * n

    def atom():
        k = rng.below(10)
        if k == 0:
            return -1
        if k <= 2:
            return 0
        return rng.choice(refs)

    def expr():
        if rng.chance(1, 6):
            keys = [0] + [t for t in refs if kinds[t - 1] == "enum"]
            return [rng.choice(keys), rng.choice(refs)]
        return [atom()]

    def fld():
        if rng.chance(1, 4):
            return {"decl": rng.choice(["safe", "safe", "unsafe", "dnl"]), "ty": [0]}
        return {"decl": "undeclared", "ty": expr()}

    for t in refs:
        k = kinds[t - 1]
        if k == "enum":
            tab[t - 1] = {"kind": "enum", "fields": []}
        elif k == "alias":
            tab[t - 1] = {"kind": "alias", "fields": [fld()]}
        else:
            tab[t - 1] = {"kind": k, "fields": [fld() for _ in range(rng.below(4))]}
    if not alias_acyclic(tab):
        return random_case(rng, max_types, max_args)
    args = []
    for _ in range(1 + rng.below(max_args)):
        r = rng.below(10)
        if r == 0:
            args.append({"decl": rng.choice(["safe", "unsafe", "dnl"]), "legacy": rng.chance(1, 2), "ty": [atom()]})
        elif r == 1:
            args.append({"decl": "undeclared", "legacy": True, "ty": [atom()]})
        else:
            args.append({"decl": "undeclared", "legacy": False, "ty": [rng.choice(refs)]})
    return {"tab": tab, "args": args}


# reference semantics in python, only used to count non-trivial cases for the evidence file
def deep_cases():
    """designed tables beyond anything TLC enumerates: chains of 70 / 130 types (objects, aliases) whose only leaf is declared
    safe or unsafe - an evaluator with a depth limit, a counter or a stack shortcut answers them differently"""
    out = []
    for depth, kind, last in ((70, "object", "safe"), (70, "object", "unsafe"), (130, "object", "safe"), (70, "alias", "safe"), (90, "alias", "unsafe")):
        tab = [{"kind": kind, "fields": [{"decl": "undeclared", "ty": [t + 2]}]} for t in range(depth - 1)]
        tab.append({"kind": "object", "fields": [{"decl": last, "ty": [0]}]})
        args = [{"decl": "undeclared", "legacy": False, "ty": [1]}, {"decl": "undeclared", "legacy": False, "ty": [depth // 2]},
                {"decl": "undeclared", "legacy": False, "ty": [depth]}]
        safe = py_safe_types(tab)
        ref = [all(x in safe for x in a["ty"]) for a in args]
        out.append({"tab": tab, "args": args, "ref": ref, "mech": ref * 2, "old": True})
    return out


def py_safe_types(tab):
    s = set(range(1, len(tab) + 1))
    while True:
        def fs(f):
            return f["decl"] == "safe" or (f["decl"] == "undeclared" and all(a in s for a in f["ty"]))
        s2 = {t for t in s if tab[t - 1]["kind"] == "enum" or
              (tab[t - 1]["kind"] in ("alias", "object") and all(fs(f) for f in tab[t - 1]["fields"]))}
        if s2 == s:
            return s
        s = s2


def has_cycle(tab):
    n = len(tab)
    adj = {t: {a for f in tab[t - 1]["fields"] if f["decl"] == "undeclared" for a in f["ty"] if a > 0}
           for t in range(1, n + 1)}
    for t in adj:
        seen, stack = set(), list(adj[t])
        while stack:
            x = stack.pop()
            if x == t:
                return True
            if x not in seen:
                seen.add(x)
                stack.extend(adj[x])
    return False


# ---------------------------------------------------------------------------------------------


def observed_flags(obs, argmap=None):
    """arg name -> {"sync": bool, "async": bool} from the harness' report of the generated traits; with an argmap
    (shared argument names) the arguments are found by (service, endpoint, name) and reported under a<j>."""
    out = {}
    where = {v: "a%d" % (j + 1) for j, v in (argmap or {}).items()}
    for a in obs["args"]:
        name = a["log_as"].strip('"') if a.get("log_as") else a["ident"]
        style = "async" if a["trait"].startswith("Async") else "sync"
        if argmap:
            svc = a["trait"][5:] if style == "async" else a["trait"]
            name = where.get((svc, a["method"], name), "?%s.%s.%s" % (svc, a["method"], name))
        out.setdefault(name, {})[style] = a["safe"]
    return out


def parse_event(s):
    p = s.split()
    if p[0] == "enter":
        return {"k": "enter", "t": int(p[1][1:]), "v": "safe", "m": False}
    if p[0] == "cycle":
        return {"k": "cycle", "t": int(p[1][1:]), "v": "safe", "m": False}
    if p[0] == "hit":
        return {"k": "hit", "t": int(p[1][1:]), "v": p[2], "m": True}
    if p[0] == "final":
        return {"k": "final", "t": int(p[1][1:]), "v": p[2], "m": p[3] == "true"}
    raise vc.ToolError("unknown hook event %r" % s)


def run(tier, seed, only_cases=None):
    out = vc.Outcome(PID, tier, seed, "model_checking")
    rng = vc.Rng(seed)
    od = vc.outdir(PID)
    workers = 4 if tier == "quick" else 16

    # ---- (1) model checking -------------------------------------------------------------------
    # n3oe: three types, objects and enums (a superset of the object-only n3obj tables: an enum is the one kind that is
    # safe without being evaluated further, which matters for what is cached when)
    cfgs = [("MCLogSafety_q.cfg", 300), ("MCLogSafety_n3oe.cfg", 600), ("MCLogSafety_mapsq.cfg", 300)] if tier == "quick" else \
        [("MCLogSafety_q.cfg", 300), ("MCLogSafety_n3oe.cfg", 600), ("MCLogSafety_free.cfg", 900),
         ("MCLogSafety_maps.cfg", 1800), ("MCLogSafety_n3.cfg", 3000)]
    if tier == "quick":
        cfgs.append(("MCLogSafety_freeq.cfg", 300))
    states = transitions = 0
    cases = []
    cov = {}
    mc_runs = []
    for cfg, to in cfgs:
        env = {}
        r = vc.tlc(PID, "MCLogSafety", cfg, workers=workers, timeout_s=to, extra_env={"EMITRES": str(seed)})
        if r.error:
            raise vc.ToolError("%s: %s" % (cfg, r.error))
        mc_runs.append({"cfg": cfg, "generated": r.generated, "distinct": r.distinct, "depth": r.depth,
                        "violated": r.violated, "wall_s": round(r.wall_s, 1), "cases": len(r.cases)})
        states += r.distinct
        transitions += r.generated
        for k, v in r.coverage.items():
            cov[k] = max(cov.get(k, 0), v[1])
        vc.require_actions(r, ["Define", "Eval", "Finish"])
        if r.violated:
            # the model of the current mechanism violates the property: the counterexamples are among the
            # emitted cases (mech != ref) and are confirmed or refuted on the real code below
            out.notes.append("TLC: %s violated in %s" % (",".join(r.violated), cfg))
        cases.extend(r.cases)
    # self-test of the model check: the mechanism of the pinned tree (provisional Safe memo) must be caught
    r_old = vc.tlc(PID, "MCLogSafety", "MCLogSafety_q_old.cfg", workers=workers, timeout_s=300, coverage=False,
                   keep_cases=False)
    if not r_old.violated:
        raise vc.ToolError("spec self-test failed: the unrepaired mechanism passes the invariants")
    # every N=3 table (objects, enums) on which the unrepaired mechanism and the reference disagree: the order-sensitive tables,
    # where a caching slip of any kind is most likely to show - all of them are replayed
    r_sens = vc.tlc(PID, "MCLogSafety", "MCLogSafety_n3oe_old.cfg", workers=workers, timeout_s=600, coverage=False)
    if r_sens.error:
        raise vc.ToolError("MCLogSafety_n3oe_old.cfg: %s" % r_sens.error)
    sensitive = r_sens.cases
    for c in sensitive:
        c["old"] = True         # `mech` is the unrepaired mechanism's prediction here: not a prediction for this tree
    mc_runs.append({"cfg": "MCLogSafety_n3oe_old.cfg", "generated": r_sens.generated, "distinct": r_sens.distinct, "cases": len(sensitive)})
    vc.log("[tlc] %d states, %d cases, %d order-sensitive tables, old-mechanism self-test violated %s" % (states, len(cases), len(sensitive), r_old.violated))

    # ---- (2) S->I replay ------------------------------------------------------------------------
    budget = 9000 if tier == "quick" else 40000
    interesting = [c for c in cases if c["mech"] != c["ref"] * 2]
    rest = [c for c in cases if c["mech"] == c["ref"] * 2]
    cyc = [c for c in rest if has_cycle(c["tab"])]
    plain = [c for c in rest if not has_cycle(c["tab"])]
    chosen = deep_cases() + sensitive + interesting[:2000] + rng.sample(cyc, min(len(cyc), budget * 3 // 4))
    chosen += rng.sample(plain, min(len(plain), max(0, budget - len(chosen))))
    docs = []
    meta = {}
    nlayouts = 2 if tier == "quick" else 3
    for ci, c in enumerate(chosen):
        for layout in range(nlayouts):
            cid = "%d.%d" % (ci, layout)
            am = {} if layout > 0 else None
            rs = seed * 1000003 + ci * 7 + layout
            docs.append(json.dumps({"id": cid, "ir": case_to_ir(c, vc.Rng(rs), layout, am)}))
            meta[cid] = (c, layout, am, rs)
    text = vc.harness_parallel("vh", ["codegen-safe"], docs)
    replayed = 0
    nontrivial = set()
    samples = []
    for obs in vc.ndjson(text):
        c, layout, am, rs = meta[obs["id"]]
        if not obs["ok"]:
            raise vc.ToolError("generator failed on a C08 case %s: %s" % (obs["id"], obs["error"]))
        flags = observed_flags(obs, am)
        n = len(c["args"])
        replayed += 1
        for j in range(n):
            f = flags.get("a%d" % (j + 1))
            if f is None or "sync" not in f or "async" not in f:
                raise vc.ToolError("argument a%d not found in generated traits (case %s)" % (j + 1, obs["id"]))
            for style, off in (("sync", 0), ("async", n)):
                got = f[style]
                if got != c["ref"][j]:
                    kind = "unsound" if got else "incomplete"
                    sig = "C08:%s:%s" % (kind, "cycle" if has_cycle(c["tab"]) else "acyclic")
                    out.violation(sig, "argument a%d (%s trait) generated %s but reference semantics says %s" % (
                        j + 1, style, "safe" if got else "not safe", "safe" if c["ref"][j] else "not safe"),
                        {"case": c, "layout": layout, "seed": rs, "observed": flags})
                elif layout == 0 and not c.get("old") and got != c["mech"][off + j]:
                    out.model_drift("LogSafety", "case %s a%d %s: model predicted %s" % (obs["id"], j + 1, style,
                                                                                       c["mech"][off + j]))
        if has_cycle(c["tab"]) or any(c["ref"]):
            nontrivial.add(json.dumps([c["tab"], c["args"]], sort_keys=True))
        if len(samples) < 3 and layout == 0 and has_cycle(c["tab"]):
            samples.append({"kind": "S->I case", "tab": c["tab"], "args": c["args"], "ref": c["ref"],
                            "mech": c["mech"], "observed": flags})

    # ---- (3) I->S trace validation ------------------------------------------------------------
    nruns = 600 if tier == "quick" else 6000
    if os.environ.get("VERIF_DEBUG_SKIP_TRACE"):
        nruns = 0
    tdocs, tmeta = [], {}
    for k in range(nruns):
        c = random_case(rng, 12, 30) if k % 3 == 0 else random_case(rng, 3 + rng.below(4), 8)
        tdocs.append(json.dumps({"id": "t%d" % k, "ir": case_to_ir(c, vc.Rng(seed * 7919 + k), 0)}))
        tmeta["t%d" % k] = c
    text = vc.harness_parallel("vh", ["codegen-safe"], tdocs)
    trace_path = os.path.join(od, "trace.ndjson")
    nlines = 0
    lines_meta = []
    with open(trace_path, "w") as f:
        for obs in vc.ndjson(text):
            c = tmeta[obs["id"]]
            if not obs["ok"]:
                raise vc.ToolError("generator failed on random C08 table: %s" % obs["error"])
            # split the hook log into one slice per is_safe_arg call
            # (the hook logs "arg <name>" on entry; the result is the flag in the generated trait)
            flags = observed_flags(obs)
            n = len(c["args"])
            calls = []
            for e in obs["events"]:
                if e.startswith("arg "):
                    name = e.split()[1]
                    style = "sync" if len(calls) < n else "async"
                    calls.append((name, flags[name][style], []))
                else:
                    calls[-1][2].append(parse_event(e))
            if len(calls) != 2 * n or any(name != "a%d" % (k % n + 1) for k, (name, _s, _e) in enumerate(calls)):
                # the generator no longer evaluates every argument once per trait, in order: the Mech layer is out of date;
                # the flags themselves were judged above (S->I) and are judged here against the reference semantics
                out.model_drift("TraceLogSafety", "run %s: hook log has %d is_safe_arg calls (%s...), the model expects %d in argument order" % (
                    obs["id"], len(calls), [c_[0] for c_ in calls[:4]], 2 * n))
                s_ref = py_safe_types(c["tab"])
                for j, a in enumerate(c["args"]):
                    exp = (a["decl"] == "safe") if a["decl"] != "undeclared" else (a["legacy"] or all(x in s_ref for x in a["ty"]))
                    for style in ("sync", "async"):
                        got = flags.get("a%d" % (j + 1), {}).get(style)
                        if got is not None and got != exp:
                            out.violation("C08:%s:trace" % ("unsound" if got else "incomplete"), "argument a%d (%s trait) generated %s, the reference semantics says %s" % (
                                j + 1, style, "safe" if got else "not safe", "safe" if exp else "not safe"), {"case": c, "layout": 0, "seed": seed * 7919 + int(obs["id"][1:])})
                accepted_skipped = True
                continue
            f.write(json.dumps({"ev": "table", "tab": c["tab"]}) + "\n")
            lines_meta.append(("table", obs["id"], None))
            nlines += 1
            for k, (name, safe, evs) in enumerate(calls):
                a = c["args"][k % n]
                if name != "a%d" % (k % n + 1):
                    raise vc.ToolError("hook log out of order: %s at position %d" % (name, k))
                f.write(json.dumps({"ev": "arg", "arg": a, "safe": safe, "events": evs}) + "\n")
                lines_meta.append(("arg", obs["id"], k))
                nlines += 1
            if has_cycle(c["tab"]):
                nontrivial.add(json.dumps([c["tab"], c["args"]], sort_keys=True))
    if nruns == 0:
        out.notes.append("DEBUG: trace validation skipped")
        return out.finish()
    accepted_runs = nruns
    if nlines == 0:
        # no run produced a hook log of the modelled shape (reported as MODEL-DRIFT above): nothing for TLC to validate
        out.notes.append("trace validation skipped: no recorded run matches the modelled call structure")
        tr = None
        accepted_runs = 0
    else:
        tr = vc.tlc(PID, "TraceLogSafety", "TraceLogSafety.cfg", workers=1, timeout_s=900, trace_file=trace_path,
                    deque=True, coverage=False, xmx="4g")
        if tr.error and not tr.prints:
            raise vc.ToolError("trace validation: %s" % tr.error)
    for kind, payload in (tr.prints if tr else []):
        if kind == "PROPFAIL":
            what, rid, k = lines_meta[payload["line"] - 1]
            c = tmeta[rid]
            out.violation("C08:%s:trace" % ("unsound" if payload["observed"] else "incomplete"),
                          "recorded is_safe_arg result for %s contradicts the reference semantics" % json.dumps(
                              payload["arg"]), {"case": c, "layout": 0, "seed": seed * 7919 + int(rid[1:]), "call": k})
            accepted_runs -= 1
        elif kind == "MECHFAIL":
            out.model_drift("TraceLogSafety", "line %d: recursion events differ from the model" % payload["line"])
        elif kind == "UNMATCHED":
            raise vc.ToolError("trace not consumed at line %s: %s" % (payload["line"], payload["rec"]))
    if tr and tr.distinct != nlines + 1 and not tr.prints:
        raise vc.ToolError("trace validation consumed %d of %d lines" % (tr.distinct - 1, nlines))
    if nlines >= 2:
        with open(trace_path) as f:
            first = [json.loads(next(f)) for _ in range(2)]
        samples.append({"kind": "I->S trace lines", "lines": first})

    out.coverage = {
        "states": states,
        "transitions": transitions,
        "traces_validated_against_impl": replayed + max(accepted_runs, 0),
        "samples": samples,
        "evaluations": replayed + nruns,
        "distinct_nontrivial": len(nontrivial),
        "rule": "S->I: TLC-emitted (table,args) cases x 3 IR layouts run through the real generator; I->S: seeded random "
                "tables (<=12 types, <=30 args) with hook log validated by TLC. Non-trivial = the table has a reference "
                "cycle or at least one argument is safe by the reference semantics; distinct by (table,args).",
        "model_runs": mc_runs,
        "coverage_by_action": cov,
        "replayed_cases": replayed,
        "trace_lines": nlines,
        "trace_runs": nruns,
        "exhaustive": tier != "quick",
        "bounds": "quick: N=2 types, <=2 object fields, <=1 union member, all orders (by renaming symmetry), "
                  "free arg alphabet at N=1; thorough adds N=3, map expressions at N=2, free args at N=2",
    }
    out.assumptions = ["TLC 1.8.0", "syn parses the generated trait; `safe` is read from the endpoint attribute",
                       "the abstract->IR concretisation (lib/props/c08.py) preserves the abstract table"]
    return out.finish()


def replay(path, seed):
    with open(path) as f:
        rep = json.load(f)
    c = rep["case"]["case"]
    layout = rep["case"].get("layout", 0)
    out = vc.Outcome(PID, "quick", seed, "model_checking")
    am = {} if layout > 0 else None
    doc = json.dumps({"id": "r", "ir": case_to_ir(c, vc.Rng(rep["case"].get("seed", seed)), layout, am)})
    obs = vc.ndjson(vc.harness("vh", ["codegen-safe"], stdin=doc + "\n"))[0]
    flags = observed_flags(obs, am)
    s = py_safe_types(c["tab"])
    bad = 0
    for j, a in enumerate(c["args"]):
        exp = (a["decl"] == "safe") if a["decl"] != "undeclared" else (a["legacy"] or all(x in s for x in a["ty"]))
        for style in ("sync", "async"):
            if flags["a%d" % (j + 1)][style] != exp:
                bad += 1
                print("a%d %s: generated safe=%s expected %s" % (j + 1, style, flags["a%d" % (j + 1)][style], exp))
    print("replay: %d mismatching flags" % bad)
    return 1 if bad else 0
