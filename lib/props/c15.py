"""C15 - No path ever produces a safelong outside the 53-bit safe range (spec/SafeLong.tla).

TLC checks InRange/Total for every (route, number-line position); every emitted (route, point) runs with the exact
value and every (route, interval) with seeded samples strictly inside it; random 128-bit values per route are recorded,
classified onto the number line by exact arithmetic, and validated by TraceSafeLong.tla.
"""
import json
import os

import vcommon as vc

PID = "C15"
V = {"i128min": -2**127, "m2p64m5": -2**64 - 5, "m2p64": -2**64, "i64min_m1": -2**63 - 1, "i64min": -2**63,
     "i64min_p1": -2**63 + 1, "min_m2": -2**53 - 1, "min_m1": -2**53, "min": -2**53 + 1, "min_p1": -2**53 + 2,
     "i32min_m1": -2**31 - 1, "i32min": -2**31, "m1": -1, "zero": 0, "one": 1, "fortytwo": 42, "i32max": 2**31 - 1,
     "i32max_p1": 2**31, "u32max": 2**32 - 1, "u32max_p1": 2**32, "max_m1": 2**53 - 2, "max": 2**53 - 1,
     "max_p1": 2**53, "max_p2": 2**53 + 1, "i64max_m1": 2**63 - 2, "i64max": 2**63 - 1, "i64max_p1": 2**63,
     "u64wrap": 2**64 - 2**53 + 1, "u64max": 2**64 - 1, "u64max_p1": 2**64, "p2p64p5": 2**64 + 5,
     "i128max": 2**127 - 1, "i128max_p1": 2**127, "u128max": 2**128 - 1}
POINTS = ["i128min", "m2p64m5", "m2p64", "i64min_m1", "i64min", "i64min_p1", "min_m2", "min_m1", "min", "min_p1",
          "i32min_m1", "i32min", "m1", "zero", "one", "fortytwo", "i32max", "i32max_p1", "u32max", "u32max_p1",
          "max_m1", "max", "max_p1", "max_p2", "i64max_m1", "i64max", "i64max_p1", "u64wrap", "u64max",
          "u64max_p1", "p2p64p5", "i128max", "i128max_p1", "u128max"]
assert [V[p] for p in POINTS] == sorted(V[p] for p in POINTS)
DOMS = {"i64": (-2**63, 2**63 - 1), "u64": (0, 2**64 - 1), "i128": (-2**127, 2**127 - 1), "u128": (0, 2**128 - 1),
        "i32": (-2**31, 2**31 - 1), "u32": (0, 2**32 - 1), "text": (-2**127 - 10**6, 2**128 + 10**6),
        "json": (-2**127, 2**128 - 1)}
ROUTES = {"new": "i64", "try_from_i64": "i64", "try_from_u64": "u64", "try_from_i128": "i128", "try_from_u128": "u128",
          "try_from_isize": "i64", "try_from_usize": "u64", "from_i32": "i32", "from_u32": "u32", "from_str": "text",
          "from_plain": "text", "json_client": "json", "json_server": "json", "json_key": "json", "smile": "i64",
          "smile_u64": "u64", "smile_key": "i64", "any_i64": "i64", "any_u64": "u64", "any_i128": "i128",
          "any_key": "i64", "object_field": "json",
          "json_any": "json", "json_any_key": "json", "json_any_nested": "json", "smile_any": "u64",
          "smile_i128": "i128", "smile_u128": "u128", "smile_any_u128": "u128", "smile_list_u128": "u128",
          "dec_param": "text", "dec_param_opt": "text", "dec_param_seq": "text", "dec_header": "text", "dec_header_opt": "text"}


def position(v):
    """exact classification of an integer onto the symbolic number line (odd = point, even = open interval)"""
    for i, p in enumerate(POINTS):
        if v == V[p]:
            return 2 * i + 1
        if v < V[p]:
            return 2 * i  # between point i-1 and i (1-based: interval number i)
    return 2 * len(POINTS)


def samples_in(lo, hi, n, rng):
    if hi - lo <= 1:
        return []
    out = {lo + 1, hi - 1}
    span = hi - lo - 1
    for _ in range(n):
        out.add(lo + 1 + (rng.next() * (2**64) + rng.next()) % span)
        # bias towards the ends
        k = rng.below(span.bit_length() + 1)
        out.add(lo + 1 + ((rng.next() % (2**k)) % span))
        out.add(hi - 1 - ((rng.next() % (2**k)) % span))
    return sorted(out)


NOT_TOTAL = {"any_i128", "smile_i128", "smile_u128", "smile_any_u128", "smile_list_u128"}  # acceptance not demanded (see spec/SafeLong.tla)


def judge(route, v, obs, out, extra):
    safe = V["min"] <= v <= V["max"]
    if "panic" in obs:
        out.violation("C15:%s:panic" % route, "route panicked on %d: %s" % (v, obs["panic"][:80]), extra)
        return "panic"
    if obs.get("ok") == "absent":
        # an optional decoder that answers "no value" for a value that is there: neither the value nor an error
        out.violation("C15:%s:%s" % (route, "swallowed-in-range" if safe else "out-of-range-not-reported"),
                      "input %d is treated as absent (no error, no value)" % v, extra)
        return "err"
    if "ok" in obs:
        got = int(obs["ok"])
        if not (V["min"] <= got <= V["max"]):
            out.violation("C15:%s:out-of-range" % route, "route produced safelong %d from input %d" % (got, v), extra)
        elif not safe:
            out.violation("C15:%s:accepted-out-of-range-input" % route,
                          "input %d is outside the safe range but was accepted as %d" % (v, got), extra)
        elif got != v:
            out.violation("C15:%s:value-changed" % route, "input %d became %d" % (v, got), extra)
        return "ok"
    if safe and route not in NOT_TOTAL:
        out.violation("C15:%s:rejected-in-range" % route, "in-range input %d rejected: %s" % (v, obs.get("err", "")[:80]),
                      extra)
    return "err"


def run(tier, seed):
    out = vc.Outcome(PID, tier, seed, "model_checking")
    rng = vc.Rng(seed)
    od = vc.outdir(PID)
    r = vc.tlc(PID, "MCSafeLong", "MCSafeLong.cfg", workers=4, timeout_s=300)
    if r.error:
        raise vc.ToolError(r.error)
    vc.require_actions(r, ["Pick"])
    if r.violated:
        out.notes.append("TLC: model of the current mechanism violates %s" % r.violated)
    nsamp = 60 if tier == "quick" else 3000
    docs, meta = [], {}
    for ci, c in enumerate(r.cases):
        if c["point"]:
            vals = [V[c["point"]]]
        else:
            lo, hi = V[c["lo"]], V[c["hi"]]
            dlo, dhi = DOMS[c["dom"]]
            vals = samples_in(max(lo, dlo - 1), min(hi, dhi + 1), nsamp, rng)
        for k, v in enumerate(vals):
            cid = "%d.%d" % (ci, k)
            docs.append(json.dumps({"id": cid, "route": c["route"], "value": str(v)}))
            meta[cid] = (c, v)
    text = vc.harness_parallel("vh", ["safelong"], docs, nproc=4)
    replayed = 0
    nontrivial = set()
    samples = []
    for obs in vc.ndjson(text):
        c, v = meta[obs["id"]]
        if "skip" in obs:
            raise vc.ToolError("value %d not in the input type of route %s although the model says it is" % (v, c["route"]))
        replayed += 1
        got = judge(c["route"], v, obs, out, {"route": c["route"], "value": str(v)})
        if got in ("ok", "err") and got in c["prop"] and got != c["mech"]:
            out.model_drift("SafeLong", "route %s value %d: model %s, code %s" % (c["route"], v, c["mech"], got))
        if abs(v) > 2**31:
            nontrivial.add((c["route"], v))
        if len(samples) < 4 and c["point"] in ("max_p1", "u64wrap", "min", "i64max_p1"):
            samples.append({"kind": "S->I", "route": c["route"], "point": c["point"], "value": str(v), "observed": obs})

    # text spellings (don't-care whether accepted; if accepted the value must be right and in range)
    docs, meta3 = [], {}
    for k, (v, lit) in enumerate([(5, "+5"), (7, "007"), (0, "-0"), (5, " 5"), (5, "5 "), (V["max_p1"], "+9007199254740992"),
                                  (V["max"], "+9007199254740991"), (V["max"], "09007199254740991"), (0, ""),
                                  (V["min_m1"], "-09007199254740992"), (V["max_p1"], "--9007199254740992"), (2**63 - 1, "--9223372036854775807"),
                                  (V["min_m1"], "-+9007199254740992"), (V["max_p1"], "+-9007199254740992"), (5, "--5"), (5, "0x5"), (V["max_p1"], "9007199254740992.0"),
                                  (V["max_p1"], "9_007_199_254_740_992"), (V["max_p1"], "\u0669007199254740992")]):
        for route in ("from_str", "from_plain"):
            cid = "s%d.%s" % (k, route)
            docs.append(json.dumps({"id": cid, "route": route, "value": str(v), "lit": lit}))
            meta3[cid] = (route, v, lit)
    for obs in vc.ndjson(vc.harness("vh", ["safelong"], stdin="\n".join(docs) + "\n")):
        route, v, lit = meta3[obs["id"]]
        replayed += 1
        if "ok" in obs:
            got = int(obs["ok"])
            if not (V["min"] <= got <= V["max"]) or got != v:
                out.violation("C15:%s:spelling" % route, "text %r parsed to %d" % (lit, got), {"route": route, "lit": lit})
        elif "panic" in obs:
            out.violation("C15:%s:panic" % route, "panic on %r" % lit, {"route": route, "lit": lit})

    # ---- I->S ----
    nruns = 4000 if tier == "quick" else 60000
    docs, meta2 = [], {}
    names = sorted(ROUTES)
    for k in range(nruns):
        route = names[k % len(names)]
        dlo, dhi = DOMS[ROUTES[route]]
        mode = rng.below(4)
        if mode == 0:
            v = dlo + (rng.next() * 2**64 + rng.next()) % (dhi - dlo + 1)
        elif mode == 1:
            b = rng.choice([V["min"], V["max"], -2**63, 2**63 - 1, 0, 2**64 - 1, 2**53, -2**53, -2**64, 2**64, -2**64 + 2**52, 2**65, -2**127 + 1000])
            v = b + rng.below(2001) - 1000
        elif mode == 2:
            v = (rng.next() % 2**54) - 2**53
        else:
            bits = rng.below(129)
            v = (rng.next() * 2**64 + rng.next()) % (2**bits + 1)
            if rng.chance(1, 2):
                v = -v
        v = max(dlo, min(dhi, v))
        docs.append(json.dumps({"id": "t%d" % k, "route": route, "value": str(v)}))
        meta2["t%d" % k] = (route, v)
    text = vc.harness_parallel("vh", ["safelong"], docs, nproc=4)
    trace_path = os.path.join(od, "trace.ndjson")
    lines = []
    with open(trace_path, "w") as f:
        for obs in vc.ndjson(text):
            route, v = meta2[obs["id"]]
            if "skip" in obs:
                continue
            replayed += 1
            got = judge(route, v, obs, out, {"route": route, "value": str(v)})
            if got == "panic":
                continue
            f.write(json.dumps({"ev": "route", "route": route, "pos": position(v), "verdict": got,
                                "same": ("ok" in obs and obs["ok"] != "absent" and int(obs["ok"]) == v)}) + "\n")
            lines.append((route, v, obs))
            if abs(v) > 2**31:
                nontrivial.add((route, v))
    tr, pf, mf = vc.validate_trace(PID, "TraceSafeLong", "TraceSafeLong.cfg", trace_path, len(lines))
    for p in pf:
        route, v, obs = lines[p["line"] - 1]
        out.violation("C15:%s:trace" % route, "recorded verdict for %d contradicts InRange/Total" % v,
                      {"route": route, "value": str(v), "observed": obs})
    for p in mf[:5]:
        out.model_drift("TraceSafeLong", "line %d" % p["line"])

    def corrupt(recs):
        for r2 in recs:
            if r2["verdict"] == "err":
                r2["verdict"] = "ok"
                r2["same"] = True
                return True
        return False
    bound = vc.binding_selftest(PID, "TraceSafeLong", "TraceSafeLong.cfg", trace_path, corrupt)
    samples.append({"kind": "I->S trace line", "line": json.loads(open(trace_path).readline())})
    out.coverage = {
        "states": r.distinct, "transitions": r.generated, "traces_validated_against_impl": replayed,
        "samples": samples, "evaluations": replayed, "distinct_nontrivial": len(nontrivial),
        "rule": "S->I: every (route, number-line position) pair TLC emits: 34 named boundary points exactly, every "
                "open interval between neighbours with %d seeded samples (ends included); I->S: random values up to 128 "
                "bits per route. Non-trivial = |value| > 2^31; distinct by (route, value)." % nsamp,
        "coverage_by_action": {k: v[1] for k, v in r.coverage.items()}, "trace_lines": len(lines),
        "binding_selftest_rejected_corrupted_trace": bool(bound), "exhaustive": True,
        "bounds": "35 routes x 67 positions exhaustively in TLC; values inside intervals sampled",
    }
    out.assumptions = ["TLC 1.8.0", "python big-integer arithmetic for exact values and their classification"]
    return out.finish()


def replay(path, seed):
    rep = json.load(open(path))
    c = rep["case"]
    obs = vc.ndjson(vc.harness("vh", ["safelong"], stdin=json.dumps({"id": "r", "route": c["route"],
                                                                    "value": c["value"], "lit": c.get("lit")}) + "\n"))[0]
    out = vc.Outcome(PID, "quick", seed, "model_checking")
    judge(c["route"], int(c["value"]), obs, out, {})
    print(json.dumps(obs))
    print("replay: property %s" % ("VIOLATED" if out.violations else "holds"))
    return 1 if out.violations else 0
