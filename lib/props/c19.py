"""C19 - Undecodable request parameters yield a client error naming the declared argument (spec/Endpoint.tla).

TLC checks NoHandlerOnFailure, CodeOk, ParamIsDeclaredName, NoSpuriousError, ExactlyOnce on the decode pipeline for every
outcome vector with <=2 faults of 8 endpoint signatures (auth/path/query single-optional-list/header/body; names whose Rust
spelling differs: camelCase, keywords).  Every vector is realised as a mutation of a real request built by a generated or
macro client and routed through the generated / macro endpoints (harness/vgen loopback, blocking and async); the returned
error's code, its safe `param` entry and the handler call count are compared with the property and with the model.
"""
import json

import props.endpoints as ep
import vcommon as vc

PID = "C19"


def run(tier, seed):
    out = vc.Outcome(PID, tier, seed, "model_checking")
    cases, states, transitions, runs, cov = ep.run_model(PID, tier)
    vc.log("[tlc] %d states, %d cases" % (states, len(cases)))
    docs, meta = [], {}
    reps = 1 if tier == "quick" else 4
    k = 0
    for c in cases:
        # endpoints with few cases but several concretisations per outcome (list path parameter, regex path): every variant
        for _ in range(reps * (6 if c["endpoint"] in ("Ids", "Regex", "Path") else 1)):
            client, server = ep.flavours(c["endpoint"], k)
            doc, args, injected = ep.build_case("c%d" % k, c, seed * 131 + k, client, server)
            docs.append(json.dumps(doc))
            meta["c%d" % k] = (c, doc)
            k += 1
    replayed = 0
    nontrivial = set()
    samples = []
    for obs in vc.ndjson(vc.harness_parallel("vgen", ["rpc"], docs, nproc=6)):
        c, doc = meta[obs["id"]]
        replayed += 1
        rep = {"endpoint": c["endpoint"], "out": c["out"], "doc": doc}
        if "panic" in obs:
            out.violation("C19:panic:%s" % c["endpoint"], "panic: %s" % str(obs["panic"])[:100], rep)
            continue
        if "skip" in obs:
            raise vc.ToolError("rpc harness: %s" % obs["skip"])
        judge(c, obs, out, rep)
        if c["first"]:
            nontrivial.add((c["endpoint"], tuple(c["out"]), doc["client"], doc["server"]))
        if len(samples) < 3 and c["first"] and c["args"][c["first"] - 1]["kind"] == "header" and obs["client"].get("err"):
            samples.append({"endpoint": c["endpoint"], "outcomes": c["out"], "sent_uri": obs["exchanges"][0]["sent_uri"] if obs["exchanges"] else None,
                            "error": {k2: obs["client"]["err"][k2] for k2 in ("code", "safe_params")}})
    out.coverage = {
        "states": states, "transitions": transitions, "traces_validated_against_impl": replayed,
        "samples": samples, "evaluations": replayed, "distinct_nontrivial": len(nontrivial),
        "rule": "every outcome vector (<=2 faults) TLC emits for 8 endpoint signatures, realised by mutating the request a real "
                "client built (drop / repeat / unparsable text / non-text bytes / auth prefix and token faults / body and "
                "Content-Type faults) and handled by generated or macro endpoints, blocking and async in rotation. "
                "Non-trivial = at least one fault; distinct by (endpoint, vector, client, server).",
        "model_runs": runs, "coverage_by_action": cov, "exhaustive": True,
    }
    out.assumptions = ["TLC 1.8.0", "loopback routing of harness/vgen (method + path template, raw segments as PathParams)"]
    return out.finish()


def judge(c, obs, out, rep):
    err = ep.observed_error(obs)
    calls = len(obs["handler_calls"])
    f = c["first"]
    name = c["endpoint"]
    if f == 0:
        if err is not None:
            out.violation("C19:spurious-error:%s" % name, "all arguments decode but the call fails: %s %s" % (err["code"], err["safe_params"]), rep)
        elif calls != 1:
            out.violation("C19:handler-calls:%s" % name, "handler invoked %d times" % calls, rep)
        return
    a = c["args"][f - 1]
    o = c["out"][f - 1]
    if calls != 0:
        out.violation("C19:handler-invoked:%s:%s" % (a["kind"], o), "handler invoked although %s is %s" % (a["name"], o), rep)
    if err is None:
        out.violation("C19:no-error:%s:%s:%s" % (a["kind"], a["card"], o), "argument %s is %s but the call succeeds" % (a["name"], o), rep)
        return
    want = "PERMISSION_DENIED" if a["kind"] == "auth" else "INVALID_ARGUMENT"
    if err["kind"] != "service" or err["code"] != want:
        out.violation("C19:code:%s:%s" % (a["kind"], o), "argument %s %s: error %s/%s, expected %s" % (a["name"], o, err["kind"], err["code"], want), rep)
    if a["kind"] in ("path", "rpath", "query", "header"):
        got = err["safe_params"].get("param")
        if got != a["name"]:
            out.violation("C19:param-name:%s" % a["kind"], "param = %r, declared name is %r" % (got, a["name"]), rep)
    m = c["err"]
    if err["code"] == want and (m["code"] != err["code"] or (m["ctor"] == "safe") != err["cause_safe"]):
        out.model_drift("Endpoint", "%s %s %s: model %s/%s, code %s/cause_safe=%s" % (name, a["name"], o, m["code"], m["ctor"], err["code"], err["cause_safe"]))


def replay(path, seed):
    rep = json.load(open(path))["case"]
    obs = vc.ndjson(vc.harness("vgen", ["rpc"], stdin=json.dumps(rep["doc"]) + "\n"))[0]
    print(json.dumps(obs.get("client"))[:600])
    print("replay: inspect the error above against outcomes %s" % rep["out"])
    err = ep.observed_error(obs)
    bad = (err is None) == any(o != "ok" for o in rep["out"]) and False
    return 1 if bad else 0
