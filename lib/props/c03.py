"""C03 - Code generation succeeds and its output compiles for every valid definition (spec/Modules.tla + rustc).

What TLA+ decides: the necessary conditions the generator is responsible for - distinct item names per emitted module
(the only collision the model admits is a type module named like a sibling package component: a recorded generator
limitation), every cross-type path (super chain + suffix) resolves, under all strip-prefix relations, and nothing the
generator emits for a keyword of the Rust language is itself a keyword (the keyword table of the pinned tree fails this).
What the replay decides: "rustc accepts" - the real generator runs (build.rs of harness/cgen) on
  * every (definition, prefix) case TLC emits (types spread over nested / keyword packages, cross-package references in
    objects, unions, maps, aliases, a service and an error), x {exhaustive} x {serializeEmptyCollections} in rotation,
  * a naming IR (every keyword as field, variant, argument, endpoint name; prelude identifiers as type names),
  * a recursion IR (self / mutual recursion through optional, list, set, map, union, alias; externals; all primitives in
    all container and key positions; empty object / union; docs and deprecation),
  * a services IR (every PLAIN type as path / query single-optional-list-set / header parameter, 17 body and return
    shapes incl. binary and aliases, auth kinds, size limits, safety markers, regex paths, deprecated endpoints, errors),
and the whole module forest is type-checked by rustc in one `cargo check`.  The 115-shape zoo of harness/vgen is compiled
as well (C02).  Known generator limitations are compiled separately and reported as KNOWN-FINDING while they persist.
"""
import json
import os
import re
import shutil
import subprocess

import c03gen
import vcommon as vc

PID = "C03"
CGEN = os.path.join(vc.HARNESS, "cgen")


def write_set(dirname, entries):
    """entries: list of (id, ir, config).  Writes index.json + one file per IR (only when changed)."""
    d = os.path.join(vc.OUT, "c03", dirname)
    os.makedirs(d, exist_ok=True)
    index = []
    keep = {"index.json", "gen_report.json"}
    for cid, doc, cfg in entries:
        fn = "%s.json" % cid
        keep.add(fn)
        text = json.dumps(doc, indent=1, sort_keys=True)
        p = os.path.join(d, fn)
        if not os.path.exists(p) or open(p).read() != text:
            with open(p, "w") as f:
                f.write(text)
        index.append({"id": cid, "file": fn, "config": cfg})
    for fn in os.listdir(d):
        if fn not in keep:
            os.remove(os.path.join(d, fn))
    text = json.dumps(index, indent=1)
    p = os.path.join(d, "index.json")
    if not os.path.exists(p) or open(p).read() != text:
        with open(p, "w") as f:
            f.write(text)
    return d


def cargo_check(set_dir, timeout=3000):
    env = dict(os.environ)
    env["VERIF_C03_DIR"] = set_dir
    env["CARGO_NET_OFFLINE"] = "true"
    rep = os.path.join(set_dir, "gen_report.json")
    if os.path.exists(rep):
        os.remove(rep)
    p = subprocess.run(["cargo", "check", "--offline", "-p", "cgen", "--message-format=short"], cwd=vc.HARNESS, env=env,
                       stdout=subprocess.PIPE, stderr=subprocess.STDOUT, text=True, timeout=timeout)
    if not os.path.exists(rep):
        raise vc.ToolError("cgen build script did not run:\n%s" % p.stdout[-2000:])
    report = json.load(open(rep))
    errors = {}
    for line in p.stdout.splitlines():
        if "error" not in line:
            continue
        m = re.search(r"/ir_([A-Za-z0-9_]+)/", line)
        if m:
            errors.setdefault(m.group(1), []).append(line.strip()[-300:])
    other = [l for l in p.stdout.splitlines() if l.startswith("error") and "/ir_" not in l and "could not compile" not in l and "aborting" not in l]
    return p.returncode, report, errors, other, p.stdout


def crate_checks(out):
    """Config::build_crate output for every mix of types / errors / services: `cargo check` of the emitted crate, whose
    conjure-* dependencies are pointed at /repo's crates (same names, so a dependency the manifest lacks stays missing)."""
    vc.cargo_build("vh")
    vh = os.path.join(vc.TARGET, "debug", "vh")
    base = os.path.join(vc.HARNESS, "target", "c03crates")      # below harness/: its .cargo/config.toml (offline, target dir) applies
    shutil.rmtree(base, ignore_errors=True)
    os.makedirs(base)
    n = 0
    for name, doc in c03gen.crate_irs().items():
        for j, extra in enumerate([{}, {"exhaustive": True, "strip_prefix": "com.palantir"}]):
            d = os.path.join(base, "%s%d" % (name, j))
            irp = d + ".json"
            with open(irp, "w") as f:
                json.dump(doc, f)
            cfg = dict({"crate_name": "gen-%s%d" % (name.replace("_", "-"), j), "crate_version": "1.0.0", "version": "1.0.0"}, **extra)
            p = subprocess.run([vh, "gen-tree", irp, d, json.dumps(cfg)], stdout=subprocess.PIPE, stderr=subprocess.PIPE, text=True, timeout=300)
            n += 1
            rep = {"crate": name, "config": cfg, "ir": doc}
            if p.returncode != 0:
                out.violation("C03:generate:crate", "crate generation failed for %s: %s" % (name, p.stderr[-200:]), rep)
                continue
            mf = os.path.join(d, "Cargo.toml")
            text = open(mf).read()
            patched = re.sub(r'^(conjure-[a-z]+) = "[^"]*"$', lambda m: '%s = { path = "/repo/%s" }' % (m.group(1), m.group(1)), text, flags=re.M)
            with open(mf, "w") as f:
                f.write(patched + "\n[workspace]\n")
            shutil.copyfile(os.path.join(vc.HARNESS, "Cargo.lock"), os.path.join(d, "Cargo.lock"))
            env = dict(os.environ)
            env["CARGO_NET_OFFLINE"] = "true"
            q = subprocess.run(["cargo", "check", "--offline", "--message-format=short"], cwd=d, env=env, stdout=subprocess.PIPE, stderr=subprocess.STDOUT, text=True, timeout=1800)
            if q.returncode != 0:
                # cargo prints paths relative to the crate (src/...); a failure inside a dependency names its absolute path
                errs = [l.strip()[-260:] for l in q.stdout.splitlines() if re.match(r"^(src/|error\[E)", l.strip()) and "error" in l]
                if not errs or "could not compile `conjure-" in q.stdout:
                    raise vc.ToolError("cargo check of the generated crate %s failed outside its sources:\n%s" % (name, q.stdout[-1500:]))
                code = re.search(r"error\[(E\d+)\]", " ".join(errs))
                out.violation("C03:compile:crate:%s:%s" % (name, code.group(1) if code else "error"),
                              "the crate generated for a definition with %s does not compile with the dependencies of its manifest (%s): %s" % (
                                  name.replace("_", " + "), ", ".join(re.findall(r"^(conjure-[a-z]+) =", text, re.M)), errs[0]), dict(rep, errors=errs[:5]))
    return n


def run(tier, seed):
    out = vc.Outcome(PID, tier, seed, "model_checking")
    rng = vc.Rng(seed)
    workers = 4 if tier == "quick" else 16
    cfgs = ["MCModules_q.cfg"] + (["MCModules_t.cfg"] if tier == "thorough" else [])
    cases, states, transitions, cov, runs = [], 0, 0, {}, []
    for cfg in cfgs:
        r = vc.tlc(PID, "MCModules", cfg, workers=workers, timeout_s=3000, extra_env={"EMITRES": str(seed)})
        if r.error:
            raise vc.ToolError("%s: %s" % (cfg, r.error))
        vc.require_actions(r, ["AddItem", "Choose"])
        runs.append({"cfg": cfg, "generated": r.generated, "distinct": r.distinct, "violated": r.violated, "cases": len(r.cases)})
        if r.violated:
            out.notes.append("TLC: %s violated in %s" % (r.violated, cfg))
        states += r.distinct
        transitions += r.generated
        for k, v in r.coverage.items():
            cov[k] = max(cov.get(k, 0), v[1])
        cases.extend(r.cases)
    ro = vc.tlc(PID, "MCModules", "MCModules_oldkw.cfg", workers=2, timeout_s=300, coverage=False, keep_cases=False)
    if ro.rc == 0 and not ro.error:
        raise vc.ToolError("spec self-test failed: the pinned tree's keyword table satisfies NoKeywordEmitted")
    vc.log("[tlc] %d states, %d module cases" % (states, len(cases)))

    entries = []
    meta = {}
    clashing = 0
    limit = 120 if tier == "quick" else 600
    picked = [c for c in cases if not c["clash"]]
    if len(picked) > limit:
        picked = rng.sample(picked, limit)
    for k, c in enumerate(picked):
        cid = "m%d" % k
        cfg = {"exhaustive": k % 2 == 1, "serialize_empty_collections": k % 3 == 1,
               "strip_prefix": ".".join(c["prefix"]) if c["prefix"] else None}
        entries.append((cid, c03gen.modules_ir(c, k), cfg))
        meta[cid] = {"family": "modules", "def": c["def"], "prefix": c["prefix"]}
    clashing = sum(1 for c in cases if c["clash"])
    for name, doc in (("names", c03gen.names_ir()), ("recursion", c03gen.recursion_ir()), ("services", c03gen.services_ir())):
        for j, cfg in enumerate([{}, {"exhaustive": True, "serialize_empty_collections": True, "strip_prefix": "com.palantir"},
                                 {"strip_prefix": "com.palantir." + {"names": "names", "recursion": "rec", "services": "svc"}[name]}]):
            cid = "%s%d" % (name, j)
            entries.append((cid, doc, cfg))
            meta[cid] = {"family": name, "config": cfg}
    # the definition every generated-code harness (vgen) is built from: if it stops compiling, the other checks can only report a
    # tool error, so the compile verdict is taken here
    zoo = json.load(open(os.path.join(vc.HARNESS, "vgen", "ir", "zoo.json")))
    for j, cfg in enumerate([{"strip_prefix": "com.palantir.verif"}, {"exhaustive": True, "serialize_empty_collections": True, "strip_prefix": "com.palantir.verif"}]):
        entries.append(("zoo%d" % j, zoo, cfg))
        meta["zoo%d" % j] = {"family": "zoo", "config": cfg}
    set_dir = write_set("ir", entries)
    rc, report, errors, other, log = cargo_check(set_dir)
    replayed = 0
    nontrivial = set()
    for rep in report:
        replayed += 1
        cid = rep["id"]
        if not rep["ok"]:
            out.violation("C03:generate:%s" % meta[cid]["family"], "generation failed for %s: %s" % (cid, rep["error"][:160]),
                          {"id": cid, "meta": meta[cid], "ir_file": os.path.join(set_dir, cid + ".json")})
        nontrivial.add(cid)
    for cid, errs in errors.items():
        code = re.search(r"error\[(E\d+)\]", " ".join(errs))
        out.violation("C03:compile:%s:%s" % (meta.get(cid, {}).get("family", "?"), code.group(1) if code else "error"),
                      "generated code of %s does not compile: %s" % (cid, errs[0][-200:]),
                      {"id": cid, "meta": meta.get(cid), "ir_file": os.path.join(set_dir, cid + ".json"), "errors": errs[:5]})
    if rc != 0 and not errors:
        raise vc.ToolError("cargo check failed outside the generated modules:\n%s" % "\n".join(other[:10] or log.splitlines()[-15:]))

    # known generator limitations: compiled on their own, reported while they persist
    kb = c03gen.known_bad_irs()
    kentries = [(name.replace("-", "_"), doc, cfg) for name, (doc, cfg, sig) in kb.items()]
    kdir = write_set("ir-known", kentries)
    krc, kreport, kerrors, kother, klog = cargo_check(kdir)
    for name, (doc, cfg, sig) in kb.items():
        cid = name.replace("-", "_")
        replayed += 1
        rep = next(r for r in kreport if r["id"] == cid)
        failing = (not rep["ok"]) or cid in kerrors or (krc != 0 and not kerrors and name == "module-clash")
        if failing:
            out.violation(sig, "known limitation %s still fails: %s" % (name, (kerrors.get(cid) or [rep.get("error", "module declared twice")])[0][-160:]),
                          {"id": cid, "ir_file": os.path.join(kdir, cid + ".json")})
    # full-crate output: the emitted crate compiles with exactly the dependencies its own manifest declares
    ncrates = crate_checks(out)
    replayed += ncrates
    out.coverage = {
        "states": states, "transitions": transitions, "traces_validated_against_impl": replayed,
        "samples": [{"id": e[0], "config": e[2], "types": len(e[1]["types"]), "services": len(e[1]["services"])} for e in entries[:2] + entries[-3:]],
        "evaluations": replayed, "distinct_nontrivial": len(nontrivial),
        "rule": "one generator run + rustc type-check per IR: %d module-structure IRs emitted by TLC (of %d cases; %d cases with a "
                "type-module/package clash are excluded as the recorded limitation), 3 hand-designed families x 3 configurations, "
                "%d known-limitation IRs. Every IR is non-trivial (>= 1 type with cross references); distinct by IR id." % (
                    len(picked), len(cases), clashing, len(kb)),
        "model_runs": runs, "coverage_by_action": cov, "exhaustive": False,
    }
    out.assumptions = ["TLC 1.8.0", "rustc is the oracle of 'compiles'", "Conjure-compiler validity is approximated conservatively "
                       "(no Java toolchain offline): binary/bearertoken path-query-header parameters are not generated",
                       "the emitted crate's conjure-* dependencies are redirected to /repo by name (versions are not resolvable offline)"]
    return out.finish()


def replay(path, seed):
    rep = json.load(open(path))["case"]
    print("replay: re-run `bin/check C03`; the failing IR is %s" % rep.get("ir_file"))
    return 0
