"""Shared driver for C04 / C09 / C19 (spec/Endpoint.tla): concretises TLC's outcome vectors into calls through the
loopback of harness/vgen (generated and macro-derived clients and endpoints of the Matrix service)."""
import json

import vcommon as vc

UUID = "6ba7b810-9dad-11d1-80b4-00c04fd430c8"
# endpoint of the spec config -> (harness endpoint name, {declared arg name: (wire kind, wire name)})
WIRE = {
    "SafeMix": ("safeMix", {"auth": ("auth", "authorization"), "safePath": ("path", 2), "unsafePath": ("path", 3),
                            "safeQuery": ("query", "safeQuery"), "unsafeQuery": ("query", "unsafeQuery"),
                            "safeHeader": ("header", "x-safe"), "unsafeHeader": ("header", "x-unsafe"),
                            "dnlQuery": ("query", "dnlQuery"), "safeInt": ("query", "safeInt"), "body": ("body", None)}),
    "Names": ("names", {"type": ("path", 2), "fooBar": ("path", 3), "async": ("query", "async"), "camelCase": ("query", "camel-case"),
                        "self": ("header", "x-self"), "snakeArg": ("query", "snake_arg"), "match": ("header", "x-match")}),
    "Headers": ("headers", {"hs": ("header", "x-str"), "ho": ("header", "x-opt"), "hu": ("header", "x-uuid"), "ha": ("header", "x-alias"),
                            "he": ("header", "x-enum"), "hd": ("header", "x-dbl")}),
    "Query": ("queryParams", {"qs": ("query", "qs"), "qo": ("query", "q-opt"), "ql": ("query", "ql"), "qset": ("query", "qset"),
                              "qe": ("query", "qe"), "qa": ("query", "qa"), "qoa": ("query", "qoa"), "qb": ("query", "qb")}),
    "AuthCookie": ("authCookie", {"auth": ("cookie", "cookie")}),
    "OptBody": ("optBody", {"body": ("body", None)}),
    "SafeBody": ("safeBody", {"body": ("body", None), "n": ("query", "n")}),
}
WIRE["NamesMacro"] = WIRE["Names"]
WIRE["HeadersMacro"] = WIRE["Headers"]
WIRE["Echo"] = ("echo", {"pe": ("path", 2), "qe": ("query", "qe"), "qo": ("query", "qo"), "ql": ("query", "ql"), "he": ("header", "x-he"),
                         "ho": ("header", "x-ho"), "pq": ("query", "pq"), "po": ("query", "po"), "pl": ("query", "pl"),
                         "ph": ("header", "x-ph"), "pho": ("header", "x-pho")})
WIRE["Path"] = ("pathParams", {"s": ("path", 2), "i": ("path", 4), "d": ("path", 5), "b": ("path", 6), "u": ("path", 7), "r": ("path", 8),
                              "l": ("path", 9), "t": ("path", 10), "e": ("path", 11), "a": ("path", 12)})
# declared PLAIN type of typed arguments, for near-valid "unparsable" values (text a lenient parser might let through)
PLAIN_TYPE = {"Path": {"i": "int", "d": "double", "b": "bool", "u": "uuid", "r": "rid", "l": "safelong", "t": "datetime", "e": "enum"},
              "Names": {"type": "int", "fooBar": "uuid", "async": "int", "camelCase": "int", "self": "int", "snakeArg": "int", "match": "bool"},
              "Headers": {"ho": "int", "hu": "uuid", "hd": "double", "he": "enum"}, "Regex": {"n": "int"},
              "Query": {"qo": "int", "ql": "double", "qe": "enum", "qa": "double", "qb": "bool"}}
PLAIN_TYPE["NamesMacro"] = PLAIN_TYPE["Names"]
PLAIN_TYPE["HeadersMacro"] = dict(PLAIN_TYPE["Headers"], he=None)
NEAR_VALID = {
    "int": ["1.0", "+-1", "0x10", "2147483648", "1_000", "1e3"],
    "double": ["1e", "1.5.2", "1,5", "0x1p3", "--1"],
    "bool": ["TRUE", "1", "yes", "True", "t"],
    "uuid": ["6ba7b810-9dad-11d1-80b4-00c04fd430c", "6ba7b810-9dad-11d1-80b4-00c04fd430c8x", "6ba7b810_9dad_11d1_80b4_00c04fd430c8", "zzzzzzzz-9dad-11d1-80b4-00c04fd430c8"],
    "rid": ["ri.a.b.c", "ri.A.b.c.d", "ri..b.c.d", "rid.a.b.c.d", "ri.a.b.c.", "ri.a.-.c.d"],
    "safelong": ["9007199254740992", "-9007199254740992", "1.0", "9223372036854775808"],
    "datetime": ["2017-01-02T03:04:05+0100", "2017-1-2T3:4:5Z", "2017-01-02T03:04:05 UTC", "2017-01-02", "20170102T030405Z", "2017-01-02T03:04:05"],
    "enum": ["red", "R ED", "", "RED-1", "rEd"],
}
WIRE["Ids"] = ("idsPath", {"ids": ("path", 2)})
WIRE["Ctx"] = ("ctxCall", {"p": ("path", 2), "hoa": ("header", "x-optalias"), "q": ("query", "q")})
WIRE["Regex"] = ("regexPath", {"n": ("path", 2)})
WIRE["Attrs"] = ("attrs", {"b": ("path", 2), "bee": ("path", 3), "sea": ("path", 4), "pq": ("query", "q1"), "hh": ("header", "x-h1"), "ls": ("query", "ls")})


def base_args(ep, salt):
    """valid arguments, every value carrying a marker that is unique to the argument (strings: MK<name><salt>)"""
    def mk(n):
        return "MK%s%d" % (n, salt)
    if ep in ("SafeMix",):
        return {"auth": "tok." + mk("auth"), "safePath": mk("safePath"), "unsafePath": mk("unsafePath"), "safeQuery": mk("safeQuery"),
                "unsafeQuery": mk("unsafeQuery"), "safeHeader": mk("safeHeader"), "unsafeHeader": mk("unsafeHeader"),
                "dnlQuery": mk("dnlQuery"), "safeInt": 410000 + salt % 1000, "body": {"a": 420000 + salt % 1000}}
    if ep in ("Names", "NamesMacro"):
        return {"type": 510000 + salt % 1000, "fooBar": "6ba7b810-9dad-11d1-80b4-%012x" % (salt % 2**40), "async": 520000 + salt % 1000,
                "camelCase": 530000 + salt % 1000, "self": 540000 + salt % 1000, "snakeArg": [550000 + salt % 1000, 551000 + salt % 1000],
                "match": True}
    if ep in ("Headers", "HeadersMacro"):
        return {"hs": mk("hs"), "ho": 610000 + salt % 1000, "hu": "6ba7b810-9dad-11d1-80b4-%012x" % (salt % 2**40), "ha": mk("ha"),
                "he": "RED", "hd": 6200.5 + salt % 1000}
    if ep == "Query":
        return {"qs": mk("qs"), "qo": 710000 + salt % 1000, "ql": [7200.5 + salt % 1000], "qset": [mk("qset")], "qe": "BLUE",
                "qa": 7300.25 + salt % 1000, "qoa": mk("qoa"), "qb": [True]}
    if ep == "AuthCookie":
        return {"auth": "tok." + mk("auth")}
    if ep == "Echo":
        d = {n: "ok:" + mk(n) for n in ("pe", "qe", "qo", "he", "ho", "pq", "po", "ph", "pho")}
        d["ql"] = ["ok:" + mk("ql")]
        d["pl"] = ["ok:" + mk("pl")]
        return d
    if ep == "Path":
        return {"s": mk("s"), "i": 430000 + salt % 1000, "d": 4400.5 + salt % 1000, "b": bool(salt % 2), "u": "6ba7b810-9dad-11d1-80b4-%012x" % (salt % 2**40),
                "r": "ri.svc.i%d.typ.loc" % (salt % 1000), "l": 9007199254740000 + salt % 900, "t": "2017-01-02T03:04:%02dZ" % (salt % 60), "e": "RED", "a": mk("a")}
    if ep == "Regex":
        return {"n": 470000 + salt % 1000}
    if ep == "Ids":
        return {"ids": 480000 + salt % 1000}
    if ep == "Attrs":
        d = {n: "ok:" + mk(n) for n in ("b", "bee", "pq", "hh")}
        d["sea"] = 660000 + salt % 1000
        d["ls"] = [[mk("ls"), "", "x"], [""], [], [mk("ls")]][salt % 4]
        return d
    if ep == "Ctx":
        return {"p": mk("p"), "hoa": mk("hoa"), "q": mk("q")}
    if ep == "OptBody":
        return {"body": {"a": 810000 + salt % 1000}}
    if ep == "SafeBody":
        return {"body": {"a": mk("a"), "c": "RED"}, "n": 910000 + salt % 1000}
    raise vc.ToolError(ep)


def marker_of(ep, name, args):
    v = args[name]
    if isinstance(v, dict):
        v = list(v.values())[0]
    if isinstance(v, list):
        if not v:
            return None
        v = v[0]
    if v == "":
        return None
    if isinstance(v, bool) or v in ("RED", "BLUE"):
        return None
    if isinstance(v, float):
        return None
    if isinstance(v, str) and v.startswith("tok."):
        return v[4:]
    if isinstance(v, str) and v.startswith("ok:"):
        return v[3:]
    return str(v)


def mutations(ep, adesc, outcome, args, salt):
    """request mutation that realises `outcome` for argument adesc; returns (ops, marker injected by the mutation)"""
    kind, wname = WIRE[ep][1][adesc["name"]]
    bad = "MKbad%s%d" % (adesc["name"], salt)
    ptype = PLAIN_TYPE.get(ep, {}).get(adesc["name"])
    if outcome == "unparsable" and ptype and salt % 2 == 1 and adesc.get("card") != "many" and kind in ("path", "query", "header"):
        # text that is nearly a value of the declared type
        near = NEAR_VALID[ptype][(salt // 2) % len(NEAR_VALID[ptype])]
        if kind == "path" and near == "":
            near = "%20"
        op = {"path": {"op": "set_path", "index": wname, "value": near}, "query": {"op": "set_query", "key": wname, "value": near},
              "header": {"op": "set_header", "name": wname, "value": near}}[kind]
        return [op], None
    if outcome == "ok":
        return [], None
    if kind == "query":
        if outcome == "absent":
            return [{"op": "drop_query", "key": wname}], None
        if outcome == "repeated":
            return [{"op": "dup_query", "key": wname, "value": "1" if adesc["typed"] else "x"}], None
        return [{"op": "set_query", "key": wname, "value": bad + "-notanumber"}], bad
    if kind == "header":
        if outcome == "absent":
            return [{"op": "drop_header", "name": wname}], None
        if outcome == "repeated":
            return [{"op": "dup_header", "name": wname, "value": "1" if adesc["typed"] else "x"}], None
        if outcome == "nontext":
            tail = [[0xff, 0xfe], list("\u00e9".encode()), list("\u2603".encode()), [0xe9], [0x80], list("caf\u00e9".encode())][salt % 6]
            return [{"op": "set_header", "name": wname, "bytes": list(bad.encode()) + tail}], bad
        return [{"op": "set_header", "name": wname, "value": bad + "-notanumber"}], bad
    if kind == "path":
        if outcome == "multi":
            # two raw segments; or one segment and a trailing slash (a second, empty segment)
            second = [str(34 + salt % 7), "" if adesc.get("card") != "many" else "56", str(34 + salt % 7), "" if adesc.get("card") != "many" else "78"][salt % 4]
            return [{"op": "set_path_segments", "index": wname, "values": [str(12 + salt % 50), second]}], None
        if adesc.get("card") == "many":
            # one element of the list cannot be parsed: a bad segment, or a segment whose DECODED text contains a slash
            vals = [["1", bad + "-notanumber", "3"], ["1", "2%2F3"], ["7%2F8"]][salt % 3]
            return [{"op": "set_path_segments", "index": wname, "values": vals, "raw": True}], (bad if salt % 3 == 0 else None)
        return [{"op": "set_path", "index": wname, "value": bad + "-notanumber"}], bad
    if kind in ("auth", "cookie"):
        hname = "authorization" if kind == "auth" else "cookie"
        tok = args[adesc["name"]]
        if outcome == "absent":
            return [{"op": "drop_header", "name": hname}], None
        if outcome == "nontext":
            pre = "Bearer " if kind == "auth" else "sid="
            return [{"op": "set_header", "name": hname, "bytes": list((pre + tok).encode()) + [[0xff], list("\u00e9".encode()), [0xe9]][salt % 3]}], None
        if outcome == "nodelim":
            # ... and values shorter than the scheme prefix itself (empty, the bare scheme word, a fragment of it)
            short = ["", "Bearer", "Bear", "B"] if kind == "auth" else ["", "sid", "a=b", "s"]
            return [{"op": "set_header", "name": hname, "value": ([tok, ("Bearer" if kind == "auth" else "sid") + tok, tok + tok] + short)[salt % 7]}], None
        if outcome == "badprefix":
            # another scheme / cookie name; the credential before or after a blank (a diagnostic that echoes "the scheme" must not carry it)
            forms = ["Basic " + tok, tok + " Bearer", "Bearer" + tok + " x", "Basic " + tok] if kind == "auth" else \
                ["other=" + tok, "FOOBAR=" + tok + "; theme=dark", "theme=dark; sid2=" + tok, "other=" + tok + " sid=x"]
            return [{"op": "set_header", "name": hname, "value": forms[salt % 4]}], None
        # not a token: a blank and foreign characters, data after the padding, padding first
        bad_tok = [tok + " b@d", tok + "=." + tok, "=" + tok, tok + "==x" + tok][salt % 4]
        return [{"op": "set_header", "name": hname, "value": ("Bearer " if kind == "auth" else "sid=") + bad_tok}], None
    if kind == "body":
        if outcome == "malformed":
            return [{"op": "set_body", "bytes": list(('{"a": "%s' % bad).encode())}], bad
        if outcome == "wrongctype":
            return [{"op": "set_header", "name": "content-type", "value": "text/plain"}], None
        return [{"op": "drop_header", "name": "content-type"}], None
    raise vc.ToolError("mutations: %s %s" % (kind, outcome))


def build_case(cid, c, salt, client, server, extra=None):
    ep = c["endpoint"]
    args = base_args(ep, salt)
    ops = []
    injected = {}
    for adesc, o in zip(c["args"], c["out"]):
        m, marker = mutations(ep, adesc, o, args, salt)
        ops += m
        if marker:
            injected[adesc["name"]] = marker
    # a raw request may put ";<another argument's key>=<data>" inside a query value: "&" alone separates pairs, so this is all
    # data of THIS argument (and must never surface under the other argument's name, let alone in a safe channel)
    if salt % 3 == 0:
        qs = [(a, o) for a, o in zip(c["args"], c["out"]) if a["kind"] == "query"]
        plain = [a for a, o in qs if o == "ok" and not a["typed"] and a.get("card") == "one" and isinstance(args.get(a["name"]), str)]
        if plain and len(qs) >= 2:
            u = plain[salt % len(plain)]
            other = [a for a, _ in qs if a["name"] != u["name"]]
            t = other[salt % len(other)]
            base = args[u["name"]]
            tail = "SMUGGLED%s%d" % (u["name"], salt)
            args[u["name"]] = base + ";" + WIRE[ep][1][t["name"]][1] + "=" + tail
            ops.append({"op": "set_query_raw", "key": WIRE[ep][1][u["name"]][1], "value": base + ";" + WIRE[ep][1][t["name"]][1] + "=" + tail})
            injected.setdefault(u["name"], tail)
    doc = {"id": cid, "endpoint": WIRE[ep][0], "args": args, "ret": "R%d" % salt if ep != "OptBody" else {"a": 7},
           "client": client, "server": server, "mutations": ops, "chunk": 1 + salt % 3}
    if extra:
        doc.update(extra)
    return doc, args, injected


def flavours(ep, k):
    if ep in ("Echo", "Attrs", "Ids"):
        return [("macro-blocking", "macro-blocking"), ("macro-async", "macro-async"), ("macro-blocking", "macro-async"), ("macro-async", "macro-blocking")][k % 4]
    if ep in ("NamesMacro", "HeadersMacro"):
        return [("gen-blocking", "macro-blocking"), ("gen-async", "macro-async"), ("macro-blocking", "macro-async"), ("macro-async", "macro-blocking")][k % 4]
    if ep in ("Names", "Headers", "Query", "AuthCookie"):
        return [("gen-blocking", "gen-blocking"), ("gen-async", "gen-async"), ("macro-blocking", "gen-async"), ("macro-async", "gen-blocking"),
                ("gen-blocking", "gen-async")][k % 5]
    return [("gen-blocking", "gen-blocking"), ("gen-async", "gen-async"), ("gen-blocking", "gen-async"), ("gen-async", "gen-blocking")][k % 4]


def run_model(pid, tier):
    """TLC over all endpoint configs; returns (cases, states, transitions, runs, coverage)"""
    cases, states, transitions, runs, cov = [], 0, 0, [], {}
    for ep in ("SafeMix", "Names", "NamesMacro", "Headers", "HeadersMacro", "Echo", "Attrs", "Regex", "Ids", "Path", "Query", "AuthCookie", "OptBody", "SafeBody", "Ctx"):
        r = vc.tlc(pid, "MCEndpoint", "MCEndpoint_%s%s.cfg" % (ep, "_t" if tier == "thorough" else ""), workers=4 if tier == "quick" else 12, timeout_s=3000)
        if r.error:
            raise vc.ToolError("MCEndpoint_%s: %s" % (ep, r.error))
        vc.require_actions(r, ["Pick", "Done"])
        runs.append({"cfg": "MCEndpoint_%s.cfg" % ep, "generated": r.generated, "distinct": r.distinct, "violated": r.violated,
                     "cases": len(r.cases)})
        states += r.distinct
        transitions += r.generated
        for k, v in r.coverage.items():
            cov[k] = max(cov.get(k, 0), v[1])
        cases.extend(r.cases)
    return cases, states, transitions, runs, cov


def observed_error(obs):
    c = obs["client"]
    return c.get("err")


def safe_channels(obs):
    """every safe-to-log channel of the call as text: response SafeParams, the error's safe params, a safe cause"""
    texts = []
    for e in obs.get("exchanges", []):
        texts.append(("server SafeParams", json.dumps(e.get("server_safe_params", {}), ensure_ascii=False)))
        se = e.get("server_error")
        if se:
            texts.append(("server error safe_params", json.dumps(se["safe_params"], ensure_ascii=False)))
            if se["cause_safe"]:
                texts.append(("server error safe cause", json.dumps(se["cause"], ensure_ascii=False)))
    err = observed_error(obs)
    if err:
        texts.append(("client error safe_params", json.dumps(err["safe_params"], ensure_ascii=False)))
        if err["cause_safe"]:
            texts.append(("client error safe cause", json.dumps(err["cause"], ensure_ascii=False)))
    return texts
