"""C18 - Clients return a value only from a complete, correctly typed response (spec/BodyFraming.tla)."""
import props.bodyprops as bp


def run(tier, seed):
    return bp.run_side("C18", "client", tier, seed)


def replay(path, seed):
    return bp.replay_side("C18", "client", path, seed)
