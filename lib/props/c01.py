"""C01 - JSON and Smile wrappers round-trip every Conjure value in Conjure encoding (spec/SerdeWrap.tla).

(1) TLC: mode propagation (key <=> below a map key), Conjure spelling table, standard JSON, decode-back, for every
    path of <=3 (thorough 5) serde entry points x 16 leaf kinds x {JSON, Smile}; models with one re-wrap missing must fail.
(2) S->I: every emitted (path, leaf) becomes a dynamic value making exactly those serde calls; real
    json::{to_string,to_vec,to_writer,pretty} and smile::{to_vec,to_writer}; output tokenised with plain
    serde_json / serde_smile, token at the path compared with the Conjure spelling computed from the concrete leaf;
    bytes decoded with all 25 client/server x str/slice/reader/mut-slice entry points (Deserializer structs and convenience functions) and compared.
(3) I->S: seeded random trees (depth <=6) serialised through the REAL wrappers over a recording backend (hook
    conjure_serde::verif); one trace line per leaf, validated by TraceSerdeWrap.tla.
"""
import base64
import json
import os
import struct

import vcommon as vc

PID = "C01"
UUID = "6ba7b810-9dad-11d1-80b4-00c04fd430c8"
DE_ALL = ["json_client_str", "json_client_slice", "json_client_reader", "json_server_str", "json_server_slice",
          "json_server_reader", "json_server_pretty", "smile_client_slice", "smile_client_reader", "smile_server_slice",
          "smile_server_reader", "smile_client_mut_slice", "smile_server_mut_slice",
          # the convenience functions json::client_from_str::<T> ... (the entries above are the Deserializer structs)
          "json_client_fn_str", "json_client_fn_slice", "json_client_fn_reader", "json_server_fn_str", "json_server_fn_slice",
          "json_server_fn_reader", "smile_client_fn_slice", "smile_client_fn_reader", "smile_server_fn_slice",
          "smile_server_fn_reader", "smile_client_fn_mut_slice", "smile_server_fn_mut_slice",
          # the request-body deserializers of conjure-http's JsonEncoding / SmileEncoding (type-erased server deserializers)
          "json_server_http", "smile_server_http"]


def f64_of_bits(bits):
    return struct.unpack(">d", struct.pack(">Q", int(bits, 16)))[0]


def expected_text(leaf_val):
    """Conjure spelling of a leaf as a JSON string / map key (None = not a string in value position)."""
    k = leaf_val["k"]
    if k == "bool":
        return "true" if leaf_val["v"] else "false"
    if k in ("i32", "i64", "safelong"):
        return leaf_val["v"]
    if k in ("f64", "doublekey"):
        x = f64_of_bits(leaf_val["bits"])
        if x != x:
            return "NaN"
        if x == float("inf"):
            return "Infinity"
        if x == float("-inf"):
            return "-Infinity"
        return None  # any decimal text that parses back
    if k == "str":
        return leaf_val["v"]
    if k == "bytes":
        return base64.b64encode(bytes(leaf_val["v"])).decode()
    if k in ("uuid", "rid", "bearer"):
        return leaf_val["v"]
    if k == "unit_variant":
        return "AB"[leaf_val["idx"]]
    return None


def check_token(fmt, inkey, leaf, leaf_val, tok):
    """Property oracle for the token found at the leaf's position.  Returns None or a description of the mismatch."""
    k = tok.get("k")
    lk = leaf_val["k"]
    if k in ("WalkErr", "ParseErr"):
        return "output cannot be navigated: %s" % tok.get("text")
    stringly = inkey or fmt == "json"
    if lk in ("f64", "doublekey"):
        x = f64_of_bits(leaf_val["bits"])
        finite = x == x and abs(x) != float("inf")
        if stringly and not finite:
            return None if (k == "Str" and tok["text"] == expected_text(leaf_val)) else "non-finite double spelled %s" % tok
        if stringly and finite:
            want = "Str" if inkey else "Num"
            if k != want:
                return "finite double in %s position is a %s token" % ("key" if inkey else "value", k)
            try:
                back = float(tok["text"])
            except ValueError:
                return "double text %r does not parse" % tok["text"]
            return None if struct.pack(">d", back) == struct.pack(">d", x) else "double text %r parses to another value" % tok["text"]
        # Smile value: native double
        if k != "Dbl":
            return "double in a Smile value is a %s token" % k
        y = f64_of_bits(tok["bits"])
        return None if (y != y and x != x) or struct.pack(">d", y) == struct.pack(">d", x) else "double bits changed"
    if lk == "bytes":
        if stringly:
            return None if (k == "Str" and tok["text"] == expected_text(leaf_val)) else "binary spelled %s, expected padded standard Base64 %r" % (tok, expected_text(leaf_val))
        return None if (k == "Bin" and tok["bytes"] == leaf_val["v"]) else "binary in a Smile value is %s" % tok
    if lk == "bool":
        if inkey:
            return None if (k == "Str" and tok["text"] == expected_text(leaf_val)) else "boolean key spelled %s" % tok
        return None if (k == "Bool" and tok["text"] == expected_text(leaf_val)) else "boolean value is %s" % tok
    if lk in ("i32", "i64", "safelong"):
        want = "Str" if inkey else "Num"
        return None if (k == want and tok["text"] == leaf_val["v"]) else "integer spelled %s" % tok
    if lk == "unit":
        return None if k == "Null" else "unit is %s" % tok
    if lk == "uuid" and fmt == "smile" and not inkey:
        return None  # not fixed by the property
    if lk == "datetime":
        return None if k == "Str" else "datetime is %s" % tok
    want = expected_text(leaf_val)
    return None if (k == "Str" and tok["text"] == want) else "%s spelled %s, expected string %r" % (lk, tok, want)


def dont_care(path, leaf):
    """Some(x) where x's own encoding is null cannot be told from None (Conjure forbids optional<unit>)."""
    if leaf != "unit":
        return False
    i = len(path)
    while i > 0 and path[i - 1] in ("newtype_struct",):
        i -= 1
    return i > 0 and path[i - 1] == "some"


# ---------------------------------------------------------------------------------------------------------------
# random trees over the Conjure data model, with the address of every leaf

LEAFGEN = {
    "bool": lambda r: ({"k": "bool", "v": r.chance(1, 2)}, {"k": "bool"}),
    "i32": lambda r: ({"k": "i32", "v": str(r.choice([0, -1, 2**31 - 1, -2**31, r.below(1000)]))}, {"k": "i32"}),
    "i64": lambda r: ({"k": "i64", "v": str(r.choice([0, 2**63 - 1, -2**63, 2**53 + 1]))}, {"k": "i64"}),
    "f64fin": lambda r: ({"k": "f64", "bits": r.choice(["0x3ff8000000000000", "0x8000000000000000", "0x3fb999999999999a",
                                                          "0x7fefffffffffffff", "0x0000000000000001"])}, {"k": "f64"}),
    "f64nan": lambda r: ({"k": "f64", "bits": r.choice(["0x7ff8000000000000", "0xfff8000000000001"])}, {"k": "f64"}),
    "f64inf": lambda r: ({"k": "f64", "bits": "0x7ff0000000000000"}, {"k": "f64"}),
    "f64ninf": lambda r: ({"k": "f64", "bits": "0xfff0000000000000"}, {"k": "f64"}),
    "str": lambda r: ({"k": "str", "v": r.choice(["hello", "", "héllo ☃", "true", "1.5"])}, {"k": "str"}),
    "strNaN": lambda r: ({"k": "str", "v": r.choice(["NaN", "Infinity", "-Infinity"])}, {"k": "str"}),
    "bytes0": lambda r: ({"k": "bytes", "v": []}, {"k": "bytes"}),
    "bytes1": lambda r: ({"k": "bytes", "v": [r.below(256)]}, {"k": "bytes"}),
    "bytes2": lambda r: ({"k": "bytes", "v": [251, 255]}, {"k": "bytes"}),
    "bytes3": lambda r: ({"k": "bytes", "v": [251, 239, 190]}, {"k": "bytes"}),
    "bytesbig": lambda r: ({"k": "bytes", "v": [(i * 31 % 251) for i in range(r.choice([1025, 2049, 3073]))]}, {"k": "bytes"}),
    "uuid": lambda r: ({"k": "uuid", "v": UUID}, {"k": "uuid"}),
    "enum": lambda r: ({"k": "unit_variant", "idx": 0}, {"k": "enum", "variants": [{"form": "unit"}, {"form": "unit"}]}),
    "unit": lambda r: ({"k": "unit"}, {"k": "unit"}),
}
KEYABLE = [k for k in LEAFGEN if k != "unit"]


def nullish(v):
    """is this value written as JSON null (so that wrapping it in Some cannot round trip)?"""
    while v["k"] == "newtype_struct":
        v = v["item"]
    return v["k"] in ("none", "unit", "some", "unit_struct")


def random_tree(rng, depth, path, leaves, addr):
    """-> (val, ty).  leaves collects (path steps, leaf kind, address in the recorded call tree)."""
    if depth == 0 or rng.chance(1, 4):
        kind = rng.choice(list(LEAFGEN))
        if kind == "unit" and path and path[-1] == "some":
            kind = "i32"
        v, t = LEAFGEN[kind](rng)
        leaves.append((list(path), kind, list(addr)))
        return v, t
    k = rng.below(7)
    if k == 0:
        sub = []
        v, t = random_tree(rng, depth - 1, path + ["some"], sub, addr + [("item",)])
        if nullish(v):
            # Some(x) where x itself is written as null (unit, none, a newtype around one of them) is not representable
            v, t = LEAFGEN["i32"](rng)
            sub = [(path + ["some"], "i32", addr + [("item",)])]
        leaves.extend(sub)
        return {"k": "some", "item": v}, {"k": "option", "item": t}
    if k == 1:
        n = 1 + rng.below(2)
        first = None
        items = []
        for i in range(n):
            sub = []
            v, t = random_tree(vc.Rng(rng.next()), depth - 1, path + ["seq_elem"], sub, addr + [("items", i)])
            if first is None:
                first = t
                items.append(v)
                leaves.extend(sub)
            elif json.dumps(t, sort_keys=True) == json.dumps(first, sort_keys=True):
                items.append(v)
                leaves.extend(sub)
        return {"k": "seq", "items": items}, {"k": "seq", "item": first}
    if k == 2:
        kk = rng.choice(KEYABLE)
        kv, kt = LEAFGEN[kk](rng)
        leaves.append((path + ["map_key"], kk, addr + [("entries", 0, 0)]))
        v, t = random_tree(rng, depth - 1, path + ["map_value"], leaves, addr + [("entries", 0, 1)])
        return {"k": "map", "entries": [[kv, v]]}, {"k": "map", "key": kt, "value": t}
    if k == 3:
        fs, ts = [], []
        for i in range(1 + rng.below(3)):
            v, t = random_tree(rng, depth - 1, path + ["struct_field"], leaves, addr + [("fields", i, 1)])
            fs.append(["f%d" % i, v])
            ts.append(["f%d" % i, t])
        return {"k": "struct", "fields": fs}, {"k": "struct", "fields": ts}
    if k == 4:
        v, t = random_tree(rng, depth - 1, path + ["newtype_struct"], leaves, addr + [("item",)])
        return {"k": "newtype_struct", "item": v}, {"k": "newtype_struct", "item": t}
    if k == 5:
        v, t = random_tree(rng, depth - 1, path + ["newtype_variant"], leaves, addr + [("item",)])
        return ({"k": "newtype_variant", "idx": 1, "item": v},
                {"k": "enum", "variants": [{"form": "unit"}, {"form": "newtype", "item": t}]})
    v1, t1 = random_tree(rng, depth - 1, path + ["tuple_elem"], leaves, addr + [("items", 0)])
    v2, t2 = random_tree(rng, depth - 1, path + ["tuple_elem"], leaves, addr + [("items", 1)])
    return {"k": "tuple", "items": [v1, v2]}, {"k": "tuple", "items": [t1, t2]}


def follow(rec, addr):
    cur = rec
    for a in addr:
        if a[0] == "item":
            cur = cur["item"]
        elif a[0] == "items":
            cur = cur["items"][a[1]]
        elif a[0] == "entries":
            cur = cur["entries"][a[1]][a[2]]
        elif a[0] == "fields":
            cur = cur["fields"][a[1]][a[2]]
    return cur


def get_val(val, addr):
    cur = val
    for a in addr:
        if a[0] == "item":
            cur = cur["item"]
        elif a[0] == "items":
            cur = cur["items"][a[1]]
        elif a[0] == "entries":
            cur = cur["entries"][a[1]][a[2]]
        elif a[0] == "fields":
            cur = cur["fields"][a[1]][a[2]]
    return cur


def call_to_tok(fmt, leaf, leaf_val, call, inkey=False):
    """recorded backend call -> token of spec/SerdeWrap.tla (text classes are judged against the concrete leaf)"""
    c = call["c"]
    if c in ("str", "collect_str"):
        text = call["v"]
        if leaf in ("f64nan", "f64inf", "f64ninf"):
            return {"k": "Str", "t": text}
        if leaf == "f64fin":
            try:
                ok = struct.pack(">d", float(text)) == struct.pack(">d", f64_of_bits(leaf_val["bits"]))
            except ValueError:
                ok = False
            return {"k": "Str", "t": "dec" if ok else "WRONG:" + text}
        if leaf in ("i32", "i64"):
            return {"k": "Str", "t": "dec" if text == leaf_val["v"] else "WRONG:" + text}
        if leaf == "bool":
            return {"k": "Str", "t": "true" if text == ("true" if leaf_val["v"] else "false") else "WRONG:" + text}
        if leaf.startswith("bytes"):
            return {"k": "Str", "t": "b64:" + leaf if text == base64.b64encode(bytes(leaf_val["v"])).decode() else "WRONG:" + text}
        want = expected_text(leaf_val)
        return {"k": "Str", "t": leaf if text == want else "WRONG:" + text}
    if c == "bool":
        return {"k": "Bool", "t": ""}
    if c in ("i32", "i64", "i8", "i16", "u8", "u16", "u32", "u64"):
        # integers are delegated unchanged; in key position the BACKEND's key serializer writes them as decimal
        # strings (asserted on real output by the S->I part), so the token of the output is a string there
        ok = call["v"] == leaf_val.get("v")
        if inkey:
            return {"k": "Str", "t": "dec" if ok else "WRONG"}
        return {"k": "Num", "t": "dec" if ok else "WRONG"}
    if c == "f64":
        x = f64_of_bits(call["bits"])
        finite = x == x and abs(x) != float("inf")
        if fmt == "json":
            return {"k": "Num", "t": "dec"} if finite else {"k": "Null", "t": ""}
        return {"k": "Dbl", "t": leaf}
    if c == "bytes":
        if leaf == "uuid":
            return {"k": "Bin", "t": "uuid16"}
        return {"k": "Arr" if fmt == "json" else "Bin", "t": leaf}
    if c in ("unit", "none"):
        return {"k": "Null", "t": ""}
    if c == "unit_variant":
        return {"k": "Str", "t": "enum"}
    return {"k": "Other", "t": c}


def run(tier, seed):
    out = vc.Outcome(PID, tier, seed, "model_checking")
    rng = vc.Rng(seed)
    od = vc.outdir(PID)
    workers = 4 if tier == "quick" else 16
    cfgs = ["MCSerdeWrap_q.cfg"] + (["MCSerdeWrap_t.cfg"] if tier == "thorough" else [])
    cases, states, transitions, cov, runs = [], 0, 0, {}, []
    for cfg in cfgs:
        r = vc.tlc(PID, "MCSerdeWrap", cfg, workers=workers, timeout_s=3000, extra_env={"EMITRES": str(seed)})
        if r.error:
            raise vc.ToolError("%s: %s" % (cfg, r.error))
        vc.require_actions(r, ["Step", "PickLeaf", "PickStruct"])
        runs.append({"cfg": cfg, "generated": r.generated, "distinct": r.distinct, "violated": r.violated,
                     "wall_s": round(r.wall_s, 1), "cases": len(r.cases)})
        if r.violated:
            out.notes.append("TLC: model of the current mechanism violates %s in %s" % (r.violated, cfg))
        states += r.distinct
        transitions += r.generated
        for k, v in r.coverage.items():
            cov[k] = max(cov.get(k, 0), v[1])
        cases.extend(c for c in r.cases if c["leaf"] != "struct")
    for mut in ("MCSerdeWrap_mutser.cfg", "MCSerdeWrap_mutde.cfg"):
        rm = vc.tlc(PID, "MCSerdeWrap", mut, workers=2, timeout_s=300, coverage=False, keep_cases=False)
        if not rm.violated:
            raise vc.ToolError("spec self-test failed: %s (one re-wrap removed) passes all invariants" % mut)
    vc.log("[tlc] %d states, %d cases" % (states, len(cases)))

    # ---- S->I ----
    docs, meta = [], {}
    seen = set()
    for ci, c in enumerate(cases):
        key = (tuple(c["path"]), c["leaf"])
        if key in seen or dont_care(c["path"], c["leaf"]):
            continue
        seen.add(key)
        cid = "c%d" % ci
        docs.append(json.dumps({"id": cid, "path": c["path"], "leaf": c["leaf"], "seed": seed * 1000003 + ci}))
        meta[cid] = c
    # Conjure key/leaf types beyond the model's alphabet (rid, bearer token, safelong, datetime, DoubleKey)
    for li, leaf in enumerate(["rid", "bearer", "safelong", "datetime", "doublekey"]):
        for pi, path in enumerate([[], ["map_key"], ["map_value"], ["seq_elem", "map_key"], ["some"], ["struct_field", "map_key"]]):
            cid = "x%d.%d" % (li, pi)
            docs.append(json.dumps({"id": cid, "path": path, "leaf": leaf, "seed": seed + li * 7 + pi}))
            meta[cid] = {"path": path, "leaf": leaf, "inkey": "map_key" in path, "json": None, "smile": None}
    text = vc.harness_parallel("vh", ["serde"], docs, nproc=6)
    replayed = 0
    nontrivial = set()
    samples = []
    for obs in vc.ndjson(text):
        c = meta[obs["id"]]
        rep = {"path": c["path"], "leaf": c["leaf"]}
        replayed += 1
        if "panic" in obs:
            out.violation("C01:panic:%s" % c["leaf"], "panic: %s" % obs["panic"][:100], rep)
            continue
        if "skip" in obs:
            raise vc.ToolError("case %s: %s" % (obs["id"], obs["skip"]))
        sig_path = "/".join(c["path"][-2:]) or "root"
        if "ser_err" in obs:
            out.violation("C01:ser-error:%s:%s" % (c["leaf"], sig_path), "serialization failed: %s" % obs["ser_err"][:100], rep)
            continue
        if not obs["standard_json"]:
            out.violation("C01:json-not-standard:%s" % c["leaf"], "output %s is not standard JSON" % obs["json"][:80], rep)
        if not all(obs["consistent"].values()):
            out.violation("C01:entry-points-differ", "to_string/to_vec/to_writer disagree: %s" % obs["consistent"], rep)
        lv = obs["leaf_value"]
        for fmt, key in (("json", "tok_json"), ("smile", "tok_smile")):
            if key not in obs:
                continue
            why = check_token(fmt, c["inkey"], c["leaf"], lv, obs[key])
            if why:
                out.violation("C01:%s:spelling:%s:%s" % (fmt, c["leaf"], "key" if c["inkey"] else "value"),
                              "%s at %s" % (why, "/".join(c["path"]) or "root"), rep)
            elif c.get(fmt) and obs[key]["k"] != c[fmt]["k"] and c[fmt]["k"] not in ("Any",):
                out.model_drift("SerdeWrap", "%s token at %s/%s: model %s, code %s" % (fmt, c["path"], c["leaf"], c[fmt]["k"], obs[key]["k"]))
        for name in DE_ALL:
            d = obs["de"].get(name)
            if d is None:
                continue
            if not d["ok"]:
                out.violation("C01:decode-error:%s:%s:%s" % (name.split("_")[0], c["leaf"], sig_path),
                              "%s rejects its own serializer's output: %s" % (name, d["err"][:100]), rep)
            elif not d["equal"]:
                out.violation("C01:roundtrip:%s:%s:%s" % (name.split("_")[0], c["leaf"], sig_path),
                              "%s yields a different value" % name, rep)
        if c["path"]:
            nontrivial.add((tuple(c["path"]), c["leaf"]))
        if len(samples) < 3 and c["inkey"] and c["leaf"] in ("f64nan", "bytes2", "bool"):
            samples.append({"kind": "S->I", "path": c["path"], "leaf": c["leaf"], "json": obs["json"],
                            "tok_json": obs.get("tok_json"), "tok_smile": obs.get("tok_smile")})

    # ---- I->S ----
    nruns = 400 if tier == "quick" else 4000
    docs, meta2 = [], {}
    for k in range(nruns):
        leaves = []
        val, ty = random_tree(vc.Rng(seed * 7919 + k), 6, [], leaves, [])
        docs.append(json.dumps({"id": "t%d" % k, "val": val, "ty": ty, "record": True}))
        meta2["t%d" % k] = (val, ty, leaves)
    text = vc.harness_parallel("vh", ["serde"], docs, nproc=6)
    trace_path = os.path.join(od, "trace.ndjson")
    lines = []
    with open(trace_path, "w") as f:
        for obs in vc.ndjson(text):
            val, ty, leaves = meta2[obs["id"]]
            rep = {"val": val, "ty": ty}
            replayed += 1
            if "panic" in obs or "skip" in obs or "ser_err" in obs:
                out.violation("C01:random-tree:%s" % ("panic" if "panic" in obs else "error"),
                              str(obs.get("panic") or obs.get("skip") or obs.get("ser_err"))[:120], rep)
                continue
            if not obs["standard_json"]:
                out.violation("C01:json-not-standard:tree", "output is not standard JSON", rep)
            for name in DE_ALL:
                d = obs["de"].get(name)
                if d and not (d["ok"] and d["equal"]):
                    out.violation("C01:roundtrip:%s:tree" % name.split("_")[0], "%s: %s" % (name, str(d)[:100]), rep)
            for fmt in ("json", "smile"):
                rec = obs["recorded"][fmt]
                if "err" in rec:
                    out.violation("C01:%s:recorded-error" % fmt, rec["err"][:100], rep)
                    continue
                for path, kind, addr in leaves:
                    call = follow(rec, addr)
                    lv = get_val(val, addr)
                    tok = call_to_tok(fmt, kind, lv, call, "map_key" in path)
                    f.write(json.dumps({"ev": "leaf", "fmt": fmt, "path": path, "leaf": kind, "tok": tok}) + "\n")
                    lines.append((path, kind, fmt, tok))
                    nontrivial.add((tuple(path), kind))
    tr, pf, mf = vc.validate_trace(PID, "TraceSerdeWrap", "TraceSerdeWrap.cfg", trace_path, len(lines), timeout_s=1500)
    for p in pf:
        path, kind, fmt, tok = lines[p["line"] - 1]
        out.violation("C01:%s:trace:%s:%s" % (fmt, kind, "key" if "map_key" in path else "value"),
                      "the wrapper handed %s to the backend for a %s at %s" % (tok, kind, "/".join(path)),
                      {"path": path, "leaf": kind})
    for p in mf[:5]:
        out.model_drift("TraceSerdeWrap", "line %d: backend call differs from the model: %s" % (p["line"], p.get("model")))

    def corrupt(recs):
        for r2 in recs:
            if r2["tok"]["k"] == "Str" and r2["leaf"] == "f64nan":
                r2["tok"] = {"k": "Null", "t": ""}
                return True
        return False
    bound = vc.binding_selftest(PID, "TraceSerdeWrap", "TraceSerdeWrap.cfg", trace_path, corrupt, nlines_max=2000)
    samples.append({"kind": "I->S trace line", "line": json.loads(open(trace_path).readline())})
    out.coverage = {
        "states": states, "transitions": transitions, "traces_validated_against_impl": replayed,
        "samples": samples, "evaluations": replayed, "distinct_nontrivial": len(nontrivial),
        "rule": "S->I: every (path, leaf) TLC emits (all paths of <=2 entry points, a seeded share of longer ones; 16 "
                "leaf kinds) + rid/bearer/safelong/datetime/DoubleKey leaves in key and value positions; 6 serializer "
                "entry points and 25 deserializer entry points each; I->S: random trees of depth <=6, one trace line per "
                "leaf per format. Non-trivial = non-empty path; distinct by (path, leaf kind).",
        "model_runs": runs, "coverage_by_action": cov, "trace_lines": len(lines),
        "binding_selftest_rejected_corrupted_trace": bool(bound), "exhaustive": True,
    }
    out.assumptions = ["TLC 1.8.0", "plain serde_json / serde_smile tokenisers", "harness dynval.rs makes the serde calls "
                       "of a static type of the same shape"]
    return out.finish()


def replay(path, seed):
    rep = json.load(open(path))["case"]
    if "val" in rep:
        doc = {"id": "r", "val": rep["val"], "ty": rep["ty"], "record": True}
    else:
        doc = {"id": "r", "path": rep["path"], "leaf": rep["leaf"], "seed": seed}
    obs = vc.ndjson(vc.harness("vh", ["serde"], stdin=json.dumps(doc) + "\n"))[0]
    print(json.dumps(obs)[:2000])
    bad = "panic" in obs or "ser_err" in obs or not obs.get("standard_json", True) or any(
        not (d["ok"] and d.get("equal")) for d in obs.get("de", {}).values())
    if "path" in rep and not bad:
        inkey = "map_key" in rep["path"]
        for fmt, key in (("json", "tok_json"), ("smile", "tok_smile")):
            if key in obs and check_token(fmt, inkey, rep["leaf"], obs["leaf_value"], obs[key]):
                bad = True
    print("replay: property %s" % ("VIOLATED" if bad else "holds"))
    return 1 if bad else 0
