"""C14 - Generated types with doubles have a lawful total order, equality and hash (spec/Orders.tla).

(1) TLC: the order/equality/hash laws (reflexive incl. NaN, Eq <=> Cmp = Equal, antisymmetric, transitive, total, NaN
    greatest, Eq => equal hash input) hold for the transcribed DoubleOps / derive composition over all triples of a
    bounded value universe per type (double, optional, list incl. prefixes, string- and double-keyed maps, object, union).
(2) S->I: every value of the universe is written as a JSON document and parsed into the corresponding GENERATED type
    (harness/vgen: objects, alias, union, nested object); the full eq/cmp/hash matrices, BTreeSet/HashSet membership and
    parse-twice equality are computed on the real types, checked against the laws and against TLC's predictions.
    DoubleKey and the DoubleOps helpers are driven directly with exact bit patterns (NaN payloads, signed zeros).
(3) Seeded random DoubleBag documents (doubles in 11 positions) extend the bound.
"""
import json

import vcommon as vc

PID = "C14"
SYM_JSON = {"ninf": "-Infinity", "m1.5": -1.5, "nz": -0.0, "pz": 0.0, "1.5": 1.5, "inf": "Infinity", "nan": "NaN", "nan2": "NaN"}
SYM_BITS = {"ninf": "0xfff0000000000000", "m1.5": "0xbff8000000000000", "nz": "0x8000000000000000", "pz": "0x0000000000000000",
            "1.5": "0x3ff8000000000000", "inf": "0x7ff0000000000000", "nan": "0x7ff8000000000000", "nan2": "0xfff8000000000123"}
TYPE_MAP = {"dbl": [("ObjDbl", "f"), ("DoubleLeaf", "x"), ("PlDbl", None), ("PlPlDbl", None), ("ObjAlDbl", "f"), ("ObjExDbl", "f")],
            "opt": [("ObjOptDbl", "f")], "list": [("ObjListDbl", "f")],
            "mapstr": [("ObjMapStrToDbl", "f"), ("ObjAlMapStrToDbl", "f")], "mapdbl": [("ObjMapDblToStr", "f")],
            "obj": [("DoubleBag", None)], "var": [("DoubleUnion", None)]}


def to_json(v):
    k = v["k"]
    if k == "dbl":
        return SYM_JSON[v["s"]]
    if k == "str":
        return v["s"]
    if k == "none":
        return None
    if k == "some":
        return to_json(v["kids"][0])
    if k == "list":
        return [to_json(x) for x in v["kids"]]
    if k == "map":
        out = {}
        for i in range(0, len(v["kids"]), 2):
            key = to_json(v["kids"][i])
            out[key if isinstance(key, str) else json.dumps(key)] = to_json(v["kids"][i + 1])
        return out
    if k == "obj":
        d = {"d": to_json(v["kids"][0])}
        od = to_json(v["kids"][1])
        if od is not None:
            d["od"] = od
        return d
    if k == "var":
        name = {"0": "d", "1": "l", "2": "s"}[v["s"]]
        return {"type": name, name: to_json(v["kids"][0])}
    raise vc.ToolError(k)


def doc_for(v, field):
    j = to_json(v)
    if field is None:
        return json.dumps(j)
    if j is None:
        return json.dumps({})
    return json.dumps({field: j})


def check_laws(m, n, out, sig, rep, greatest=None):
    """laws on a real eq/cmp/hash matrix"""
    eq, cmp, h = m["eq"], m["cmp"], m["hash"]
    for i in range(n):
        if not eq[i][i] or cmp[i][i] != 0:
            out.violation("%s:reflexive" % sig, "value %d is not equal to itself (eq=%s cmp=%s)" % (i, eq[i][i], cmp[i][i]), rep)
        for j in range(n):
            if eq[i][j] != (cmp[i][j] == 0):
                out.violation("%s:eq-vs-cmp" % sig, "values %d,%d: eq=%s but cmp=%s" % (i, j, eq[i][j], cmp[i][j]), rep)
            if cmp[i][j] != -cmp[j][i]:
                out.violation("%s:antisymmetric" % sig, "cmp(%d,%d)=%s cmp(%d,%d)=%s" % (i, j, cmp[i][j], j, i, cmp[j][i]), rep)
            if eq[i][j] and h[i] != h[j]:
                out.violation("%s:hash" % sig, "values %d,%d are equal but hash differently" % (i, j), rep)
            if "pcmp" in m and m["pcmp"][i][j] != cmp[i][j]:
                out.violation("%s:partial-cmp" % sig, "partial_cmp differs from cmp for %d,%d" % (i, j), rep)
    for i in range(n):
        for j in range(n):
            if cmp[i][j] > 0:
                continue
            for k in range(n):
                if cmp[j][k] <= 0 and cmp[i][k] > 0:
                    out.violation("%s:transitive" % sig, "%d<=%d<=%d but cmp(%d,%d)=1" % (i, j, k, i, k), rep)
                    break
    for key in ("in_btreeset", "in_hashset", "twice"):
        if key in m and not all(m[key]):
            out.violation("%s:%s" % (sig, key), "a value inserted into the collection / parsed twice is not found again: %s" % m[key], rep)
    if "btree_len" in m:
        classes = len({tuple(1 if eq[i][j] else 0 for j in range(n)) for i in range(n)})
        if m["btree_len"] != classes or m["hash_len"] != classes:
            out.violation("%s:set-size" % sig, "BTreeSet has %d, HashSet %d elements for %d equality classes" % (
                m["btree_len"], m["hash_len"], classes), rep)
    if greatest is not None:
        for j in range(n):
            if cmp[greatest][j] < 0:
                out.violation("%s:nan-greatest" % sig, "NaN compares less than value %d" % j, rep)


def run(tier, seed):
    out = vc.Outcome(PID, tier, seed, "model_checking")
    rng = vc.Rng(seed)
    r = vc.tlc(PID, "MCOrders", "MCOrders.cfg", workers=4 if tier == "quick" else 16, timeout_s=1200)
    if r.error:
        raise vc.ToolError(r.error)
    vc.require_actions(r, ["PickType", "PickA", "PickB", "PickC"])
    if r.violated:
        out.notes.append("TLC: model violates %s" % r.violated)
    universes = {c["ty"]: c["values"] for c in r.cases}
    pairs = {}
    for kind, p in r.prints:
        if kind == "PAIR":
            pairs[(p["ty"], json.dumps(p["a"], sort_keys=True), json.dumps(p["b"], sort_keys=True))] = p
    vc.log("[tlc] %d states, %d types, %d predicted pairs" % (r.distinct, len(universes), len(pairs)))
    docs, meta = [], {}
    for ty, values in universes.items():
        for tname, field in TYPE_MAP[ty]:
            for cfg in ("a", "b"):
                cid = "%s.%s.%s" % (ty, tname, cfg)
                docs.append(json.dumps({"id": cid, "cfg": cfg, "ty": tname, "docs": [doc_for(v, field) for v in values]}))
                meta[cid] = (ty, tname, values)
    # random DoubleBag / DoubleUnion / recursive documents
    nrand = 60 if tier == "quick" else 600

    def rd():
        return rng.choice(list(SYM_JSON.values()) + [1.5, 2.5, -7.25])
    for j in range(nrand):
        vals = []
        for _ in range(8):
            d = {"d": rd()}
            if rng.chance(1, 2):
                d["od"] = rd()
            if rng.chance(1, 2):
                d["ld"] = [rd() for _ in range(rng.below(3))]
            if rng.chance(1, 3):
                d["sd"] = [rd()]
            if rng.chance(1, 2):
                d["md"] = {rng.choice(["a", "b"]): rd()}
            if rng.chance(1, 3):
                d["kd"] = {str(rng.choice(["NaN", "1.5", "-0.0", "0.0", "Infinity"])): "v"}
            if rng.chance(1, 3):
                d["nested"] = {"x": rd()}
            if rng.chance(1, 3):
                d["u"] = {"type": "circle", "circle": rd()}
            if rng.chance(1, 3):
                d["ad"] = rd()
            if rng.chance(1, 3):
                d["lod"] = [rng.choice([None, rd()]) for _ in range(rng.below(3))]
            if rng.chance(1, 3):
                d["mld"] = {"k": [rd() for _ in range(rng.below(3))]}
            vals.append(json.dumps(d))
        # include exact duplicates so that equality classes are non-trivial
        vals += vals[:3]
        cid = "rand%d" % j
        docs.append(json.dumps({"id": cid, "cfg": rng.choice(["a", "b"]), "ty": "DoubleBag", "docs": vals}))
        meta[cid] = ("rand", "DoubleBag", vals)
    rec = [json.dumps({"n": 1, "b": {"d": x, "a": {"n": 2}}}) for x in SYM_JSON.values()] + [json.dumps({"n": 1})]
    docs.append(json.dumps({"id": "rec", "cfg": "a", "ty": "RecA", "docs": rec}))
    meta["rec"] = ("rand", "RecA", rec)
    text = vc.harness_parallel("vgen", ["order"], docs, nproc=6)
    replayed = 0
    nontrivial = set()
    samples = []
    for obs in vc.ndjson(text):
        ty, tname, values = meta[obs["id"]]
        rep = {"type": tname, "docs": [doc_for(v, dict(TYPE_MAP[ty]).get(tname)) for v in values] if ty != "rand" else values}
        if obs.get("panic") or "skip" in obs or "parse_err" in obs:
            if "skip" in obs:
                raise vc.ToolError("type %s missing from the zoo" % tname)
            out.violation("C14:%s:%s" % (tname, "panic" if obs.get("panic") else "parse"), str(obs)[:160], rep)
            continue
        n = len(values)
        replayed += n * n
        nan_idx = None
        if ty == "dbl":
            nan_idx = next(i for i, v in enumerate(values) if v["s"] == "nan")
        check_laws(obs, n, out, "C14:generated:%s" % tname, rep, nan_idx)
        if ty != "rand":
            for i, a in enumerate(values):
                for j, b in enumerate(values):
                    p = pairs.get((ty, json.dumps(a, sort_keys=True), json.dumps(b, sort_keys=True)))
                    if p and (p["cmp"] != obs["cmp"][i][j] or p["eq"] != obs["eq"][i][j] or (p["hasheq"] and obs["hash"][i] != obs["hash"][j])):
                        out.model_drift("Orders", "%s: values %d,%d: model cmp=%s eq=%s, code cmp=%s eq=%s" % (
                            tname, i, j, p["cmp"], p["eq"], obs["cmp"][i][j], obs["eq"][i][j]))
                        break
        nontrivial.add((tname, obs["id"]))
        if len(samples) < 2 and ty == "list":
            samples.append({"type": tname, "docs": rep["docs"][:6], "cmp_row0": obs["cmp"][0][:6], "eq_row0": obs["eq"][0][:6]})

    # DoubleKey / DoubleOps with exact bit patterns
    bits = list(SYM_BITS.values()) + ["0x7ff8000000000001", "0x7ff0000000000001", "0x0000000000000001", "0x7fefffffffffffff"]
    direct = [{"id": "doublekey", "kind": "doublekey", "values": bits}, {"id": "f64", "kind": "f64", "values": bits},
              {"id": "opt", "kind": "opt", "values": [None] + bits},
              {"id": "vec", "kind": "vec", "values": [[]] + [[b] for b in bits[:6]] + [[a, b] for a in bits[:4] for b in bits[5:9]]},
              {"id": "vecopt", "kind": "vecopt", "values": [[], [None], [bits[6]], [None, bits[7]], [bits[7], None], [bits[2]], [bits[3]]]},
              {"id": "map", "kind": "map", "values": [[]] + [[["a", b]] for b in bits[:8]] + [[["a", bits[6]], ["b", bits[7]]], [["b", bits[3]]]]}]
    for obs in vc.ndjson(vc.harness("vh", ["orders"], stdin="\n".join(json.dumps(d) for d in direct) + "\n")):
        d = next(x for x in direct if x["id"] == obs["id"])
        if "panic" in obs:
            out.violation("C14:%s:panic" % obs["id"], obs["panic"][:100], d)
            continue
        n = len(d["values"])
        replayed += n * n
        check_laws(obs, n, out, "C14:%s" % obs["id"], d, bits.index(SYM_BITS["nan"]) if obs["id"] in ("doublekey", "f64") else None)
        # NaN payloads are all equal, signed zeros are equal
        if obs["id"] in ("doublekey", "f64"):
            nans = [i for i, b in enumerate(bits) if b in ("0x7ff8000000000000", "0xfff8000000000123", "0x7ff8000000000001", "0x7ff0000000000001")]
            for i in nans:
                for j in nans:
                    if not obs["eq"][i][j]:
                        out.violation("C14:%s:nan-payload" % obs["id"], "NaNs with different payloads are unequal", d)
            z = [bits.index(SYM_BITS["nz"]), bits.index(SYM_BITS["pz"])]
            if not obs["eq"][z[0]][z[1]]:
                out.violation("C14:%s:signed-zero" % obs["id"], "-0.0 and +0.0 are unequal", d)
        nontrivial.add(("direct", obs["id"]))
    out.coverage = {
        "states": r.distinct, "transitions": r.generated, "traces_validated_against_impl": replayed,
        "samples": samples, "evaluations": replayed, "distinct_nontrivial": len(nontrivial),
        "rule": "for each of 7 abstract types the whole value universe (8 doubles; None/Some; lists of <=2 incl. prefixes; "
                "string- and double-keyed maps of <=2 entries; objects; union variants) is parsed into 1-6 generated types "
                "x 2 configurations and all pairs/triples are evaluated on the real Ord/Eq/Hash impls; random DoubleBag "
                "batches with doubles in 11 positions; DoubleKey/DoubleOps with exact bit patterns. evaluations = pairs "
                "evaluated; distinct_nontrivial = distinct (type, batch) matrices.",
        "coverage_by_action": {k: v[1] for k, v in r.coverage.items()}, "exhaustive": True,
    }
    out.assumptions = ["TLC 1.8.0", "std DefaultHasher (hash equality is observed through one hasher)",
                       "JSON cannot carry NaN payloads: distinct payloads are exercised on DoubleKey/DoubleOps directly"]
    return out.finish()


def replay(path, seed):
    rep = json.load(open(path))["case"]
    out = vc.Outcome(PID, "quick", seed, "model_checking")
    if "docs" in rep:
        obs = vc.ndjson(vc.harness("vgen", ["order"], stdin=json.dumps({"id": "r", "cfg": "a", "ty": rep["type"], "docs": rep["docs"]}) + "\n"))[0]
        check_laws(obs, len(rep["docs"]), out, "C14:generated:%s" % rep["type"], rep)
    else:
        obs = vc.ndjson(vc.harness("vh", ["orders"], stdin=json.dumps(rep) + "\n"))[0]
        check_laws(obs, len(rep["values"]), out, "C14:%s" % rep["id"], rep)
    print("replay: property %s" % ("VIOLATED" if out.violations else "holds"))
    return 1 if out.violations else 0
