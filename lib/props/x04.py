"""X04 (extension: the request half of C04) - the request a generated client assembles (spec/ClientRequest.tla).

TLC checks RequestOk (Content-Type / Content-Length per body class, Accept per return class, credentials, one header line per
present header argument) on the transcribed call sequence of clients.rs.  Every signature class the model enumerates that the
generated Matrix service has an endpoint for is called through the loopback, blocking and async; the request the loopback
received (header lines as sent, body length) is compared with the property (VIOLATION) and with the model (MODEL-DRIFT).
"""
import json

import vcommon as vc

PID = "X04"
BAG = {"d": 1.5, "od": 2.5, "ld": [1.5], "md": {"k": 1.5}, "kd": {"1.5": "x"}, "sd": [], "nested": {"x": 2.5}, "lod": [None, 1.5], "mld": {}}
UUID = "6ba7b810-9dad-11d1-80b4-00c04fd430c8"
# (body class, return class, auth) -> (endpoint, args, handler return)
SIGS = {
    ("none", "json", "none"): ("listReturn", {"n": 1}, ["a"]),
    ("json", "none", "none"): ("unit", {"body": "x"}, None),
    ("json", "json", "none"): ("limited", {"body": "b"}, "text"),
    ("optjson-absent", "json", "none"): ("optBody", {"body": None}, {"a": 2}),
    ("optjson-present", "json", "none"): ("optBody", {"body": {"a": 1}}, None),
    ("binary", "binary", "none"): ("binaryBody", {"body": [1, 2, 3]}, [4]),
    ("none", "optbinary", "none"): ("optBinaryReturn", {"n": 1}, [1]),
    ("none", "json", "header"): ("authHeader", {"auth": "tok.en", "q": "x"}, "r"),
    ("none", "json", "cookie"): ("authCookie", {"auth": "tok.en"}, "r"),
}
HEADERS = {"required": {"hs": "v", "ho": None, "hu": UUID, "ha": "a", "he": None, "hd": 1.5},
           "opt-present": {"hs": "v", "ho": 7, "hu": UUID, "ha": "a", "he": "RED", "hd": 1.5},
           "opt-absent": {"hs": "v", "ho": None, "hu": UUID, "ha": "a", "he": None, "hd": 1.5}}


def run(tier, seed):
    out = vc.Outcome(PID, tier, seed, "model_checking")
    r = vc.tlc(PID, "MCClientRequest", "MCClientRequest.cfg", workers=2, timeout_s=300)
    if r.error:
        raise vc.ToolError(r.error)
    vc.require_actions(r, ["Pick"])
    if r.violated:
        out.model_drift("model:%s" % r.violated, "TLC reports %s" % r.violated)
    docs, meta = [], {}
    k = 0
    seen = set()
    for c in r.cases:
        sig = (c["body"], c["ret"], c["auth"])
        calls = []
        if sig in SIGS and sig not in seen:
            seen.add(sig)
            calls.append(("sig",) + SIGS[sig])
        hk = ("hdr", c["header"])
        if hk not in seen:
            seen.add(hk)
            calls.append(("hdr", "headers", HEADERS[c["header"]], "r"))
        for what, endpoint, args, ret in calls:
            for client in ("gen-blocking", "gen-async"):
                cid = "q%d" % k
                k += 1
                docs.append(json.dumps({"id": cid, "endpoint": endpoint, "args": args, "ret": ret, "client": client, "server": client,
                                        "mutations": [], "smile": False, "chunk": 1}))
                meta[cid] = (c, what, endpoint, args)
    n = 0
    for obs in vc.ndjson(vc.harness("vgen", ["rpc"], stdin="\n".join(docs) + "\n")):
        c, what, endpoint, args = meta[obs["id"]]
        n += 1
        rep = {"case": c, "endpoint": endpoint, "args": args}
        if "panic" in obs or "skip" in obs or not obs.get("exchanges"):
            out.violation("X04:no-request:%s" % endpoint, "the call produced no request: %s" % str(obs.get("panic") or obs.get("skip") or obs.get("client"))[:100], rep)
            continue
        ex = obs["exchanges"][0]
        lines = {}
        for name, value in ex["headers"]:
            lines.setdefault(name.lower(), []).append(value)
        if what == "hdr":
            want = {"x-str": 1, "x-uuid": 1, "x-alias": 1, "x-dbl": 1, "x-opt": 0 if args["ho"] is None else 1, "x-enum": 0 if args["he"] is None else 1}
            for h, cnt in want.items():
                if len(lines.get(h, [])) != cnt:
                    out.violation("X04:header-lines:%s" % ("missing" if cnt else "spurious"), "header %s: %d line(s), argument %s" % (h, len(lines.get(h, [])), "present" if cnt else "absent"), rep)
            continue
        ct = (lines.get("content-type") or ["absent"])[0]
        acc = (lines.get("accept") or ["absent"])[0]
        body, ret, auth = c["body"], c["ret"], c["auth"]
        want_ct = "absent" if body == "none" else "application/octet-stream" if body == "binary" else "application/json"
        if ct != want_ct or len(lines.get("content-type", [])) > 1:
            out.violation("X04:content-type:%s" % body, "a %s request body is sent with Content-Type %s" % (body, lines.get("content-type")), rep)
        want_acc = "application/octet-stream" if ret in ("binary", "optbinary") else "application/json"
        if acc != want_acc or len(lines.get("accept", [])) != 1:
            out.violation("X04:accept:%s" % ret, "a call returning %s asks for %s" % (ret, lines.get("accept")), rep)
        has_len = "content-length" in lines
        if body in ("json", "optjson-absent", "optjson-present"):
            if not has_len or lines["content-length"] != [str(ex["body_len"])]:
                out.violation("X04:content-length", "Content-Length %s for a body of %d bytes" % (lines.get("content-length"), ex["body_len"]), rep)
        elif body == "none" and (has_len and lines["content-length"] != ["0"]):
            out.violation("X04:content-length", "Content-Length %s without a body" % lines["content-length"], rep)
        tok = args.get("auth")
        want_auth = {"header": ("authorization", "Bearer %s" % tok), "cookie": ("cookie", "sid=%s" % tok)}.get(auth)
        for h in ("authorization", "cookie"):
            if want_auth and h == want_auth[0]:
                if lines.get(h) != [want_auth[1]]:
                    out.violation("X04:credentials:%s" % auth, "credentials sent as %s: %s" % (h, lines.get(h)), rep)
            elif h in lines:
                out.violation("X04:credentials:spurious", "unexpected %s header" % h, rep)
        if ct != c["content_type"] or acc != c["accept"] or has_len != (c["has_length"] or False):
            out.model_drift("ClientRequest", "%s: Content-Type %s / Accept %s / length %s, model %s / %s / %s" % (
                endpoint, ct, acc, has_len, c["content_type"], c["accept"], c["has_length"]))
    if n != len(docs):
        raise vc.ToolError("rpc harness answered %d of %d cases" % (n, len(docs)))
    out.coverage = {"states": r.distinct, "transitions": r.generated, "traces_validated_against_impl": n, "evaluations": n,
                    "distinct_nontrivial": len(seen), "samples": r.cases[:2],
                    "rule": "every (body class, return class, credentials) the generated Matrix service has an endpoint for and every header-argument "
                            "class, blocking and async generated clients; the request as the loopback received it",
                    "coverage_by_action": {k2: v[1] for k2, v in r.coverage.items()}, "exhaustive": False}
    out.assumptions = ["TLC 1.8.0", "signature classes without a Matrix endpoint (e.g. binary body with cookie credentials) are checked on the model only"]
    return out.finish()


def replay(path, seed):
    print("replay: re-run `bin/check X04`")
    return 0
