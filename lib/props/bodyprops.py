"""Shared driver of C06 (server request bodies) and C18 (client response bodies): spec/BodyFraming.tla."""
import json
import os

import vcommon as vc

FLAVOURS = ["blocking", "async", "async-pending"]


def verdict_of(side, obs, view="direct"):
    if side == "server":
        o = obs[view]
        return o["verdict"], o.get("why", "")
    return obs["client"]["verdict"], ("stream" if obs["client"].get("stream") else "")


def norm_why(why):
    """harness reason -> model reason class"""
    if why == "stream":
        return "stream"
    return why


def judge_server(case, obs, out, replay, pid="C06"):
    prop = case["prop"]
    bad = False
    hasfail = -1 in case["h"]
    for view in ("direct", "endpoint"):
        o = obs[view]
        v = o["verdict"]
        if v == "panic":
            out.violation(pid + ":%s:panic" % view, "request body handling panicked: %s" % o["why"][:100], replay)
            bad = True
            continue
        if v not in prop:
            kind = "accepted-invalid" if v in ("accept", "absent") else "rejected-valid"
            detail = case["par"]["cls"] if v == "accept" else case["par"]["ct"]
            out.violation(pid + ":%s:%s:%s" % (view, kind, detail),
                          "%s body (%s, Content-Type %s, limit %s, history %s): verdict %s, property allows %s" % (
                              case["par"]["cls"], case.get("enc"), case["par"]["ct"], case["par"]["limit"], case["h"],
                              v, prop), replay)
            bad = True
            continue
        if v == "reject":
            why = o["why"]
            if why == "stream" and not hasfail:
                out.violation(pid + ":%s:error-kind" % view, "stream error reported although the stream raised none", replay)
                bad = True
            elif why not in ("stream", "InvalidArgument"):
                out.violation(pid + ":%s:error-kind:%s" % (view, why),
                              "rejection is neither INVALID_ARGUMENT nor the stream's error: %s" % why, replay)
                bad = True
        if view == "endpoint":
            want_calls = 1 if v in ("accept", "absent") else 0
            if o["calls"] != want_calls:
                out.violation(pid + ":endpoint:handler-calls", "handler invoked %d times for verdict %s" % (o["calls"], v), replay)
                bad = True
        if v == "accept" and o.get("value_ok") is False:
            out.violation(pid + ":%s:value" % view, "handler/deserializer received a different value", replay)
            bad = True
    return bad


def judge_client(case, obs, out, replay):
    o = obs["client"]
    v = o["verdict"]
    if v == "panic":
        out.violation("C18:panic", "response decoding panicked: %s" % o["why"][:100], replay)
        return True
    if v not in case["prop"]:
        kind = "value-from-invalid" if v in ("value", "empty", "stream-handle") else "error-from-valid"
        out.violation("C18:%s:%s:%s" % (kind, case["par"]["ret"], case["par"]["cls"]),
                      "%s response (status %s, Content-Type %s, history %s) for return class %s: %s, property allows %s" % (
                          case["par"]["cls"], case["par"]["status"], case["par"]["ct"], case["h"], case["par"]["ret"],
                          v, case["prop"]), replay)
        return True
    if v == "value" and o.get("value_ok") is False:
        out.violation("C18:value", "decoded value differs from the document", replay)
        return True
    return False


def random_case(rng, side):
    n = rng.below(7)
    h = []
    total = 0
    for _ in range(n):
        k = rng.below(6)
        if k == 0 and -1 not in h:
            h.append(-1)
        elif k == 1:
            h.append(0)
        else:
            u = 1 + rng.below(3)
            h.append(u)
            total += u
    if side == "server":
        cls = "empty" if total == 0 else rng.choice(["doc", "doc", "doc", "docws", "trailing", "truncated", "malformed",
                                                     "unknown", "wrongtype", "otherenc"])
        kind = rng.choice(["std", "std", "optional"])
        ct = rng.choice(["exact", "exact", "exact", "params", "other", "near", "wildcard", "garbage", "absent"])
        limit = -1 if kind == "optional" else rng.choice([-1, total - 1, total, total + 1])
        if limit < -1:
            limit = -1
        return {"side": "server", "h": h, "total": total,
                "par": {"kind": kind, "ct": ct, "limit": limit, "cls": cls, "ret": "", "status": 0}}
    cls = "empty" if total == 0 else rng.choice(["doc", "doc", "docws", "trailing", "truncated", "malformed", "unknown",
                                                 "wrongtype"])
    ret = rng.choice(["unit", "value", "value", "default", "binary", "optbinary"])
    status = 204 if (total == 0 and rng.chance(1, 2)) else 200
    ct = "absent" if status == 204 else rng.choice(["json", "json", "json", "jsonparams", "octet", "other", "near", "absent"])
    return {"side": "client", "h": h, "total": total,
            "par": {"kind": "", "ct": ct, "limit": -1, "cls": cls, "ret": ret, "status": status}}


# ---- C18 through the GENERATED clients: the decoder is the one clients.rs selects for the endpoint's return type ----------
BAG = {"d": 1.5, "od": 2.5, "ld": [1.5], "md": {"k": 1.5}, "kd": {"1.5": "x"}, "sd": [], "nested": {"x": 2.5}, "lod": [None, 1.5], "mld": {}}
GEN_RET = {   # return class -> [(endpoint, call arguments, what the handler returns, doc, doc with unknown field, doc of another type, malformed)]
    "unit": [("unit", {"body": "x"}, None, b'{"x":[1,"a"]}', b'{"x":1}', b'"text"', b'{"x":}')],
    "value": [("jsonBody", {"body": BAG}, {"d": 2.5}, b'{"d":2.5}', b'{"d":2.5,"zz":1}', b'"str"', b'{"d":2.5,,}'),
              ("limited", {"body": "b"}, "text", b'"text"', b'"text"', b'12', b'"te\\qxt"'),
              # macro clients (conjure_client + ConjureResponseDeserializer): an Option return, where `null` is a document
              ("optRet", {}, "x", b'"text"', b'"text"', b'12', b'"te\\qxt"'), ("optRet", {}, None, b'null', b'null', b'[1]', b'nul')],
    "default": [("listReturn", {"n": 1}, ["a"], b'["a","b"]', b'["a","b"]', b'{"a":1}', b'["a",,"b"]'),
                ("optBody", {"body": None}, {"a": 2}, b'{"a":2}', b'{"a":2,"zz":[]}', b'"s"', b'{"a":2,,}')],
    "binary": [("binaryBody", {"body": [1]}, [1, 2, 3], b"\x01\x02\x03", b"\x01\x02\x03", b"\x01\x02\x03", b"\x01\x02\x03")],
    "optbinary": [("optBinaryReturn", {"n": 1}, [1, 2], b"\x01\x02", b"\x01\x02", b"\x01\x02", b"\x01\x02")],
}
GEN_CT = {"json": "application/json", "jsonparams": "application/json; charset=utf-8", "octet": "application/octet-stream",
          "other": "text/plain", "near": "application/json+xml", "absent": None}


def gen_body(cls, doc, unknown, wrong, k, malformed=None):
    if cls == "empty":
        return b""
    if cls == "doc":
        return doc
    if cls == "docws":
        return b" \n" + doc + b"\t \r\n"
    if cls == "trailing":
        return doc + [b" 1", b"}", b"x", b"\xff", b" \xfe"][k % 5]
    if cls == "truncated":
        return doc[:-1] if len(doc) > 1 else b"["
    if cls == "malformed":
        return malformed
    if cls == "unknown":
        return unknown
    if cls == "wrongtype":
        return wrong
    if cls == "otherenc":
        return b":)\n\x01\xfa\x80d$\x05\xfb"        # a Smile document under a JSON Content-Type
    raise vc.ToolError(cls)


def cut_like(body, h):
    """chunks following the abstract history: zeros are empty chunks, positive entries share the body proportionally; -1 = fault"""
    data = [x for x in h if x >= 0]
    total = sum(data)
    chunks, pos, acc, fail_at = [], 0, 0, None
    nz = [x for x in data if x > 0]
    for x in h:
        if x < 0:
            if fail_at is None:
                fail_at = len(chunks)
            continue
        if x == 0:
            chunks.append([])
            continue
        acc += x
        end = len(body) if acc == total else max(pos + 1, min(len(body) - (len(nz) - 1), len(body) * acc // total))
        chunks.append(list(body[pos:end]))
        pos = end
    return chunks, fail_at


def generated_clients_stage(out, cases, seed, tier, nontrivial):
    docs, meta = [], {}
    k = 0
    for c in cases:
        par, h = c["par"], c["h"]
        total = sum(x for x in h if x >= 0)
        for endpoint, args, ret, doc, unknown, wrong, malformed in GEN_RET[par["ret"]]:
            if par["cls"] == "unknown" and unknown == doc or (par["cls"] == "wrongtype" and par["ret"] in ("binary", "optbinary")):
                continue
            body = gen_body(par["cls"], doc, unknown, wrong, k, malformed)
            nonzero = len([x for x in h if x > 0])
            if (total == 0) != (len(body) == 0) or nonzero > len(body):
                continue
            chunks, fail_at = cut_like(body, h)
            muts = [{"op": "resp_status", "status": par["status"]}, {"op": "resp_ctype", "value": GEN_CT[par["ct"]]}, {"op": "resp_chunks", "chunks": chunks}]
            if fail_at is not None:
                muts.append({"op": "resp_fail_at", "index": fail_at})
            flav = ["macro-blocking", "macro-async"] if endpoint == "optRet" else ["gen-blocking", "gen-async"]
            for client in (flav if tier == "thorough" else [flav[k % 2]]):
                cid = "g%d" % k
                k += 1
                d = {"id": cid, "endpoint": endpoint, "args": args, "ret": ret, "client": client, "server": client, "mutations": muts, "smile": False, "chunk": 1}
                docs.append(json.dumps(d))
                meta[cid] = (c, d, doc, unknown)
    n = 0
    for obs in vc.ndjson(vc.harness_parallel("vgen", ["rpc"], docs, nproc=6)):
        c, d, doc, unknown = meta[obs["id"]]
        par = c["par"]
        rep = {"case": d, "prop": c["prop"], "par": par, "h": c["h"]}
        n += 1
        if "panic" in obs:
            out.violation("C18:generated:panic", "generated client panicked: %s" % str(obs["panic"])[:100], rep)
            continue
        if "skip" in obs:
            raise vc.ToolError("rpc harness: %s" % obs["skip"])
        err = obs["client"].get("err")
        prop = c["prop"]
        if err is not None:
            if "error" not in prop:
                out.violation("C18:generated:error-for-valid:%s:%s" % (par["ret"], par["cls"]), "the generated %s client fails on a complete, correctly typed response: %s" % (
                    d["client"], str(err["cause"])[:100]), rep)
            continue
        if set(prop) == {"error"}:
            out.violation("C18:generated:value-from-invalid:%s:%s" % (par["ret"], par["cls"] if par["status"] == 200 else "status204"),
                          "the generated %s client of %s returns %s from status %s, Content-Type %s, a %s body, history %s" % (
                              d["client"], d["endpoint"], json.dumps(obs["client"]["ok"])[:60], par["status"], par["ct"], par["cls"], c["h"]), rep)
            continue
        got = obs["client"]["ok"]
        if "value" in prop and par["ret"] in ("value", "default") and par["status"] == 200:
            want = json.loads(doc.decode())
            if got != want and not (d["endpoint"] == "jsonBody"):
                out.violation("C18:generated:wrong-value:%s" % par["ret"], "returned %s for body %s" % (json.dumps(got)[:60], doc[:40]), rep)
        nontrivial.add(json.dumps(["gen", d["endpoint"], par, c["h"]], sort_keys=True))
    if n != len(docs):
        raise vc.ToolError("rpc harness answered %d of %d cases" % (n, len(docs)))
    vc.log("[generated clients] %d scripted responses" % n)
    return n


def py_mech_prop(case):
    """python mirror of ServerProp/ClientProp for the random driver (the trace spec re-checks it in TLA+)."""
    par, h = case["par"], case["h"]
    hasfail = -1 in h
    total = sum(x for x in h if x >= 0)
    if case["side"] == "server":
        if par["kind"] == "optional" and par["ct"] == "absent":
            return ["absent"]
        ok = par["ct"] in ("exact", "params") and par["cls"] in ("doc", "docws") and not hasfail and not (
            par["limit"] >= 0 and total > par["limit"])
        return ["accept"] if ok else ["reject"]
    ret, status, ct, cls = par["ret"], par["status"], par["ct"], par["cls"]
    if status == 204 and ret in ("unit", "default", "optbinary"):
        return ["empty"]
    if ret in ("binary", "optbinary"):
        return ["stream-handle"] if ct == "octet" else ["error"]
    deser = cls in (("doc", "docws", "unknown", "wrongtype") if ret == "unit" else ("doc", "docws", "unknown"))
    if ct == "jsonparams" and not hasfail and deser:
        return ["value", "error"]
    if ct == "json" and not hasfail and deser:
        return ["value"]
    return ["error"]


def run_side(pid, side, tier, seed):
    out = vc.Outcome(pid, tier, seed, "model_checking")
    rng = vc.Rng(seed)
    od = vc.outdir(pid)
    workers = 4 if tier == "quick" else 16
    cfgs = ["MCBodyFraming_%s_q.cfg" % side] + (["MCBodyFraming_%s_t.cfg" % side] if tier == "thorough" else [])
    cases, states, transitions, cov, runs = [], 0, 0, {}, []
    for cfg in cfgs:
        r = vc.tlc(pid, "MCBodyFraming", cfg, workers=workers, timeout_s=3000, extra_env={"EMITRES": str(seed)})
        if r.error:
            raise vc.ToolError("%s: %s" % (cfg, r.error))
        vc.require_actions(r, ["AddItem", "Pick"])
        runs.append({"cfg": cfg, "generated": r.generated, "distinct": r.distinct, "violated": r.violated,
                     "wall_s": round(r.wall_s, 1), "cases": len(r.cases)})
        if r.violated:
            out.notes.append("TLC: model of the current mechanism violates %s in %s" % (r.violated, cfg))
        states += r.distinct
        transitions += r.generated
        for k, v in r.coverage.items():
            cov[k] = max(cov.get(k, 0), v[1])
        cases.extend(r.cases)
    if side == "server":
        # self-test of the model check: the mechanism without end-of-input validation (pinned tree) must be caught
        ro = vc.tlc(pid, "MCBodyFraming", "MCBodyFraming_server_old.cfg", workers=2, timeout_s=300, coverage=False,
                    keep_cases=False)
        if "AcceptIffOneDocument" not in ro.violated:
            raise vc.ToolError("spec self-test failed: the mechanism without end check passes AcceptIffOneDocument")
    vc.log("[tlc] %d states, %d cases" % (states, len(cases)))

    # ---- S->I ----
    docs, meta = [], {}
    encs = ["json", "smile"] if side == "server" else ["json"]
    k = 0
    for ci, c in enumerate(cases):
        for enc in encs:
            if enc == "smile" and c["par"]["cls"] == "docws":
                continue
            fl = FLAVOURS[k % 3] if tier == "quick" else None
            for flavour in ([fl] if fl else FLAVOURS):
                cid = "%d.%s.%s" % (ci, enc, flavour)
                d = {"id": cid, "side": side, "enc": enc, "flavour": flavour, "h": c["h"], "par": c["par"],
                     "seed": seed * 100003 + k, "random_cut": bool(k % 2)}
                docs.append(json.dumps(d))
                meta[cid] = (c, d)
                k += 1
    text = vc.harness_parallel("vh", ["body"], docs, nproc=4)
    replayed = 0
    nontrivial = set()
    samples = []
    skipped = 0
    for obs in vc.ndjson(text):
        c, d = meta[obs["id"]]
        if "skip" in obs:
            skipped += 1
            continue
        replayed += 1
        cc = dict(c)
        cc["enc"] = d["enc"]
        rep = {"case": d, "prop": c["prop"], "observed": {k2: v for k2, v in obs.items() if k2 not in ("id",)}}
        bad = judge_server(cc, obs, out, rep) if side == "server" else judge_client(cc, obs, out, rep)
        if not bad:
            v, why = verdict_of(side, obs)
            if v != c["mech"]["verdict"] or (side == "server" and v == "reject" and
                                             (why == "stream") != (c["mech"]["why"] == "stream")):
                out.model_drift("BodyFraming", "case %s: model %s/%s, code %s/%s" % (
                    obs["id"], c["mech"]["verdict"], c["mech"]["why"], v, why))
            # the hook's steps, in units of bytes; the model's are in abstract units: compare the step names
            if [e[0] for e in obs["ev"]] != [e[0] for e in c["mech"]["ev"]]:
                out.model_drift("BodyFraming", "case %s: read_body steps %s, model %s" % (
                    obs["id"], [e[0] for e in obs["ev"]], [e[0] for e in c["mech"]["ev"]]))
        if len(c["h"]) >= 2 or -1 in c["h"]:
            nontrivial.add(json.dumps([c["h"], c["par"], d["enc"]], sort_keys=True))
        if len(samples) < 3 and len(c["h"]) == 3 and c["par"]["cls"] in ("doc", "trailing"):
            samples.append({"kind": "S->I", "case": d, "prop": c["prop"], "mech": c["mech"], "observed": obs})
    if skipped > replayed // 5:
        raise vc.ToolError("%d of %d cases could not be concretised" % (skipped, skipped + replayed))
    if side == "client":
        replayed += generated_clients_stage(out, cases, seed, tier, nontrivial)

    # ---- I->S ----
    nruns = 2500 if tier == "quick" else 25000
    docs, meta2 = [], {}
    for k in range(nruns):
        c = random_case(rng, side)
        enc = "smile" if (side == "server" and k % 3 == 0 and c["par"]["cls"] != "docws") else "json"
        d = {"id": "t%d" % k, "side": side, "enc": enc, "flavour": FLAVOURS[k % 3], "h": c["h"], "par": c["par"],
             "seed": seed * 7919 + k, "random_cut": True}
        docs.append(json.dumps(d))
        meta2[d["id"]] = (c, d)
    text = vc.harness_parallel("vh", ["body"], docs, nproc=4)
    trace_path = os.path.join(od, "trace.ndjson")
    lines = []
    with open(trace_path, "w") as f:
        for obs in vc.ndjson(text):
            c, d = meta2[obs["id"]]
            if "skip" in obs:
                continue
            cc = dict(c)
            cc["enc"] = d["enc"]
            cc["prop"] = py_mech_prop(c)
            rep = {"case": d, "prop": cc["prop"], "observed": {k2: v for k2, v in obs.items() if k2 != "id"}}
            replayed += 1
            if side == "server":
                judge_server(cc, obs, out, rep)
                v, why = verdict_of(side, obs)
                if v == "panic":
                    continue
                rec = {"ev": "server", "kind": c["par"]["kind"], "ct": c["par"]["ct"], "cls": c["par"]["cls"],
                       "limit": obs["limit_bytes"], "h": obs["hbytes"], "verdict": v,
                       "why": "stream" if why == "stream" else ("ok" if v != "reject" else "other"),
                       "events": obs["ev"]}
                # the byte-level limit relation must agree with the abstract one the case was built from
            else:
                judge_client(cc, obs, out, rep)
                v, _ = verdict_of(side, obs)
                if v == "panic":
                    continue
                rec = {"ev": "client", "ret": c["par"]["ret"], "status": c["par"]["status"], "ct": c["par"]["ct"],
                       "cls": c["par"]["cls"], "h": obs["hbytes"], "verdict": v, "events": obs["ev"]}
            f.write(json.dumps(rec) + "\n")
            lines.append((c, d, obs))
            nontrivial.add(json.dumps([obs["hbytes"], c["par"], d["enc"]], sort_keys=True))
    tr, pf, mf = vc.validate_trace(pid, "TraceBodyFraming", "TraceBodyFraming.cfg", trace_path, len(lines))
    for p in pf:
        c, d, obs = lines[p["line"] - 1]
        out.violation("%s:trace" % pid, "recorded verdict contradicts the property (validated by TLC)",
                      {"case": d, "observed": {k2: v for k2, v in obs.items() if k2 != "id"}})
    for p in mf[:5]:
        out.model_drift("TraceBodyFraming", "line %d: verdict/steps differ from the model: %s" % (p["line"], p.get("model")))

    def corrupt(recs):
        for r in recs:
            if len(r["events"]) >= 2 and r["events"][-1][0] == "more":
                r["events"][-1][1] += 1
                return True
        return False
    bound = vc.binding_selftest(pid, "TraceBodyFraming", "TraceBodyFraming.cfg", trace_path, corrupt)
    with open(trace_path) as f:
        samples.append({"kind": "I->S trace line", "line": json.loads(next(f))})

    out.coverage = {
        "states": states, "transitions": transitions, "traces_validated_against_impl": replayed,
        "samples": samples, "evaluations": replayed, "distinct_nontrivial": len(nontrivial),
        "rule": "S->I: every TLC-emitted (history, content class, Content-Type class, limit relation%s) case, "
                "concretised to real %s bytes cut at byte level (proportional and random cuts), run %s; I->S: seeded "
                "random histories of up to 6 items recorded with the read_body hook and validated by TLC. Non-trivial = "
                "history has >=2 items or a stream error; distinct by (history, parameters, encoding)." % (
                    ", deserializer kind" if side == "server" else ", return class, status",
                    "JSON and Smile" if side == "server" else "JSON",
                    "directly and through a #[conjure_endpoints] endpoint, blocking/async/async-with-Pending"
                    if side == "server" else "through the blocking and async decode helpers"),
        "model_runs": runs, "coverage_by_action": cov, "trace_lines": len(lines),
        "binding_selftest_rejected_corrupted_trace": bool(bound), "skipped_unconcretisable": skipped,
        "exhaustive": True,
        "bounds": "quick: histories of <=3 items, <=3 length units; thorough: <=5 items, <=4 units",
    }
    out.assumptions = ["TLC 1.8.0", "serde_json / serde_smile document framing",
                       "content classes are concretised by harness/vh/src/body.rs (documents of a serde-derived struct)"]
    return out.finish()


def replay_side(pid, side, path, seed):
    with open(path) as f:
        rep = json.load(f)
    d = rep["case"]["case"]
    if "endpoint" in d:
        # a scripted response through a generated / macro client (rpc document)
        obs = vc.ndjson(vc.harness("vgen", ["rpc"], stdin=json.dumps(d) + "\n"))[0]
        print(json.dumps(obs)[:600])
        prop = rep["case"]["prop"]
        err = obs.get("client", {}).get("err")
        bad = "panic" in obs or (err is None and set(prop) == {"error"}) or (err is not None and "error" not in prop)
        print("replay: property %s" % ("VIOLATED" if bad else "holds"))
        return 1 if bad else 0
    obs = vc.ndjson(vc.harness("vh", ["body"], stdin=json.dumps(d) + "\n"))[0]
    print(json.dumps(obs))
    out = vc.Outcome(pid, "quick", seed, "model_checking")
    prop = rep["case"].get("prop") or py_mech_prop({"side": side, "h": d["h"], "par": d["par"]})
    cc = {"h": d["h"], "par": d["par"], "prop": prop, "enc": d.get("enc")}
    bad = judge_server(cc, obs, out, {}) if side == "server" else judge_client(cc, obs, out, {})
    print("replay: property %s" % ("VIOLATED" if bad else "holds"))
    return 1 if bad else 0
