"""X03 (extension: the response half of C04) - how a handler's return value travels back (spec/ResponsePath.tla).

TLC checks ReturnEqual and NoContentIsRecoverable for every return class (none, string, object, optional, alias of optional,
list, set, map, binary, optional binary) x value class (default / empty text / no bytes / proper value) x Accept preference; the
model in which a plain string return is treated as a collection must violate ReturnEqual.  Every case is driven through the
loopback of harness/vgen on the generated Matrix service for all pairings of blocking / async generated clients and endpoints
(macro twins where they exist): the value the caller receives must equal the one the handler returned (VIOLATION otherwise);
status code and Content-Type of the response are compared with the model (MODEL-DRIFT otherwise).
"""
import json

import vcommon as vc
from props import c04

PID = "X03"
PAIRS = [("gen-blocking", "gen-blocking"), ("gen-async", "gen-async"), ("gen-blocking", "gen-async"), ("gen-async", "gen-blocking")]
BAG = {"d": 1.5, "od": 2.5, "ld": [1.5], "md": {"k": 1.5}, "kd": {"1.5": "x"}, "sd": [], "nested": {"x": 2.5}, "lod": [None, 1.5], "mld": {}}


def concretise(c):
    """-> list of (endpoint, args, ret)"""
    cls, v = c["cls"], c["val"]
    if cls == "unit":
        return [("unit", {"body": "x"}, None)]
    if cls == "string":
        return [("limited", {"body": "b"}, s) for s in ([""] if v == "emptytext" else ["text", " ", "null", "[]"])]
    if cls == "object":
        return [("jsonBody", {"body": BAG}, {"d": 2.5, "md": {"k": 2.5}}), ("jsonBody", {"body": BAG}, {"d": "NaN"})]
    if cls in ("optional", "aliasopt"):
        ep = "optBody" if cls == "optional" else "aliasOptBody"
        return [(ep, {"body": {"a": 1}}, None)] if v == "default" else [(ep, {"body": None}, {"a": 2}), (ep, {"body": {"a": 1}}, {"a": 0})]
    if cls == "list":
        return [("listReturn", {"n": 1}, [])] if v == "default" else [("listReturn", {"n": 1}, r) for r in (["a"], [""], ["x", "", "y"])]
    if cls == "set":
        return [("setReturn", {"n": 1}, [])] if v == "default" else [("setReturn", {"n": 1}, r) for r in ([1.5], [0.0], ["NaN", 2.5])]
    if cls == "map":
        return [("mapReturn", {"n": 1}, {})] if v == "default" else [("mapReturn", {"n": 1}, r) for r in ({"k": 1.5}, {"": 0.0})]
    if cls == "binary":
        return [("binaryBody", {"body": [1]}, [])] if v == "nobytes" else [("binaryBody", {"body": []}, [0]), ("binaryBody", {"body": [7]}, list(range(256)))]
    if cls == "optbinary":
        if v == "default":
            return [("optBinaryReturn", {"n": 1}, None)]
        return [("optBinaryReturn", {"n": 1}, [])] if v == "nobytes" else [("optBinaryReturn", {"n": 1}, [0, 255, 10])]
    raise vc.ToolError(cls)


def run(tier, seed):
    out = vc.Outcome(PID, tier, seed, "model_checking")
    r = vc.tlc(PID, "MCResponsePath", "MCResponsePath_q.cfg", workers=2, timeout_s=300)
    if r.error:
        raise vc.ToolError(r.error)
    vc.require_actions(r, ["Pick"])
    if r.violated:
        out.model_drift("model:%s" % r.violated, "TLC reports %s" % r.violated)
    rm = vc.tlc(PID, "MCResponsePath", "MCResponsePath_mut.cfg", workers=2, timeout_s=300, coverage=False, keep_cases=False)
    if "ReturnEqualInv" not in (rm.violated or []):
        raise vc.ToolError("spec self-test failed: MCResponsePath_mut must violate ReturnEqualInv")
    docs, meta = [], {}
    k = 0
    for c in r.cases:
        for endpoint, args, ret in concretise(c):
            for client, server in PAIRS:
                cid = "r%d" % k
                k += 1
                smile = c["accept"] == "smile-first"
                docs.append(json.dumps({"id": cid, "endpoint": endpoint, "args": args, "ret": ret, "client": client, "server": server,
                                        "mutations": [], "smile": smile, "chunk": 1 + k % 3}))
                meta[cid] = (c, endpoint, args, ret, client, server, smile)
    obs_all = vc.ndjson(vc.harness("vgen", ["rpc"], stdin="\n".join(docs) + "\n"))
    nontrivial = set()
    for obs in obs_all:
        c, endpoint, args, ret, client, server, smile = meta[obs["id"]]
        rep = {"case": c, "endpoint": endpoint, "args": args, "ret": ret, "client": client, "server": server, "smile": smile,
               "doc": {"id": "r", "endpoint": endpoint, "args": args, "ret": ret, "client": client, "server": server, "mutations": [], "smile": smile, "chunk": 1}}
        if "panic" in obs:
            out.violation("X03:panic:%s" % c["cls"], "panic: %s" % str(obs["panic"])[:120], rep)
            continue
        if "skip" in obs:
            raise vc.ToolError("rpc harness: %s (%s)" % (obs["skip"], endpoint))
        nontrivial.add((c["cls"], c["val"], c["accept"], client, server, json.dumps(ret)))
        err = obs["client"].get("err")
        if err is not None:
            out.violation("X03:call-failed:%s:%s" % (c["cls"], c["val"]), "the caller gets an error instead of the returned value: %s %s" % (err["code"], str(err["cause"])[:100]), rep)
            continue
        got = obs["client"]["ok"]
        if endpoint == "jsonBody":
            same = c04.bag_equal(got, ret)
        else:
            same = c04.same(got, ret, setlike=(endpoint == "setReturn"))
        if not same:
            out.violation("X03:return-altered:%s:%s" % (c["cls"], c["val"]), "handler returned %s, the caller received %s" % (json.dumps(ret)[:80], json.dumps(got)[:80]), rep)
        ex = obs["exchanges"][0] if obs["exchanges"] else {}
        want = c["resp"]
        if ex.get("status") != want["status"]:
            out.model_drift("ResponsePath", "%s/%s: status %s, model %s" % (c["cls"], c["val"], ex.get("status"), want["status"]))
        ct = ex.get("resp_ctype") or "none"
        if ct != want["ctype"]:
            out.model_drift("ResponsePath", "%s/%s (%s): Content-Type %s, model %s" % (c["cls"], c["val"], c["accept"], ct, want["ctype"]))
    if len(obs_all) != len(docs):
        raise vc.ToolError("rpc harness answered %d of %d cases" % (len(obs_all), len(docs)))
    out.coverage = {"states": r.distinct, "transitions": r.generated, "traces_validated_against_impl": len(obs_all), "evaluations": len(obs_all),
                    "distinct_nontrivial": len(nontrivial), "samples": r.cases[:3],
                    "rule": "every (return class, value class, Accept preference) TLC emits x concrete values x 4 client/endpoint pairings through the loopback",
                    "coverage_by_action": {k2: v[1] for k2, v in r.coverage.items()}, "exhaustive": True}
    out.assumptions = ["TLC 1.8.0", "the loopback transcodes a Smile response body to JSON for the generated client (which only accepts JSON)"]
    return out.finish()


def replay(path, seed):
    rep = json.load(open(path))["case"]
    obs = vc.ndjson(vc.harness("vgen", ["rpc"], stdin=json.dumps(rep["doc"]) + "\n"))[0]
    err = obs.get("client", {}).get("err")
    if "panic" in obs or err is not None:
        print("VIOLATION property=X03 replay=%s" % path)
        return 1
    return 0
