"""C16 - Bearer tokens and resource identifiers are validated exactly on every entry path (spec/Tokens.tla).

TLC checks mechanism (strip '=' + table; regex-as-DFA with capture ends; from_components) == specification grammar for
all strings up to a small length over a class-boundary alphabet; every emitted string goes through all real entry paths
(FromStr, new, Deserialize via JSON client/server, Smile, any, from_plain) and renderings; random strings and near-valid
mutations are recorded and validated by TraceTokens.tla.
"""
import json
import os
import re

import vcommon as vc

PID = "C16"
TOKEN_RE = re.compile(r"\A[A-Za-z0-9\-._~+/]+=*\Z")
RID_RE = re.compile(r"\Ari\.([a-z][a-z0-9\-]*)\.((?:[a-z0-9][a-z0-9\-]*)?)\.([a-z][a-z0-9\-]*)\.([a-zA-Z0-9_\-\.]+)\Z")
PATHS = ["from_str", "new", "json_client", "json_server", "smile", "any", "from_plain"]
RID_PATHS = PATHS + ["clone_from"]       # a value overwritten in place by a parsed one


def judge(mode, s_bytes, parts, want, obs, out, extra):
    """want: the specification's verdict.  Checks every entry path, rendering and component."""
    if "panic" in obs:
        out.violation("C16:%s:panic" % mode, "panic: %s" % obs["panic"][:100], extra)
        return None
    p = obs["paths"]
    s = bytes(s_bytes).decode("utf-8") if s_bytes is not None else None
    if mode == "components":
        o = p["from_components"]
        if o["ok"] != want:
            out.violation("C16:components:%s" % ("accepted-invalid" if o["ok"] else "rejected-valid"),
                          "from_components(%r) -> %s, componentwise validity is %s" % (parts, o["ok"], want), extra)
        elif o["ok"]:
            joined = "ri." + ".".join(parts)
            if o["renders"][0] != joined or [bytes(c).decode() for c in o["components"]] != parts:
                out.violation("C16:components:render", "components do not reproduce the inputs", extra)
        return o["ok"]
    verdicts = {k: p[k]["ok"] for k in (RID_PATHS if mode == "rid" else PATHS)}
    # the parameter decoders of generated and macro servers (one / optional / list; path-query and header flavours)
    for k, v in (p.get("decoders") or {}).items():
        verdicts["decoder:" + k] = v["ok"]
        p["decoder:" + k] = v
    if mode == "token":
        # the server's credential paths (Authorization: Bearer <s>, Cookie: sid=<s>); absent when <s> cannot be a header value
        verdicts.update({k: p[k]["ok"] for k in ("auth_header", "auth_cookie") if p.get(k) is not None})
    for k, v in verdicts.items():
        if v != want:
            out.violation("C16:%s:%s:%s" % (mode, k, "accepted-invalid" if v else "rejected-valid"),
                          "%s path %s %s %r, the grammar says %s" % (mode, k, "accepts" if v else "rejects", s,
                                                                      "valid" if want else "invalid"), extra)
        elif v and any(r != s for r in p[k]["renders"]):
            out.violation("C16:%s:%s:render" % (mode, k), "accepted %r renders as %r" % (s, p[k]["renders"]), extra)
    if mode == "rid" and want and p.get("components") is not None:
        m = RID_RE.match(s)
        got = [bytes(c).decode() for c in p["components"]]
        if m and got != list(m.groups()):
            out.violation("C16:rid:components", "components of %r are %r" % (s, got), extra)
        if "ri." + ".".join(got) != s:
            out.violation("C16:rid:join", "components of %r do not join back to it" % s, extra)
    if mode == "token" and not p.get("debug_redacted", True):
        out.violation("C16:token:debug", "Debug rendering contains the token", extra)
    return verdicts["from_str"]


def mutate(rng, s):
    b = list(s.encode())
    k = rng.below(4)
    pool = [0x2e, 0x2d, 0x5f, 0x3d, 0x41, 0x61, 0x31, 0x0a, 0x20, 0x7e, 0x2b, 0x2f, 0x40, 0x7b, 0x60, 0x5b]
    if k == 0 and b:
        b[rng.below(len(b))] = rng.choice(pool)
    elif k == 1:
        b.insert(rng.below(len(b) + 1), rng.choice(pool))
    elif k == 2 and b:
        del b[rng.below(len(b))]
    else:
        i = rng.below(len(b) + 1)
        b[i:i] = list(rng.choice(["é", "ñ", "­", "€", "\U0001f600", "±"]).encode())
    try:
        return bytes(b).decode("utf-8")
    except UnicodeDecodeError:
        return s


def random_token(rng):
    alpha = "abcxyzABCXYZ0189-._~+/"
    s = "".join(rng.choice(alpha) for _ in range(1 + rng.below(40))) + "=" * rng.below(3)
    return s


def random_rid(rng, allow_long=True):
    low = "abcz019-"
    def name(first, n):
        return rng.choice(first) + "".join(rng.choice(low) for _ in range(rng.below(n)))
    inst = "" if rng.chance(1, 3) else name("abz019", 6)
    loc = "".join(rng.choice("abzABZ019_.-") for _ in range(1 + rng.below(30)))
    svc, typ = name("abz", 8), name("abz", 8)
    if allow_long and rng.chance(1, 40):
        # one component far longer than any 16-bit offset
        long = "q" * (66000 + rng.below(500))
        which = rng.below(3)
        svc, inst, typ = (svc + long if which == 0 else svc), (inst + long if which == 1 else inst), (typ + long if which == 2 else typ)
    return "ri.%s.%s.%s.%s" % (svc, inst, typ, loc)


def run(tier, seed):
    out = vc.Outcome(PID, tier, seed, "model_checking")
    rng = vc.Rng(seed)
    od = vc.outdir(PID)
    workers = 4 if tier == "quick" else 16
    suffix = "q" if tier == "quick" else "t"
    cases, states, transitions, cov, runs = [], 0, 0, {}, []
    cfgs = ["MCTokens_token_q.cfg", "MCTokens_rid_q.cfg", "MCTokens_comp_q.cfg"]
    if tier == "thorough":
        cfgs += ["MCTokens_token_t.cfg", "MCTokens_rid_t.cfg", "MCTokens_comp_t.cfg"]
    for cfg in cfgs:
        r = vc.tlc(PID, "MCTokens", cfg, workers=workers, timeout_s=3000, extra_env={"EMITRES": str(seed)})
        if r.error:
            raise vc.ToolError("%s: %s" % (cfg, r.error))
        runs.append({"cfg": cfg, "generated": r.generated, "distinct": r.distinct, "violated": r.violated,
                     "wall_s": round(r.wall_s, 1), "cases": len(r.cases)})
        if r.violated:
            out.notes.append("TLC: model of the current mechanism violates %s in %s" % (r.violated, cfg))
        states += r.distinct
        transitions += r.generated
        for k, v in r.coverage.items():
            cov[k] = max(cov.get(k, 0), v[1])
        cases.extend(r.cases)
    vc.log("[tlc] %d states, %d cases" % (states, len(cases)))
    # designed component tuples beyond the model's length bound: a dot inside one component whose neighbourhood makes the JOINED
    # string a valid rid with other components (componentwise validity is what from_components must decide)
    comp_re = [re.compile(r"\A[a-z][a-z0-9\-]*\Z"), re.compile(r"\A([a-z0-9][a-z0-9\-]*)?\Z"), re.compile(r"\A[a-z][a-z0-9\-]*\Z"),
               re.compile(r"\A[a-zA-Z0-9_\-\.]+\Z")]
    for parts in (("svc", "inst.type", "type", "loc"), ("a", ".d", "d", "e"), ("a", "b.c", "c", "d"), ("a.b", "", "b", "c"), ("a", "b", "c.d", "e"),
                  ("a", "b", "c", "d.e"), ("a.a", "a", "a", "a"), ("a", "", "b.b", "b"), ("svc", "i", "t", "l"), ("a", "b.", "c", "d"), ("a", "", "", "d"),
                  ("a", "b", "c", ""), ("", "b", "c", "d"), ("a", "b.c.c", "c", "d"), ("a", "c", "c", "c.c")):
        ok = all(r.match(x) for r, x in zip(comp_re, parts))
        cases.append({"mode": "components", "s": [], "parts": [list(x.encode()) for x in parts], "prop": ok, "mech": ok})
    docs, meta = [], {}
    for ci, c in enumerate(cases):
        docs.append(json.dumps({"id": "c%d" % ci, "mode": c["mode"], "s": c["s"], "parts": c["parts"]}))
        meta["c%d" % ci] = c
    text = vc.harness_parallel("vh", ["tokens"], docs, nproc=4)
    replayed = 0
    nontrivial = set()
    samples = []
    for obs in vc.ndjson(text):
        c = meta[obs["id"]]
        replayed += 1
        parts = [bytes(p).decode() for p in c["parts"]] if c["mode"] == "components" else None
        got = judge(c["mode"], c["s"] if c["mode"] != "components" else None, parts, c["prop"], obs, out,
                    {"mode": c["mode"], "s": c["s"], "parts": c["parts"]})
        if got is not None and got == c["prop"] and got != c["mech"]:
            out.model_drift("Tokens", "case %s: model %s, code %s" % (obs["id"], c["mech"], got))
        if c["prop"] or len(c["s"]) >= 3:
            nontrivial.add(json.dumps([c["mode"], c["s"], c["parts"]]))
        if len(samples) < 3 and c["prop"] and c["mode"] != "components" and len(c["s"]) > 2:
            samples.append({"kind": "S->I", "mode": c["mode"], "s": bytes(c["s"]).decode(), "prop": c["prop"],
                            "observed": obs["paths"]["from_str"]})

    # ---- I->S ----
    nruns = 4000 if tier == "quick" else 60000
    docs, meta2 = [], {}
    for k in range(nruns):
        if k % 2 == 0:
            s = random_token(rng)
            mode = "token"
        else:
            s = random_rid(rng, allow_long=(k < 2400))      # a few dozen very long ones per run
            mode = "rid"
        for _ in range(rng.below(3)):
            s = mutate(rng, s)
        if rng.chance(1, 50):
            s = s + "\n"
        docs.append(json.dumps({"id": "t%d" % k, "mode": mode, "s": list(s.encode()), "parts": []}))
        meta2["t%d" % k] = (mode, s)
    text = vc.harness_parallel("vh", ["tokens"], docs, nproc=4)
    trace_path = os.path.join(od, "trace.ndjson")
    lines = []
    with open(trace_path, "w") as f:
        for obs in vc.ndjson(text):
            mode, s = meta2[obs["id"]]
            want = bool((TOKEN_RE if mode == "token" else RID_RE).match(s))
            replayed += 1
            got = judge(mode, list(s.encode()), None, want, obs, out, {"mode": mode, "s": list(s.encode())})
            if got is None:
                continue
            if len(s) > 400:
                continue            # judged above by the grammar oracle; far too long a byte sequence for TLC to walk in the trace spec
            parts = obs["paths"].get("components") or []
            f.write(json.dumps({"ev": mode, "s": list(s.encode()), "accepted": got, "parts": parts}) + "\n")
            lines.append((mode, s))
            nontrivial.add(json.dumps([mode, s]))
    tr, pf, mf = vc.validate_trace(PID, "TraceTokens", "TraceTokens.cfg", trace_path, len(lines), timeout_s=1500)
    for p in pf:
        mode, s = lines[p["line"] - 1]
        out.violation("C16:%s:trace" % mode, "recorded verdict/components for %r contradict the grammar (TLC)" % s,
                      {"mode": mode, "s": list(s.encode())})
    for p in mf[:5]:
        out.model_drift("TraceTokens", "line %d" % p["line"])

    def corrupt(recs):
        for r2 in recs:
            if r2["ev"] == "rid" and r2["accepted"]:
                r2["parts"][3] = r2["parts"][3] + [97]
                return True
        return False
    bound = vc.binding_selftest(PID, "TraceTokens", "TraceTokens.cfg", trace_path, corrupt)
    samples.append({"kind": "I->S trace line", "line": json.loads(open(trace_path).readline())})
    out.coverage = {
        "states": states, "transitions": transitions, "traces_validated_against_impl": replayed,
        "samples": samples, "evaluations": replayed, "distinct_nontrivial": len(nontrivial),
        "rule": "S->I: every string TLC enumerates (tokens: all strings of length <=3 (thorough 5) over an 18-symbol "
                "class-boundary alphabet; rids: 5 prefixes x 4 parts of length <=1 (thorough 2) over {a 1 - A . _ \\n}; "
                "from_components likewise) through 7 entry paths + renderings + components; I->S: random valid values "
                "with 0-2 byte-level mutations (incl. non-ASCII, trailing newline). Non-trivial = accepted by the "
                "grammar or length >= 3; distinct by string.",
        "model_runs": runs, "coverage_by_action": cov, "trace_lines": len(lines),
        "binding_selftest_rejected_corrupted_trace": bool(bound), "exhaustive": True,
    }
    out.assumptions = ["TLC 1.8.0", "python `re` for the I->S oracle (the TLA+ grammar re-checks every trace line)"]
    return out.finish()


def replay(path, seed):
    rep = json.load(open(path))
    c = rep["case"]
    obs = vc.ndjson(vc.harness("vh", ["tokens"], stdin=json.dumps({"id": "r", "mode": c["mode"], "s": c.get("s", []),
                                                                 "parts": c.get("parts", [])}) + "\n"))[0]
    out = vc.Outcome(PID, "quick", seed, "model_checking")
    if c["mode"] == "components":
        parts = [bytes(p).decode() for p in c["parts"]]
        m = RID_RE.match("ri." + ".".join(parts))
        want = bool(m) and list(m.groups()) == parts
        judge("components", None, parts, want, obs, out, {})
    else:
        s = bytes(c["s"]).decode()
        want = bool((TOKEN_RE if c["mode"] == "token" else RID_RE).match(s))
        judge(c["mode"], c["s"], None, want, obs, out, {})
    print("replay: property %s" % ("VIOLATED" if out.violations else "holds"))
    return 1 if out.violations else 0
